# sourced by every script in /verif: offline Go toolchain that can build /repo (see DESIGN.md §2.2)
export GOFLAGS=-mod=mod GOPROXY=off GOSUMDB=off GOTOOLCHAIN=local GOWORK=off
export PATH=/opt/veriftools/go1.26.8/bin:$PATH
export GOCACHE=${GOCACHE:-/root/.cache/go-build}
