#!/usr/bin/env python3
"""scan2checks.py <scan-output-file> <seed-dir>: converts `ivcheck -p scan` output to seeded/<id>/checks.txt."""
import sys, re, collections
by = collections.OrderedDict()
for l in open(sys.argv[1]):
    l = re.sub(r'^\s*seed:\S+: ', '', l.strip())
    m = re.match(r'(C\d+) (violated|undecided) (\S+) (.*)', l)
    if m:
        by.setdefault(m.group(1), []).append('violated: %s %s' % (m.group(3), m.group(4).strip()))
    m = re.match(r'(C\d+) anchor-unresolved (.*)', l)
    if m:
        by.setdefault(m.group(1), []).append('checker failure: anchor unresolved ' + m.group(2))
with open(sys.argv[2].rstrip('/') + '/checks.txt', 'w') as out:
    for p, ls in by.items():
        out.write('== %s exit=1\n' % p)
        for x in ls[:6]:
            out.write(x[:900] + '\n')
