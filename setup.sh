#!/bin/sh
# builds the checker from files on disk only (offline)
. /verif/env.sh
cd /verif/checker && mkdir -p /verif/bin /verif/evidence && go build -o /verif/bin/ivcheck . && echo built /verif/bin/ivcheck
