#!/bin/bash
# Regression aid: detection under refactoring. For every (benign patch, seeded change) pair that touches a common file
# and still applies when stacked (benign first), scan the stacked tree and compare with the seed alone: at least one of the
# properties that fire for the seed alone must still fire. Prints the pairs where detection is lost.
. /verif/env.sh
cd /verif/checker && go build -o /verif/bin/ivcheck . || exit 2
base=$(mktemp -d /tmp/combo.XXXX)
git -C /repo archive HEAD | tar -x -C $base --one-top-level=head
files_of() { grep '^+++ b/' $1 | sed 's|^+++ b/||' | sort -u; }
one() {
  b=$1; s=$2; base=$3
  prop=$(jq -r '[.detected_by[].property] | unique | join("|")' /verif/seeded/$s/meta.json)
  d=$base/w.$$.$RANDOM
  cp -r $base/head $d
  if ! (cd $d && patch -p1 -s --no-backup-if-mismatch < /verif/benign/$b/patch.diff >/dev/null 2>&1); then rm -rf $d; return; fi
  if ! (cd $d && patch -p1 -s -F3 --no-backup-if-mismatch < /verif/seeded/$s/patch.diff >/dev/null 2>&1); then rm -rf $d; echo "$b+$s SKIP-conflict"; return; fi
  if ! (cd $d && go build ./... >/dev/null 2>&1); then rm -rf $d; echo "$b+$s SKIP-nobuild"; return; fi
  out=$(/verif/bin/ivcheck -p scan -repo $d 2>&1 | grep '^SCAN')
  rm -rf $d
  if echo "$out" | grep -Eq "fired=[^ ]*($prop)"; then echo "$b+$s OK $out"; else echo "$b+$s LOST($prop) $out"; fi
}
export -f one
{
for s in /verif/seeded/*/; do
  sid=$(basename $s)
  jq -e '.detected' $s/meta.json >/dev/null 2>&1 || continue
  [ "$(jq -r .detected $s/meta.json)" = "true" ] || continue
  sf=$(files_of $s/patch.diff)
  for b in /verif/benign/*/; do
    bid=$(basename $b)
    bf=$(files_of $b/patch.diff)
    if [ -n "$(comm -12 <(echo "$sf") <(echo "$bf"))" ]; then echo "$bid $sid"; fi
  done
done
} | xargs -P ${J:-12} -L 1 bash -c 'one $0 $1 '$base > $base/out.txt
grep -c " OK " $base/out.txt | sed 's/^/ok pairs: /'
grep -c "SKIP" $base/out.txt | sed 's/^/skipped (conflict or no build): /'
grep "LOST" $base/out.txt | sort
cp $base/out.txt /tmp/combo_last.txt
rm -rf $base
