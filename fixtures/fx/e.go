package fx

import (
	"sync"

	"github.com/pion/interceptor"
	"github.com/pion/rtp"
)

// ---- E1 / E2: containers that grow with traffic -----------------------------------------------------------------------

type logEntry struct {
	seq   uint16
	isKey bool
}

type GoodEcont struct {
	interceptor.NoOp
	mu     sync.Mutex
	log    map[uint64]*logEntry
	recent []uint16
	next   uint64
}

func (g *GoodEcont) BindLocalStream(_ *interceptor.StreamInfo, w interceptor.RTPWriter) interceptor.RTPWriter {
	return interceptor.RTPWriterFunc(func(h *rtp.Header, p []byte, a interceptor.Attributes) (int, error) {
		g.mu.Lock()
		g.log[g.next] = &logEntry{seq: h.SequenceNumber}
		g.next++
		if g.next > 100 {
			delete(g.log, g.next-100)
		}
		g.recent = append(g.recent, h.SequenceNumber)
		if len(g.recent) > 16 {
			g.recent = g.recent[1:]
		}
		g.mu.Unlock()
		return w.Write(h, p, a)
	})
}

type BadE1 struct {
	interceptor.NoOp
	mu  sync.Mutex
	log map[uint64]*logEntry
	n   uint64
}

func (g *BadE1) BindLocalStream(_ *interceptor.StreamInfo, w interceptor.RTPWriter) interceptor.RTPWriter {
	return interceptor.RTPWriterFunc(func(h *rtp.Header, p []byte, a interceptor.Attributes) (int, error) {
		g.mu.Lock()
		g.log[g.n] = &logEntry{seq: h.SequenceNumber}
		g.n++
		g.mu.Unlock()
		return w.Write(h, p, a)
	})
}

// Close is the only place that empties the log: not a traffic path.
func (g *BadE1) Close() error {
	g.mu.Lock()
	defer g.mu.Unlock()
	clear(g.log)
	return nil
}

type BadE2 struct {
	interceptor.NoOp
	mu  sync.Mutex
	log map[uint32]*logEntry
	n   uint32
}

func (g *BadE2) BindLocalStream(_ *interceptor.StreamInfo, w interceptor.RTPWriter) interceptor.RTPWriter {
	return interceptor.RTPWriterFunc(func(h *rtp.Header, p []byte, a interceptor.Attributes) (int, error) {
		g.mu.Lock()
		e := &logEntry{seq: h.SequenceNumber}
		g.log[g.n] = e
		g.n++
		if old, ok := g.log[g.n-50]; ok && old.isKey { // isKey is never set anywhere
			delete(g.log, g.n-50)
		}
		g.mu.Unlock()
		return w.Write(h, p, a)
	})
}

// ---- E3: equality trigger ------------------------------------------------------------------------------------------------

type batcher struct {
	mu    sync.Mutex
	batch []uint16
	limit int
}

func flush(b []uint16) []uint16 {
	if len(b) > 0 && b[0] == 0 {
		return nil
	}
	return b
}

type GoodE3 struct {
	interceptor.NoOp
	st batcher
}

func (g *GoodE3) BindLocalStream(_ *interceptor.StreamInfo, w interceptor.RTPWriter) interceptor.RTPWriter {
	return interceptor.RTPWriterFunc(func(h *rtp.Header, p []byte, a interceptor.Attributes) (int, error) {
		g.st.mu.Lock()
		g.st.batch = append(g.st.batch, h.SequenceNumber)
		if len(g.st.batch) == g.st.limit {
			_ = flush(g.st.batch)
			g.st.batch = nil
		}
		g.st.mu.Unlock()
		return w.Write(h, p, a)
	})
}

type BadE3 struct {
	interceptor.NoOp
	st batcherBadE3
}

type batcherBadE3 struct {
	mu    sync.Mutex
	batch []uint16
	limit int
}

func (g *BadE3) BindLocalStream(_ *interceptor.StreamInfo, w interceptor.RTPWriter) interceptor.RTPWriter {
	return interceptor.RTPWriterFunc(func(h *rtp.Header, p []byte, a interceptor.Attributes) (int, error) {
		g.st.mu.Lock()
		g.st.batch = append(g.st.batch, h.SequenceNumber)
		if len(g.st.batch) == g.st.limit {
			if out := flush(g.st.batch); out != nil {
				g.st.batch = nil
			}
		}
		g.st.mu.Unlock()
		return w.Write(h, p, a)
	})
}
