package fx

import (
	"errors"

	"github.com/pion/interceptor"
	"github.com/pion/rtcp"
	"github.com/pion/rtp"
)

var errReject = errors.New("rejected")

// ---- A1 -------------------------------------------------------------------------------------------------------

type GoodA1 struct{ interceptor.NoOp }

func (g *GoodA1) BindLocalStream(info *interceptor.StreamInfo, w interceptor.RTPWriter) interceptor.RTPWriter {
	if info.SSRC == 0 {
		return w
	}
	return interceptor.RTPWriterFunc(func(h *rtp.Header, p []byte, a interceptor.Attributes) (int, error) {
		if h == nil {
			return 0, errReject
		}
		if h.SSRC != info.SSRC {
			return w.Write(h, p, a)
		}
		var errs []error
		n, err := w.Write(h, p[:], a)
		if err != nil {
			errs = append(errs, err)
		}
		return n, errors.Join(errs...)
	})
}

func (g *GoodA1) BindRTCPWriter(w interceptor.RTCPWriter) interceptor.RTCPWriter {
	return interceptor.RTCPWriterFunc(func(pkts []rtcp.Packet, a interceptor.Attributes) (int, error) {
		return w.Write(pkts, a)
	})
}

type BadA1Drop struct{ interceptor.NoOp }

func (g *BadA1Drop) BindLocalStream(_ *interceptor.StreamInfo, w interceptor.RTPWriter) interceptor.RTPWriter {
	return interceptor.RTPWriterFunc(func(h *rtp.Header, p []byte, a interceptor.Attributes) (int, error) {
		if len(h.CSRC) > 3 {
			return 0, nil
		}
		return w.Write(h, p, a)
	})
}

type BadA1ContentReject struct{ interceptor.NoOp }

func (g *BadA1ContentReject) BindLocalStream(_ *interceptor.StreamInfo, w interceptor.RTPWriter) interceptor.RTPWriter {
	return interceptor.RTPWriterFunc(func(h *rtp.Header, p []byte, a interceptor.Attributes) (int, error) {
		if len(p) > 1200 {
			return 0, errReject
		}
		return w.Write(h, p, a)
	})
}

type BadA1Swallow struct{ interceptor.NoOp }

func (g *BadA1Swallow) BindLocalStream(_ *interceptor.StreamInfo, w interceptor.RTPWriter) interceptor.RTPWriter {
	return interceptor.RTPWriterFunc(func(h *rtp.Header, p []byte, a interceptor.Attributes) (int, error) {
		n, _ := w.Write(h, p, a)
		return n, nil
	})
}

type BadA1Dup struct{ interceptor.NoOp }

func (g *BadA1Dup) BindLocalStream(_ *interceptor.StreamInfo, w interceptor.RTPWriter) interceptor.RTPWriter {
	return interceptor.RTPWriterFunc(func(h *rtp.Header, p []byte, a interceptor.Attributes) (int, error) {
		if h.Marker {
			if _, err := w.Write(h, p, a); err != nil {
				return 0, err
			}
		}
		return w.Write(h, p, a)
	})
}

type BadA1Altered struct{ interceptor.NoOp }

func (g *BadA1Altered) BindRTCPWriter(w interceptor.RTCPWriter) interceptor.RTCPWriter {
	return interceptor.RTCPWriterFunc(func(pkts []rtcp.Packet, a interceptor.Attributes) (int, error) {
		if len(pkts) > 1 {
			return w.Write(pkts[1:], a)
		}
		return w.Write(pkts, a)
	})
}

// ---- A0 -------------------------------------------------------------------------------------------------------

type GoodA0 struct{ interceptor.NoOp }

func (g *GoodA0) BindRTCPWriter(w interceptor.RTCPWriter) interceptor.RTCPWriter { return w }

type BadA0Nil struct{ interceptor.NoOp }

func (g *BadA0Nil) BindRTCPWriter(w interceptor.RTCPWriter) interceptor.RTCPWriter { return nil }

type BadA0Other struct {
	interceptor.NoOp
	other interceptor.RTCPReader
}

func (g *BadA0Other) BindRTCPReader(r interceptor.RTCPReader) interceptor.RTCPReader { return g.other }

// GoodA0Buffering is listed in the checker's table of buffering interceptors.
type GoodA0Buffering struct {
	interceptor.NoOp
	q interceptor.RTPWriter
}

func (g *GoodA0Buffering) BindLocalStream(_ *interceptor.StreamInfo, w interceptor.RTPWriter) interceptor.RTPWriter {
	return g.q
}

// ---- A2 / A4 ----------------------------------------------------------------------------------------------------

type recorder struct{ n int }

func (r *recorder) record(seq uint16) { r.n += int(seq) }

type GoodAread struct {
	interceptor.NoOp
	rec recorder
}

func (g *GoodAread) BindRemoteStream(_ *interceptor.StreamInfo, r interceptor.RTPReader) interceptor.RTPReader {
	return interceptor.RTPReaderFunc(func(b []byte, a interceptor.Attributes) (int, interceptor.Attributes, error) {
		n, attr, err := r.Read(b, a)
		if err != nil {
			return 0, nil, err
		}
		if attr == nil {
			attr = make(interceptor.Attributes)
		}
		h, err := attr.GetRTPHeader(b[:n])
		if err != nil {
			return 0, nil, err
		}
		g.rec.record(h.SequenceNumber)
		return n, attr, nil
	})
}

type BadA2RecordsFailedRead struct {
	interceptor.NoOp
	rec recorder
}

func (g *BadA2RecordsFailedRead) BindRemoteStream(_ *interceptor.StreamInfo, r interceptor.RTPReader) interceptor.RTPReader {
	return interceptor.RTPReaderFunc(func(b []byte, a interceptor.Attributes) (int, interceptor.Attributes, error) {
		n, attr, err := r.Read(b, a)
		g.rec.record(uint16(n))
		if err != nil {
			return 0, nil, err
		}
		return n, attr, nil
	})
}

type BadA2SwallowsError struct{ interceptor.NoOp }

func (g *BadA2SwallowsError) BindRTCPReader(r interceptor.RTCPReader) interceptor.RTCPReader {
	return interceptor.RTCPReaderFunc(func(b []byte, a interceptor.Attributes) (int, interceptor.Attributes, error) {
		n, attr, err := r.Read(b, a)
		if err != nil {
			return 0, nil, nil
		}
		return n, attr, nil
	})
}

type BadA2Length struct{ interceptor.NoOp }

func (g *BadA2Length) BindRTCPReader(r interceptor.RTCPReader) interceptor.RTCPReader {
	return interceptor.RTCPReaderFunc(func(b []byte, a interceptor.Attributes) (int, interceptor.Attributes, error) {
		n, attr, err := r.Read(b, a)
		if err != nil {
			return 0, nil, err
		}
		return n - 1, attr, nil
	})
}

type BadA4Unsliced struct {
	interceptor.NoOp
	rec recorder
}

func (g *BadA4Unsliced) BindRemoteStream(_ *interceptor.StreamInfo, r interceptor.RTPReader) interceptor.RTPReader {
	return interceptor.RTPReaderFunc(func(b []byte, a interceptor.Attributes) (int, interceptor.Attributes, error) {
		n, attr, err := r.Read(b, a)
		if err != nil {
			return 0, nil, err
		}
		if attr == nil {
			attr = make(interceptor.Attributes)
		}
		h, err := attr.GetRTPHeader(b)
		if err != nil {
			return 0, nil, err
		}
		g.rec.record(h.SequenceNumber)
		return n, attr, nil
	})
}

// ---- A3 -------------------------------------------------------------------------------------------------------

type GoodA3 struct{ interceptor.NoOp }

func (g *GoodA3) BindLocalStream(_ *interceptor.StreamInfo, w interceptor.RTPWriter) interceptor.RTPWriter {
	return interceptor.RTPWriterFunc(func(h *rtp.Header, p []byte, a interceptor.Attributes) (int, error) {
		c := h.Clone()
		c.Marker = false
		cp := make([]byte, len(p))
		copy(cp, p)
		cp[0] = 1
		return w.Write(h, p, a)
	})
}

type BadA3Marker struct{ interceptor.NoOp }

func (g *BadA3Marker) BindLocalStream(_ *interceptor.StreamInfo, w interceptor.RTPWriter) interceptor.RTPWriter {
	return interceptor.RTPWriterFunc(func(h *rtp.Header, p []byte, a interceptor.Attributes) (int, error) {
		h.Marker = false
		return w.Write(h, p, a)
	})
}

func scrub(b []byte) {
	if len(b) > 0 {
		b[len(b)-1] = 0
	}
}

type BadA3ViaCallee struct{ interceptor.NoOp }

func (g *BadA3ViaCallee) BindLocalStream(_ *interceptor.StreamInfo, w interceptor.RTPWriter) interceptor.RTPWriter {
	return interceptor.RTPWriterFunc(func(h *rtp.Header, p []byte, a interceptor.Attributes) (int, error) {
		scrub(p[2:])
		return w.Write(h, p, a)
	})
}

type BadA3CSRC struct{ interceptor.NoOp }

func (g *BadA3CSRC) BindLocalStream(_ *interceptor.StreamInfo, w interceptor.RTPWriter) interceptor.RTPWriter {
	return interceptor.RTPWriterFunc(func(h *rtp.Header, p []byte, a interceptor.Attributes) (int, error) {
		hc := *h
		if len(hc.CSRC) > 0 {
			hc.CSRC[0] = 0
		}
		return w.Write(h, p, a)
	})
}

// ---- A1 through a helper ----------------------------------------------------------------------------------------------

func fwdHelper(w interceptor.RTPWriter, h *rtp.Header, p []byte, a interceptor.Attributes) (int, error) {
	if h == nil {
		return 0, errReject
	}
	return w.Write(h, p, a)
}

type GoodA1Helper struct{ interceptor.NoOp }

func (g *GoodA1Helper) BindLocalStream(_ *interceptor.StreamInfo, w interceptor.RTPWriter) interceptor.RTPWriter {
	return interceptor.RTPWriterFunc(func(h *rtp.Header, p []byte, a interceptor.Attributes) (int, error) {
		return fwdHelper(w, h, p, a)
	})
}

func fwdHelperDrops(w interceptor.RTPWriter, h *rtp.Header, p []byte, a interceptor.Attributes) (int, error) {
	if len(p) == 0 {
		return 0, nil
	}
	return w.Write(h, p, a)
}

type BadA1Helper struct{ interceptor.NoOp }

func (g *BadA1Helper) BindLocalStream(_ *interceptor.StreamInfo, w interceptor.RTPWriter) interceptor.RTPWriter {
	return interceptor.RTPWriterFunc(func(h *rtp.Header, p []byte, a interceptor.Attributes) (int, error) {
		return fwdHelperDrops(w, h, p, a)
	})
}

// ---- A3: caller memory parked in a field and written elsewhere ----------------------------------------------------------

type rtcpRecord struct{ pkts []rtcp.Packet }

type BadA3Parked struct {
	interceptor.NoOp
	ch chan *rtcpRecord
}

func (g *BadA3Parked) BindRTCPWriter(w interceptor.RTCPWriter) interceptor.RTCPWriter {
	return interceptor.RTCPWriterFunc(func(pkts []rtcp.Packet, a interceptor.Attributes) (int, error) {
		select {
		case g.ch <- &rtcpRecord{pkts: pkts}:
		default:
		}
		return w.Write(pkts, a)
	})
}

// compact runs in the consumer goroutine and filters the parked slice in place.
func (g *BadA3Parked) compact(r *rtcpRecord) []rtcp.Packet {
	out := r.pkts[:0]
	for _, p := range r.pkts {
		if p != nil {
			out = append(out, p)
		}
	}
	return out
}

// ---- per-packet function given as a method value of a small object --------------------------------------------------

type GoodA2MethodObj struct {
	next interceptor.RTPReader
	rec  *recorder
}

func (r *GoodA2MethodObj) read(b []byte, a interceptor.Attributes) (int, interceptor.Attributes, error) {
	n, attr, err := r.next.Read(b, a)
	if err != nil {
		return 0, nil, err
	}
	if n > 3 {
		r.rec.record(uint16(b[2])<<8 | uint16(b[3]))
	}
	return n, attr, nil
}

type GoodA2Method struct {
	interceptor.NoOp
	rec recorder
}

func (g *GoodA2Method) BindRemoteStream(_ *interceptor.StreamInfo, r interceptor.RTPReader) interceptor.RTPReader {
	obj := &GoodA2MethodObj{next: r, rec: &g.rec}
	return interceptor.RTPReaderFunc(obj.read)
}

type BadA2MethodObj struct {
	next interceptor.RTPReader
	rec  *recorder
}

// read swallows the wrapped reader's error.
func (r *BadA2MethodObj) read(b []byte, a interceptor.Attributes) (int, interceptor.Attributes, error) {
	n, attr, err := r.next.Read(b, a)
	if err != nil {
		return 0, attr, nil
	}
	return n, attr, nil
}

type BadA2Method struct {
	interceptor.NoOp
	rec recorder
}

func (g *BadA2Method) BindRemoteStream(_ *interceptor.StreamInfo, r interceptor.RTPReader) interceptor.RTPReader {
	obj := &BadA2MethodObj{next: r, rec: &g.rec}
	return interceptor.RTPReaderFunc(obj.read)
}

type GoodA1MethodObj struct {
	next interceptor.RTPWriter
}

func (w *GoodA1MethodObj) write(h *rtp.Header, p []byte, a interceptor.Attributes) (int, error) {
	return w.next.Write(h, p, a)
}

type GoodA1Method struct{ interceptor.NoOp }

func (g *GoodA1Method) BindLocalStream(_ *interceptor.StreamInfo, w interceptor.RTPWriter) interceptor.RTPWriter {
	obj := &GoodA1MethodObj{next: w}
	return interceptor.RTPWriterFunc(obj.write)
}

type BadA1MethodObj struct {
	next interceptor.RTPWriter
}

// write drops packets with the marker bit.
func (w *BadA1MethodObj) write(h *rtp.Header, p []byte, a interceptor.Attributes) (int, error) {
	if h.Marker {
		return len(p), nil
	}
	return w.next.Write(h, p, a)
}

type BadA1Method struct{ interceptor.NoOp }

func (g *BadA1Method) BindLocalStream(_ *interceptor.StreamInfo, w interceptor.RTPWriter) interceptor.RTPWriter {
	obj := &BadA1MethodObj{next: w}
	return interceptor.RTPWriterFunc(obj.write)
}

// ---- A5 ---------------------------------------------------------------------------------------------------------------

type fxAttrs map[int]any

func (a fxAttrs) Put(k int, v any) { a[k] = v }

// GoodA5Read tests the attributes the wrapped reader returned.
func GoodA5Read(r interceptor.RTPReader, b []byte, in fxAttrs) int {
	n, _, _ := r.Read(b, nil)
	attr := in
	if attr == nil {
		attr = make(fxAttrs)
	}
	attr.Put(1, n)
	return n
}

// BadA5Read tests the wrong variable: attr may still be nil.
func BadA5Read(r interceptor.RTPReader, b []byte, in, attr fxAttrs) int {
	n, _, _ := r.Read(b, nil)
	if in == nil {
		attr = make(fxAttrs)
	}
	attr.Put(1, n)
	return n
}

// ---- A6 -------------------------------------------------------------------------------------------------------

type a6stamper struct {
	interceptor.NoOp
	scratch [2]byte
	ring    [8][2]byte
	n       uint32
}

func a6encode(seq uint16) []byte { return []byte{byte(seq >> 8), byte(seq)} }

// GoodA6Fresh attaches a payload allocated during the call (directly, through a helper, from a local array).
func (s *a6stamper) GoodA6Fresh(w interceptor.RTPWriter) interceptor.RTPWriter {
	return interceptor.RTPWriterFunc(func(h *rtp.Header, p []byte, a interceptor.Attributes) (int, error) {
		var local [2]byte
		local[0] = 1
		if err := h.SetExtension(1, local[:]); err != nil {
			return 0, err
		}
		if err := h.SetExtension(2, a6encode(7)); err != nil {
			return 0, err
		}
		tcc, err := (&rtp.TransportCCExtension{TransportSequence: 9}).Marshal()
		if err != nil {
			return 0, err
		}
		if err := h.SetExtension(3, tcc); err != nil {
			return 0, err
		}
		return w.Write(h, p, a)
	})
}

// BadA6Captured re-uses one scratch slice per stream for every packet.
func (s *a6stamper) BadA6Captured(w interceptor.RTPWriter) interceptor.RTPWriter {
	buf := make([]byte, 2)
	return interceptor.RTPWriterFunc(func(h *rtp.Header, p []byte, a interceptor.Attributes) (int, error) {
		buf[0], buf[1] = 0, 1
		if err := h.SetExtension(1, buf); err != nil {
			return 0, err
		}
		return w.Write(h, p, a)
	})
}

// BadA6Ring hands out slots of a ring in the interceptor.
func (s *a6stamper) BadA6Ring(w interceptor.RTPWriter) interceptor.RTPWriter {
	return interceptor.RTPWriterFunc(func(h *rtp.Header, p []byte, a interceptor.Attributes) (int, error) {
		s.n++
		slot := s.ring[s.n%8][:]
		slot[0] = byte(s.n)
		if err := h.SetExtension(1, slot); err != nil {
			return 0, err
		}
		return w.Write(h, p, a)
	})
}

// ---- A7 -------------------------------------------------------------------------------------------------------

type a7buf struct {
	interceptor.NoOp
	held *rtp.Packet
}

// GoodA7Marshal serialises the held packet into the caller's buffer and reports what MarshalTo wrote (or what the
// wrapped reader read).
func (g *a7buf) GoodA7Marshal(r interceptor.RTPReader) interceptor.RTPReader {
	return interceptor.RTPReaderFunc(func(b []byte, a interceptor.Attributes) (int, interceptor.Attributes, error) {
		n, attr, err := r.Read(b, a)
		if err != nil {
			return n, attr, err
		}
		if g.held == nil {
			return n, attr, nil
		}
		m, err := g.held.MarshalTo(b)
		return m, make(interceptor.Attributes), err
	})
}

// BadA7Len marshals elsewhere, copies what fits and reports the full length.
func (g *a7buf) BadA7Len(r interceptor.RTPReader) interceptor.RTPReader {
	return interceptor.RTPReaderFunc(func(b []byte, a interceptor.Attributes) (int, interceptor.Attributes, error) {
		_, attr, err := r.Read(b, a)
		if err != nil || g.held == nil {
			return 0, attr, err
		}
		raw, err := g.held.Marshal()
		if err != nil {
			return 0, attr, err
		}
		copy(b, raw)
		return len(raw), make(interceptor.Attributes), nil
	})
}

// ---- A8 -------------------------------------------------------------------------------------------------------

type a8stream struct {
	ssrc   uint32
	count  uint32
	report rtcp.SenderReport
}

func (s *a8stream) fresh() *rtcp.SenderReport {
	return &rtcp.SenderReport{SSRC: s.ssrc, PacketCount: s.count}
}

func (s *a8stream) reused() *rtcp.SenderReport {
	sr := &s.report
	sr.SSRC, sr.PacketCount = s.ssrc, s.count
	return sr
}

// GoodA8Tick writes a report allocated for this tick; BadA8Tick refills the one report object of the stream.
func GoodA8Tick(s *a8stream, w interceptor.RTCPWriter) {
	_, _ = w.Write([]rtcp.Packet{s.fresh()}, nil)
}

func BadA8Tick(s *a8stream, w interceptor.RTCPWriter) {
	_, _ = w.Write([]rtcp.Packet{s.reused()}, nil)
}

// ---- A9 -------------------------------------------------------------------------------------------------------

type a9report struct {
	n     int
	items []int
}

type a9hist struct {
	acked   []int
	scratch []int
}

func (h *a9hist) fresh() []int {
	out := make([]int, 0, len(h.acked))
	return append(out, h.acked...)
}

func (h *a9hist) reused() []int {
	res := h.scratch[:0]
	res = append(res, h.acked...)
	h.scratch = res
	return res
}

// GoodA9Publish hands the application a report allocated for this read; BadA9Publish hands it the history's refill
// buffer.
func GoodA9Publish(h *a9hist, attr interceptor.Attributes) {
	items := h.fresh()
	attr.Set(1, a9report{n: len(items), items: items})
}

func BadA9Publish(h *a9hist, attr interceptor.Attributes) {
	items := h.reused()
	attr.Set(1, a9report{n: len(items), items: items})
}
