package fx

import (
	"sync"

	"github.com/pion/interceptor"
	"github.com/pion/rtcp"
	"github.com/pion/rtp"
)

// ---- O2: file the outgoing packet before it leaves ----------------------------------------------------------------------

type o2log struct {
	mu   sync.Mutex
	sent map[uint16]bool
	hit  int
}

func (l *o2log) add(seq uint16) {
	l.mu.Lock()
	l.sent[seq] = true
	l.mu.Unlock()
}

func (l *o2log) ack(seq uint16) {
	l.mu.Lock()
	if l.sent[seq] {
		l.hit++
	}
	l.mu.Unlock()
}

type GoodO2 struct {
	interceptor.NoOp
	log *o2log
}

func (g *GoodO2) BindLocalStream(_ *interceptor.StreamInfo, w interceptor.RTPWriter) interceptor.RTPWriter {
	return interceptor.RTPWriterFunc(func(h *rtp.Header, p []byte, a interceptor.Attributes) (int, error) {
		g.log.add(h.SequenceNumber)
		return w.Write(h, p, a)
	})
}

func (g *GoodO2) BindRTCPReader(r interceptor.RTCPReader) interceptor.RTCPReader {
	return interceptor.RTCPReaderFunc(func(b []byte, a interceptor.Attributes) (int, interceptor.Attributes, error) {
		n, attr, err := r.Read(b, a)
		if err != nil {
			return 0, nil, err
		}
		pkts, err := rtcp.Unmarshal(b[:n])
		if err != nil {
			return 0, nil, err
		}
		for range pkts {
			g.log.ack(uint16(n))
		}
		return n, attr, nil
	})
}

type BadO2 struct {
	interceptor.NoOp
	log *o2log
}

func (g *BadO2) BindLocalStream(_ *interceptor.StreamInfo, w interceptor.RTPWriter) interceptor.RTPWriter {
	return interceptor.RTPWriterFunc(func(h *rtp.Header, p []byte, a interceptor.Attributes) (int, error) {
		n, err := w.Write(h, p, a)
		if err != nil {
			return n, err
		}
		g.log.add(h.SequenceNumber)
		return n, nil
	})
}

func (g *BadO2) BindRTCPReader(r interceptor.RTCPReader) interceptor.RTCPReader {
	return interceptor.RTCPReaderFunc(func(b []byte, a interceptor.Attributes) (int, interceptor.Attributes, error) {
		n, attr, err := r.Read(b, a)
		if err != nil {
			return 0, nil, err
		}
		g.log.ack(uint16(n))
		return n, attr, nil
	})
}

// ---- O3: optional header extension ------------------------------------------------------------------------------------------

type GoodO3 struct {
	interceptor.NoOp
	seen int
}

func (g *GoodO3) BindRemoteStream(_ *interceptor.StreamInfo, r interceptor.RTPReader) interceptor.RTPReader {
	return interceptor.RTPReaderFunc(func(b []byte, a interceptor.Attributes) (int, interceptor.Attributes, error) {
		n, attr, err := r.Read(b, a)
		if err != nil {
			return 0, nil, err
		}
		if attr == nil {
			attr = make(interceptor.Attributes)
		}
		h, err := attr.GetRTPHeader(b[:n])
		if err != nil {
			return 0, nil, err
		}
		var ext rtp.TransportCCExtension
		if raw := h.GetExtension(5); raw != nil {
			if err := ext.Unmarshal(raw); err != nil {
				return 0, nil, err
			}
			g.seen++
		}
		return n, attr, nil
	})
}

type BadO3 struct {
	interceptor.NoOp
	seen int
}

func (g *BadO3) BindRemoteStream(_ *interceptor.StreamInfo, r interceptor.RTPReader) interceptor.RTPReader {
	return interceptor.RTPReaderFunc(func(b []byte, a interceptor.Attributes) (int, interceptor.Attributes, error) {
		n, attr, err := r.Read(b, a)
		if err != nil {
			return 0, nil, err
		}
		if attr == nil {
			attr = make(interceptor.Attributes)
		}
		h, err := attr.GetRTPHeader(b[:n])
		if err != nil {
			return 0, nil, err
		}
		var ext rtp.TransportCCExtension
		if err := ext.Unmarshal(h.GetExtension(5)); err != nil {
			return 0, nil, err
		}
		g.seen++
		return n, attr, nil
	})
}

// ---- O4: what a factory builds is not shared through the factory --------------------------------------------------------------

type o4state struct {
	mu   sync.Mutex
	seen map[uint16]bool
}

type o4icpt struct {
	interceptor.NoOp
	state *o4state
	name  string
}

type GoodO4Factory struct{ name string }

func (f *GoodO4Factory) NewInterceptor(_ string) (interceptor.Interceptor, error) {
	return &o4icpt{state: &o4state{seen: map[uint16]bool{}}, name: f.name}, nil
}

type BadO4Factory struct{ template o4icpt }

func (f *BadO4Factory) NewInterceptor(_ string) (interceptor.Interceptor, error) {
	in := f.template
	return &in, nil
}

// ---- E6: what the media path fills, the media path (or a clock) empties ------------------------------------------------------

type GoodE6hist struct {
	mu   sync.Mutex
	sent map[uint32]int
	next uint32
}

type GoodE6 struct {
	interceptor.NoOp
	GoodE6hist GoodE6hist
}

func (g *GoodE6) BindLocalStream(_ *interceptor.StreamInfo, w interceptor.RTPWriter) interceptor.RTPWriter {
	return interceptor.RTPWriterFunc(func(h *rtp.Header, p []byte, a interceptor.Attributes) (int, error) {
		g.GoodE6hist.mu.Lock()
		g.GoodE6hist.sent[g.GoodE6hist.next] = len(p)
		g.GoodE6hist.next++
		if g.GoodE6hist.next > 1024 {
			delete(g.GoodE6hist.sent, g.GoodE6hist.next-1025)
		}
		g.GoodE6hist.mu.Unlock()
		return w.Write(h, p, a)
	})
}

func (g *GoodE6) BindRTCPReader(r interceptor.RTCPReader) interceptor.RTCPReader {
	return interceptor.RTCPReaderFunc(func(b []byte, a interceptor.Attributes) (int, interceptor.Attributes, error) {
		n, attr, err := r.Read(b, a)
		if err != nil {
			return 0, nil, err
		}
		g.GoodE6hist.mu.Lock()
		delete(g.GoodE6hist.sent, uint32(n))
		g.GoodE6hist.mu.Unlock()
		return n, attr, nil
	})
}

type BadE6hist struct {
	mu   sync.Mutex
	sent map[uint32]int
	next uint32
}

type BadE6 struct {
	interceptor.NoOp
	BadE6hist BadE6hist
}

func (g *BadE6) BindLocalStream(_ *interceptor.StreamInfo, w interceptor.RTPWriter) interceptor.RTPWriter {
	return interceptor.RTPWriterFunc(func(h *rtp.Header, p []byte, a interceptor.Attributes) (int, error) {
		g.BadE6hist.mu.Lock()
		g.BadE6hist.sent[g.BadE6hist.next] = len(p)
		g.BadE6hist.next++
		g.BadE6hist.mu.Unlock()
		return w.Write(h, p, a)
	})
}

func (g *BadE6) BindRTCPReader(r interceptor.RTCPReader) interceptor.RTCPReader {
	return interceptor.RTCPReaderFunc(func(b []byte, a interceptor.Attributes) (int, interceptor.Attributes, error) {
		n, attr, err := r.Read(b, a)
		if err != nil {
			return 0, nil, err
		}
		g.BadE6hist.mu.Lock()
		delete(g.BadE6hist.sent, uint32(n))
		g.BadE6hist.mu.Unlock()
		return n, attr, nil
	})
}

// ---- O5: the header handed downstream belongs to the goroutine that hands it over --------------------------------------------

type o5kept struct {
	hdr     *rtp.Header
	payload []byte
}

func (k *o5kept) Header() *rtp.Header { return k.hdr }

type o5resender struct {
	interceptor.NoOp
	mu   sync.Mutex
	kept map[uint16]*o5kept
	w    interceptor.RTPWriter
}

func (g *o5resender) GoodO5resend(seq uint16) {
	g.mu.Lock()
	k := g.kept[seq]
	g.mu.Unlock()
	if k == nil {
		return
	}
	h := k.Header().Clone()
	_, _ = g.w.Write(&h, k.payload, nil)
}

func (g *o5resender) BadO5resend(seq uint16) {
	g.mu.Lock()
	k := g.kept[seq]
	g.mu.Unlock()
	if k == nil {
		return
	}
	_, _ = g.w.Write(k.Header(), k.payload, nil)
}

// BadO5shallow copies the header *value*: the copy's CSRC and extension slices are still the kept header's.
func (g *o5resender) BadO5shallow(seq uint16) {
	g.mu.Lock()
	k := g.kept[seq]
	g.mu.Unlock()
	if k == nil {
		return
	}
	h := *k.Header()
	_, _ = g.w.Write(&h, k.payload, nil)
}

func (g *o5resender) BindRTCPReader(r interceptor.RTCPReader) interceptor.RTCPReader {
	return interceptor.RTCPReaderFunc(func(b []byte, a interceptor.Attributes) (int, interceptor.Attributes, error) {
		n, attr, err := r.Read(b, a)
		if err != nil {
			return 0, nil, err
		}
		go g.GoodO5resend(uint16(n))
		go g.BadO5resend(uint16(n))
		go g.BadO5shallow(uint16(n))
		return n, attr, nil
	})
}

// ---- G4: a report only lists what was found ---------------------------------------------------------------------------------------

type g4ack struct {
	seq  uint16
	size int
}

type g4hist struct{ m map[uint16]g4ack }

func (h *g4hist) get(seq uint16) (g4ack, bool) {
	a, ok := h.m[seq]
	return a, ok
}

func (h *g4hist) GoodG4unpack(start, n uint16) []g4ack {
	out := make([]g4ack, 0, n)
	for i := start; i != start+n; i++ {
		if a, ok := h.get(i); ok {
			out = append(out, a)
		}
	}
	return out
}

func (h *g4hist) GoodG4all(start, n uint16) []g4ack {
	out := make([]g4ack, n)
	for i := uint16(0); i < n; i++ {
		a, _ := h.get(start + i)
		a.seq = start + i
		out[i] = a
	}
	return out
}

func (h *g4hist) BadG4unpack(start, n uint16) []g4ack {
	out := make([]g4ack, n)
	k := 0
	for i := start; i != start+n; i++ {
		if a, ok := h.get(i); ok {
			out[k] = a
		}
		k++
	}
	return out
}
