package fx

import (
	"sync"

	"github.com/pion/interceptor"
	"github.com/pion/rtcp"
	"github.com/pion/rtp"
)

// ---- O2: file the outgoing packet before it leaves ----------------------------------------------------------------------

type o2log struct {
	mu   sync.Mutex
	sent map[uint16]bool
	hit  int
}

func (l *o2log) add(seq uint16) {
	l.mu.Lock()
	l.sent[seq] = true
	l.mu.Unlock()
}

func (l *o2log) ack(seq uint16) {
	l.mu.Lock()
	if l.sent[seq] {
		l.hit++
	}
	l.mu.Unlock()
}

type GoodO2 struct {
	interceptor.NoOp
	log *o2log
}

func (g *GoodO2) BindLocalStream(_ *interceptor.StreamInfo, w interceptor.RTPWriter) interceptor.RTPWriter {
	return interceptor.RTPWriterFunc(func(h *rtp.Header, p []byte, a interceptor.Attributes) (int, error) {
		g.log.add(h.SequenceNumber)
		return w.Write(h, p, a)
	})
}

func (g *GoodO2) BindRTCPReader(r interceptor.RTCPReader) interceptor.RTCPReader {
	return interceptor.RTCPReaderFunc(func(b []byte, a interceptor.Attributes) (int, interceptor.Attributes, error) {
		n, attr, err := r.Read(b, a)
		if err != nil {
			return 0, nil, err
		}
		pkts, err := rtcp.Unmarshal(b[:n])
		if err != nil {
			return 0, nil, err
		}
		for range pkts {
			g.log.ack(uint16(n))
		}
		return n, attr, nil
	})
}

type BadO2 struct {
	interceptor.NoOp
	log *o2log
}

func (g *BadO2) BindLocalStream(_ *interceptor.StreamInfo, w interceptor.RTPWriter) interceptor.RTPWriter {
	return interceptor.RTPWriterFunc(func(h *rtp.Header, p []byte, a interceptor.Attributes) (int, error) {
		n, err := w.Write(h, p, a)
		if err != nil {
			return n, err
		}
		g.log.add(h.SequenceNumber)
		return n, nil
	})
}

func (g *BadO2) BindRTCPReader(r interceptor.RTCPReader) interceptor.RTCPReader {
	return interceptor.RTCPReaderFunc(func(b []byte, a interceptor.Attributes) (int, interceptor.Attributes, error) {
		n, attr, err := r.Read(b, a)
		if err != nil {
			return 0, nil, err
		}
		g.log.ack(uint16(n))
		return n, attr, nil
	})
}

// ---- O3: optional header extension ------------------------------------------------------------------------------------------

type GoodO3 struct {
	interceptor.NoOp
	seen int
}

func (g *GoodO3) BindRemoteStream(_ *interceptor.StreamInfo, r interceptor.RTPReader) interceptor.RTPReader {
	return interceptor.RTPReaderFunc(func(b []byte, a interceptor.Attributes) (int, interceptor.Attributes, error) {
		n, attr, err := r.Read(b, a)
		if err != nil {
			return 0, nil, err
		}
		if attr == nil {
			attr = make(interceptor.Attributes)
		}
		h, err := attr.GetRTPHeader(b[:n])
		if err != nil {
			return 0, nil, err
		}
		var ext rtp.TransportCCExtension
		if raw := h.GetExtension(5); raw != nil {
			if err := ext.Unmarshal(raw); err != nil {
				return 0, nil, err
			}
			g.seen++
		}
		return n, attr, nil
	})
}

type BadO3 struct {
	interceptor.NoOp
	seen int
}

func (g *BadO3) BindRemoteStream(_ *interceptor.StreamInfo, r interceptor.RTPReader) interceptor.RTPReader {
	return interceptor.RTPReaderFunc(func(b []byte, a interceptor.Attributes) (int, interceptor.Attributes, error) {
		n, attr, err := r.Read(b, a)
		if err != nil {
			return 0, nil, err
		}
		if attr == nil {
			attr = make(interceptor.Attributes)
		}
		h, err := attr.GetRTPHeader(b[:n])
		if err != nil {
			return 0, nil, err
		}
		var ext rtp.TransportCCExtension
		if err := ext.Unmarshal(h.GetExtension(5)); err != nil {
			return 0, nil, err
		}
		g.seen++
		return n, attr, nil
	})
}

// ---- O4: what a factory builds is not shared through the factory --------------------------------------------------------------

type o4state struct {
	mu   sync.Mutex
	seen map[uint16]bool
}

type o4icpt struct {
	interceptor.NoOp
	state *o4state
	name  string
}

type GoodO4Factory struct{ name string }

func (f *GoodO4Factory) NewInterceptor(_ string) (interceptor.Interceptor, error) {
	return &o4icpt{state: &o4state{seen: map[uint16]bool{}}, name: f.name}, nil
}

type BadO4Factory struct{ template o4icpt }

func (f *BadO4Factory) NewInterceptor(_ string) (interceptor.Interceptor, error) {
	in := f.template
	return &in, nil
}
