package fx

import (
	"encoding/binary"
	"io"
	"sync"

	"github.com/pion/interceptor"
	"github.com/pion/rtcp"
	"github.com/pion/rtp"
)

// ---- F1 -------------------------------------------------------------------------------------------------------

func GoodF1Deltas(fb *rtcp.TransportLayerCC) int64 {
	var sum int64
	idx := 0
	for _, pc := range fb.PacketChunks {
		if c, ok := pc.(*rtcp.RunLengthChunk); ok {
			for i := uint16(0); i < c.RunLength; i++ {
				if idx >= len(fb.RecvDeltas) {
					return sum
				}
				sum += fb.RecvDeltas[idx].Delta
				idx++
			}
		}
	}
	return sum
}

func BadF1Deltas(fb *rtcp.TransportLayerCC) int64 {
	var sum int64
	idx := 0
	for _, pc := range fb.PacketChunks {
		if c, ok := pc.(*rtcp.RunLengthChunk); ok {
			for i := uint16(0); i < c.RunLength; i++ {
				sum += fb.RecvDeltas[idx].Delta
				idx++
			}
		}
	}
	return sum
}

func GoodF1Last(b []byte) byte {
	if len(b) == 0 {
		return 0
	}
	return b[len(b)-1]
}

func BadF1Last(b []byte) byte { return b[len(b)-1] }

// ---- F2 -------------------------------------------------------------------------------------------------------

type pooled struct {
	pool *sync.Pool
	q    chan *[]byte
}

func newPooled() *pooled {
	return &pooled{pool: &sync.Pool{New: func() any {
		b := make([]byte, 1200)
		return &b
	}}, q: make(chan *[]byte, 8)}
}

func (p *pooled) GoodF2Guarded(payload []byte) error {
	if len(payload) > 1200 {
		return io.ErrShortBuffer
	}
	buf := p.pool.Get().(*[]byte)
	copy(*buf, payload)
	p.q <- buf
	return nil
}

func (p *pooled) GoodF2Realloc(payload []byte) error {
	buf := p.pool.Get().(*[]byte)
	if len(payload) > len(*buf) {
		b := make([]byte, len(payload))
		buf = &b
	}
	copy(*buf, payload)
	p.q <- buf
	return nil
}

func (p *pooled) GoodF2TwoTests(payload []byte, prefix bool) error {
	if len(payload) > 1200 {
		return io.ErrShortBuffer
	}
	if prefix && len(payload) > 1196 {
		return io.ErrShortBuffer
	}
	buf := p.pool.Get().(*[]byte)
	if prefix {
		copy((*buf)[4:], payload)
	} else {
		copy(*buf, payload)
	}
	p.q <- buf
	return nil
}

func (p *pooled) BadF2NoGuard(payload []byte) error {
	buf := p.pool.Get().(*[]byte)
	copy(*buf, payload)
	p.q <- buf
	return nil
}

func (p *pooled) BadF2Offset(payload []byte) error {
	if len(payload) > 1200 {
		return io.ErrShortBuffer
	}
	buf := p.pool.Get().(*[]byte)
	copy((*buf)[4:], payload)
	p.q <- buf
	return nil
}

// ---- F3 -------------------------------------------------------------------------------------------------------

type GoodF3 struct{ interceptor.NoOp }

func (g *GoodF3) BindRemoteStream(_ *interceptor.StreamInfo, r interceptor.RTPReader) interceptor.RTPReader {
	return interceptor.RTPReaderFunc(func(b []byte, a interceptor.Attributes) (int, interceptor.Attributes, error) {
		n, attr, err := r.Read(b, a)
		if err != nil {
			return 0, nil, err
		}
		if attr == nil {
			attr = make(interceptor.Attributes)
		}
		h, err := attr.GetRTPHeader(b[:n])
		if err != nil {
			return 0, nil, err
		}
		use(b[h.MarshalSize():n])
		return n, attr, nil
	})
}

func use([]byte) {}

func BadF3TwoSided(b []byte, off, end int) []byte { return b[off:end] }

func GoodF3TwoSided(b []byte, off, end int) []byte {
	if off > end || end > len(b) {
		return nil
	}
	return b[off:end]
}

// F3 (count form): a prefix cut at a count the packet claims. BadF3Count trusts the count; GoodF3Count compares it first.
func BadF3Count(fb *rtcp.TransportLayerCC, acks []uint16) []uint16 {
	return acks[:fb.PacketStatusCount]
}

func GoodF3Count(fb *rtcp.TransportLayerCC, acks []uint16) []uint16 {
	if int(fb.PacketStatusCount) > len(acks) {
		return acks
	}
	return acks[:fb.PacketStatusCount]
}

// ---- F4 -------------------------------------------------------------------------------------------------------

func GoodF4(a interceptor.Attributes, raw []byte) uint16 {
	h, err := a.GetRTPHeader(raw)
	if err != nil {
		return 0
	}
	return h.SequenceNumber
}

func BadF4IgnoresError(a interceptor.Attributes, raw []byte) uint16 {
	h, _ := a.GetRTPHeader(raw)
	return h.SequenceNumber
}

// BadF4UsesBeforeTest reads the field before the test and lets the value take effect on the failure path too.
func BadF4UsesBeforeTest(raw []byte) uint16 {
	var ext rtp.TransportCCExtension
	err := ext.Unmarshal(raw)
	seq := ext.TransportSequence
	if err != nil {
		return seq + 1
	}
	return seq
}

// GoodF4Speculative hoists the (memory-safe) field read above the test; the value only takes effect on success.
func GoodF4Speculative(raw []byte) (uint16, bool) {
	var ext rtp.TransportCCExtension
	err := ext.Unmarshal(raw)
	ok, seq := true, ext.TransportSequence
	if err != nil {
		ok, seq = false, 0
	}
	return seq, ok
}

// ---- F1: fixed-width decode -----------------------------------------------------------------------------------------

func GoodF1Decode(h *rtp.Header, id uint8) uint16 {
	ext := h.GetExtension(id)
	if len(ext) < 2 {
		return 0
	}
	return binary.BigEndian.Uint16(ext)
}

func BadF1Decode(h *rtp.Header, id uint8) uint16 {
	if ext := h.GetExtension(id); ext != nil {
		return binary.BigEndian.Uint16(ext)
	}
	return 0
}

// ---- F5 ---------------------------------------------------------------------------------------------------------------

type f5cfg struct{ size int }

func newF5cfg(n int) *f5cfg { return &f5cfg{size: n} }

// GoodF5Ratio clamps the divisor first.
func GoodF5Ratio(total, part int64) int64 {
	if part < 1 {
		part = 1
	}
	return total / part
}

// GoodF5Guard returns before dividing by zero.
func GoodF5Guard(total int, xs []int) int {
	n := len(xs)
	if n == 0 {
		return 0
	}
	return total / n
}

// BadF5Ratio tests the wrong thing: the duration may be non-zero while its millisecond count is zero.
func BadF5Ratio(total int64, micros int64) int64 {
	if micros == 0 {
		micros = 1000
	}
	return total / (micros / 1000)
}

func (c *f5cfg) GoodF5Slot(seq int) int { return seq % c.size }

// ---- F6 ---------------------------------------------------------------------------------------------------------------

type f6pkt struct {
	buf     *[1460]byte
	payload []byte
}

var f6pool [1460]byte

// GoodF6Build: the two tests partition the cases (non-nil / nil), so payload is always assigned before PutUint16.
func GoodF6Build(p []byte, rtx bool) *f6pkt {
	k := &f6pkt{buf: &f6pool}
	if p != nil {
		n := copy(k.buf[2:], p)
		k.payload = k.buf[:n+2]
	}
	if rtx {
		if p == nil {
			k.payload = k.buf[:2]
		}
		binary.BigEndian.PutUint16(k.payload, 7)
	}
	return k
}

// BadF6Build: a non-nil empty p satisfies neither test.
func BadF6Build(p []byte, rtx bool) *f6pkt {
	k := &f6pkt{buf: &f6pool}
	if len(p) > 0 {
		n := copy(k.buf[2:], p)
		k.payload = k.buf[:n+2]
	}
	if rtx {
		if p == nil {
			k.payload = k.buf[:2]
		}
		binary.BigEndian.PutUint16(k.payload, 7)
	}
	return k
}

// ---- F7 -----------------------------------------------------------------------------------------------------------------

type f7ack struct {
	seq  uint16
	size int
}

type f7dec struct {
	known   map[uint16]int
	scratch []f7ack
}

func (d *f7dec) buffer(n int) []f7ack {
	if cap(d.scratch) < n {
		d.scratch = make([]f7ack, n)
	}
	return d.scratch[:n]
}

func (d *f7dec) cleanBuffer(n int) []f7ack {
	if cap(d.scratch) < n {
		d.scratch = make([]f7ack, n)
	}
	out := d.scratch[:n]
	clear(out)
	return out
}

// GoodF7Fresh fills a per-call slice; unknown packets stay zero.
func (d *f7dec) GoodF7Fresh(start uint16, n int) []f7ack {
	res := make([]f7ack, n)
	for i := 0; i < n; i++ {
		size, ok := d.known[start+uint16(i)]
		if !ok {
			continue
		}
		res[i] = f7ack{start + uint16(i), size}
	}
	return res
}

// GoodF7Cleared re-uses scratch that the helper clears; GoodF7All assigns every position.
func (d *f7dec) GoodF7Cleared(start uint16, n int) []f7ack {
	res := d.cleanBuffer(n)
	for i := 0; i < n; i++ {
		size, ok := d.known[start+uint16(i)]
		if !ok {
			continue
		}
		res[i] = f7ack{start + uint16(i), size}
	}
	return res
}

func (d *f7dec) GoodF7All(start uint16, n int) []f7ack {
	res := d.buffer(n)
	for i := 0; i < n; i++ {
		res[i] = f7ack{start + uint16(i), d.known[start+uint16(i)]}
	}
	return res
}

// BadF7Stale re-uses scratch without clearing: positions of unknown packets keep the previous call's acknowledgement.
func (d *f7dec) BadF7Stale(start uint16, n int) []f7ack {
	res := d.buffer(n)
	for i := 0; i < n; i++ {
		size, ok := d.known[start+uint16(i)]
		if !ok {
			continue
		}
		res[i] = f7ack{start + uint16(i), size}
	}
	return res
}

// GoodF1LastBelow tests the length from below before taking the last byte; BadF1LastUpperOnly only bounds it from above.
func GoodF1LastBelow(p []byte) byte {
	if len(p) > 1460 || len(p) == 0 {
		return 0
	}
	return p[len(p)-1]
}

func BadF1LastUpperOnly(p []byte) byte {
	if len(p) > 1460 {
		return 0
	}
	return p[len(p)-1]
}

// F3 (len-relative cut): dropping the last element of a slice that may be empty.
func BadF3Pop(buf []int) []int {
	return buf[:len(buf)-1]
}

func GoodF3Pop(buf []int) []int {
	if len(buf) == 0 {
		return buf
	}
	return buf[:len(buf)-1]
}
