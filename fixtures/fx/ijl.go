package fx

import (
	"errors"
	"sync/atomic"

	"github.com/pion/interceptor"
	"github.com/pion/rtp"
)

// ---- I1 / I2 ----------------------------------------------------------------------------------------------------------

type GoodI struct {
	interceptor.NoOp
	next uint32
}

const fxTransportCCURI = "http://www.ietf.org/id/draft-holmer-rmcat-transport-wide-cc-extensions-01"

func (g *GoodI) BindLocalStream(info *interceptor.StreamInfo, w interceptor.RTPWriter) interceptor.RTPWriter {
	var id uint8
	for _, e := range info.RTPHeaderExtensions {
		if e.URI == fxTransportCCURI {
			id = uint8(e.ID)
			break
		}
	}
	if id == 0 {
		return w
	}
	return interceptor.RTPWriterFunc(func(h *rtp.Header, p []byte, a interceptor.Attributes) (int, error) {
		seq := atomic.AddUint32(&g.next, 1) - 1
		if err := h.SetExtension(id, []byte{byte(seq >> 8), byte(seq)}); err != nil {
			return 0, err
		}
		return w.Write(h, p, a)
	})
}

type BadI1LoadStore struct {
	interceptor.NoOp
	next uint32
}

func (g *BadI1LoadStore) BindLocalStream(_ *interceptor.StreamInfo, w interceptor.RTPWriter) interceptor.RTPWriter {
	return interceptor.RTPWriterFunc(func(h *rtp.Header, p []byte, a interceptor.Attributes) (int, error) {
		seq := atomic.LoadUint32(&g.next)
		atomic.StoreUint32(&g.next, seq+1)
		if err := h.SetExtension(5, []byte{byte(seq >> 8), byte(seq)}); err != nil {
			return 0, err
		}
		return w.Write(h, p, a)
	})
}

type BadI2Twice struct {
	interceptor.NoOp
	next uint32
}

func (g *BadI2Twice) BindLocalStream(_ *interceptor.StreamInfo, w interceptor.RTPWriter) interceptor.RTPWriter {
	return interceptor.RTPWriterFunc(func(h *rtp.Header, p []byte, a interceptor.Attributes) (int, error) {
		seq := atomic.AddUint32(&g.next, 1) - 1
		if h.Marker {
			seq = atomic.AddUint32(&g.next, 1) - 1
		}
		if err := h.SetExtension(5, []byte{byte(seq >> 8), byte(seq)}); err != nil {
			return 0, err
		}
		return w.Write(h, p, a)
	})
}

// ---- J1 ---------------------------------------------------------------------------------------------------------------

type GoodJ1 struct {
	init bool
	last int64
}

func (u *GoodJ1) Unwrap(i uint16) int64 {
	if !u.init {
		u.init = true
		u.last = int64(i)
		return u.last
	}
	lw := uint16(u.last)
	delta := int64(i - lw)
	if i-lw < 32768 {
		if delta < 0 {
			delta += 65536
		}
	} else if delta > 0 && u.last+delta-65536 >= 0 {
		delta -= 65536
	}
	u.last += delta
	return u.last
}

type BadJ1 struct {
	init bool
	last int64
}

func (u *BadJ1) Unwrap(i uint16) int64 {
	if !u.init {
		u.init = true
		u.last = int64(i)
		return u.last
	}
	lw := uint16(u.last)
	delta := int64(i - lw)
	if i-lw >= 32768 && delta > 0 {
		delta -= 65535 // off by one: no longer congruent
	}
	u.last += delta
	return u.last
}

// ---- L1 / L2 / L3 -----------------------------------------------------------------------------------------------------

var errNotPlaying = errors.New("not playing")
var errNotFound = errors.New("not found")

type lnode struct {
	next *lnode
	seq  uint16
}

type GoodL3list struct {
	head *lnode
	n    int
}

func (q *GoodL3list) PopAt(seq uint16) (*lnode, error) {
	for n := q.head; n != nil; n = n.next {
		if n.seq == seq {
			return n, nil
		}
	}
	return nil, errNotFound
}

func (q *GoodL3list) Clear() { q.head = nil; q.n = 0 }

type BadL3list struct {
	head *lnode
	n    int
}

func (q *BadL3list) Clear() { q.n = 0 }

type GoodLbuf struct {
	q     *GoodL3list
	state int
	head  uint16
}

func (b *GoodLbuf) Pop() (*lnode, error) {
	if b.state != 1 {
		return nil, errNotPlaying
	}
	n, err := b.q.PopAt(b.head)
	if err != nil {
		return nil, err
	}
	b.head++
	return n, nil
}

func (q *GoodL3list) Length() int { return q.n }

func (q *GoodL3list) push(n *lnode) { n.next = q.head; q.head = n; q.n++ }

// Push (good): only the first packet buffered defines where playback starts.
func (b *GoodLbuf) Push(n *lnode) {
	if b.state != 1 && b.q.Length() == 0 {
		b.head = n.seq
	}
	b.q.push(n)
}

type BadLbuf struct {
	q     *GoodL3list
	state int
	head  uint16
}

// BadL1: no state gate
func (b *BadLbuf) PopBadL1() (*lnode, error) {
	return b.q.PopAt(b.head)
}

// BadL2: the head moves before the error is known
func (b *BadLbuf) PopBadL2() (*lnode, error) {
	if b.state != 1 {
		return nil, errNotPlaying
	}
	n, err := b.q.PopAt(b.head)
	b.head++
	if err != nil {
		return nil, err
	}
	return n, nil
}

// PushBadL2: an older packet pulls the head back while the buffer is filling.
func (b *BadLbuf) PushBadL2(n *lnode) {
	if b.state != 1 {
		if behind := b.head - n.seq; b.q.Length() == 0 || behind < 8 {
			b.head = n.seq
		}
	}
	b.q.push(n)
}

// ---- J2 ---------------------------------------------------------------------------------------------------------------

type GoodJ2 struct {
	init bool
	last int64
}

func (u *GoodJ2) Unwrap(i uint16) int64 {
	if !u.init {
		u.init = true
		u.last = int64(i)
		return u.last
	}
	lw := uint16(u.last)
	delta := int64(i - lw)
	if i-lw >= 32768 && delta > 0 && u.last+delta-65536 >= 0 {
		delta -= 65536
	}
	u.last += delta
	return u.last
}

type BadJ2 struct {
	init bool
	last int64
}

// BadJ2 steps backwards without checking that the result stays non-negative.
func (u *BadJ2) Unwrap(i uint16) int64 {
	if !u.init {
		u.init = true
		u.last = int64(i)
		return u.last
	}
	lw := uint16(u.last)
	delta := int64(i - lw)
	if i-lw >= 32768 && delta > 0 {
		delta -= 65536
	}
	u.last += delta
	return u.last
}

// ---- L4 ---------------------------------------------------------------------------------------------------------------

type l4node struct {
	key        uint16
	next, prev *l4node
}

type l4list struct{ head *l4node }

// GoodL4insert handles the head separately with <=, so the walk never stops at its first node.
func (l *l4list) GoodL4insert(key uint16) {
	n := &l4node{key: key}
	if l.head == nil {
		l.head = n
		return
	}
	if key <= l.head.key {
		n.next = l.head
		l.head.prev = n
		l.head = n
		return
	}
	cur, prev := l.head, l.head
	for cur != nil {
		if key <= cur.key {
			break
		}
		prev = cur
		cur = cur.next
	}
	if cur == nil {
		prev.next = n
		n.prev = prev
		return
	}
	n.next = cur
	n.prev = prev
	prev.next = n
	cur.prev = n
}

// BadL4insert: a key equal to the head's stops the walk at once with prev == cur: n.next = cur, cur.next = n.
func (l *l4list) BadL4insert(key uint16) {
	n := &l4node{key: key}
	if l.head == nil {
		l.head = n
		return
	}
	if key < l.head.key {
		n.next = l.head
		l.head.prev = n
		l.head = n
		return
	}
	cur, prev := l.head, l.head
	for cur != nil {
		if key <= cur.key {
			break
		}
		prev = cur
		cur = cur.next
	}
	if cur == nil {
		prev.next = n
		n.prev = prev
		return
	}
	n.next = cur
	n.prev = prev
	prev.next = n
	cur.prev = n
}

// BadI3Range passes a negotiated stream through unwrapped when its id is the last valid one (>= for >).
type BadI3Range struct {
	interceptor.NoOp
	next uint32
}

func (g *BadI3Range) BindLocalStream(info *interceptor.StreamInfo, w interceptor.RTPWriter) interceptor.RTPWriter {
	var id uint8
	for _, e := range info.RTPHeaderExtensions {
		if e.URI == fxTransportCCURI {
			id = uint8(e.ID)
			break
		}
	}
	if id == 0 || id >= 14 {
		return w
	}
	return interceptor.RTPWriterFunc(func(h *rtp.Header, p []byte, a interceptor.Attributes) (int, error) {
		seq := atomic.AddUint32(&g.next, 1) - 1
		if err := h.SetExtension(id, []byte{byte(seq >> 8), byte(seq)}); err != nil {
			return 0, err
		}
		return w.Write(h, p, a)
	})
}

// ---- L5 ---------------------------------------------------------------------------------------------------------------

// GoodL5remove compares the head first; the scan then starts at the head with a trailing pointer that is not used in
// the first iteration (the head cannot match again), and is the predecessor from then on.
func (l *l4list) GoodL5remove(key uint16) bool {
	if l.head == nil {
		return false
	}
	if l.head.key == key {
		l.head = l.head.next
		return true
	}
	cur := l.head
	prev := l.head.prev
	for cur != nil {
		if cur.key == key {
			prev.next = cur.next
			return true
		}
		prev = cur
		cur = cur.next
	}
	return false
}

// GoodL5removeFrom starts behind the head with the head as the trailing pointer.
func (l *l4list) GoodL5removeFrom(key uint16) bool {
	if l.head == nil {
		return false
	}
	prev := l.head
	cur := l.head.next
	for cur != nil {
		if cur.key == key {
			prev.next = cur.next
			return true
		}
		prev = cur
		cur = cur.next
	}
	return false
}

// BadL5remove resumes the scan at the second node but keeps the old seed of the trailing pointer.
func (l *l4list) BadL5remove(key uint16) bool {
	if l.head == nil {
		return false
	}
	if l.head.key == key {
		l.head = l.head.next
		return true
	}
	cur := l.head.next
	prev := l.head.prev
	for cur != nil {
		if cur.key == key {
			prev.next = cur.next
			return true
		}
		prev = cur
		cur = cur.next
	}
	return false
}

// BadI4Late advances the counter before it knows whether the stream negotiated the extension.
type BadI4Late struct {
	interceptor.NoOp
	next uint32
}

func (g *BadI4Late) BindLocalStream(info *interceptor.StreamInfo, w interceptor.RTPWriter) interceptor.RTPWriter {
	var id uint8
	for _, e := range info.RTPHeaderExtensions {
		if e.URI == fxTransportCCURI {
			id = uint8(e.ID)
			break
		}
	}
	return interceptor.RTPWriterFunc(func(h *rtp.Header, p []byte, a interceptor.Attributes) (int, error) {
		seq := atomic.AddUint32(&g.next, 1) - 1
		if id == 0 {
			return w.Write(h, p, a)
		}
		if err := h.SetExtension(id, []byte{byte(seq >> 8), byte(seq)}); err != nil {
			return 0, err
		}
		return w.Write(h, p, a)
	})
}
