package fx

import (
	"container/list"
	"sync"

	"github.com/pion/interceptor"
	"github.com/pion/rtp"
)

// ---- B: retention of caller memory ---------------------------------------------------------------------------------

type stored struct {
	hdr rtp.Header
	pay []byte
}

type GoodB struct {
	interceptor.NoOp
	mu   sync.Mutex
	keep []stored
	ch   chan *stored
}

func NewGoodB() *GoodB { return &GoodB{ch: make(chan *stored, 4)} }

func (g *GoodB) BindLocalStream(_ *interceptor.StreamInfo, w interceptor.RTPWriter) interceptor.RTPWriter {
	return interceptor.RTPWriterFunc(func(h *rtp.Header, p []byte, a interceptor.Attributes) (int, error) {
		cp := make([]byte, len(p))
		copy(cp, p)
		s := stored{hdr: h.Clone(), pay: cp}
		g.mu.Lock()
		g.keep = append(g.keep, s)
		if len(g.keep) > 8 {
			g.keep = g.keep[1:]
		}
		g.mu.Unlock()
		s2 := &stored{hdr: h.Clone(), pay: append([]byte(nil), p...)}
		select {
		case g.ch <- s2:
		default:
		}
		return w.Write(h, p, a)
	})
}

type BadBShallow struct {
	interceptor.NoOp
	mu   sync.Mutex
	keep []stored
}

func (g *BadBShallow) BindLocalStream(_ *interceptor.StreamInfo, w interceptor.RTPWriter) interceptor.RTPWriter {
	return interceptor.RTPWriterFunc(func(h *rtp.Header, p []byte, a interceptor.Attributes) (int, error) {
		g.mu.Lock()
		g.keep = append(g.keep, stored{hdr: *h, pay: p})
		g.mu.Unlock()
		return w.Write(h, p, a)
	})
}

type BadBChannel struct {
	interceptor.NoOp
	ch chan []byte
}

func (g *BadBChannel) BindRemoteStream(_ *interceptor.StreamInfo, r interceptor.RTPReader) interceptor.RTPReader {
	return interceptor.RTPReaderFunc(func(b []byte, a interceptor.Attributes) (int, interceptor.Attributes, error) {
		n, attr, err := r.Read(b, a)
		if err != nil {
			return 0, nil, err
		}
		select {
		case g.ch <- b[:n]:
		default:
		}
		return n, attr, nil
	})
}

type BadBViaCallee struct {
	interceptor.NoOp
	q *list.List
}

func (g *BadBViaCallee) enqueue(h *rtp.Header, p []byte) {
	g.q.PushBack(&stored{hdr: h.Clone(), pay: p[2:]})
}

func (g *BadBViaCallee) BindLocalStream(_ *interceptor.StreamInfo, w interceptor.RTPWriter) interceptor.RTPWriter {
	return interceptor.RTPWriterFunc(func(h *rtp.Header, p []byte, a interceptor.Attributes) (int, error) {
		g.enqueue(h, p)
		return w.Write(h, p, a)
	})
}

type BadBGoroutine struct{ interceptor.NoOp }

func (g *BadBGoroutine) BindLocalStream(_ *interceptor.StreamInfo, w interceptor.RTPWriter) interceptor.RTPWriter {
	return interceptor.RTPWriterFunc(func(h *rtp.Header, p []byte, a interceptor.Attributes) (int, error) {
		go func() { _ = len(h.CSRC) + len(p) }()
		return w.Write(h, p, a)
	})
}

// GoodBOptOut.keep is listed as a documented opt-out in the checker's table.
type GoodBOptOut struct {
	interceptor.NoOp
	last []byte
}

func (g *GoodBOptOut) keep(p []byte) { g.last = p }

func (g *GoodBOptOut) BindLocalStream(_ *interceptor.StreamInfo, w interceptor.RTPWriter) interceptor.RTPWriter {
	return interceptor.RTPWriterFunc(func(h *rtp.Header, p []byte, a interceptor.Attributes) (int, error) {
		g.keep(p)
		return w.Write(h, p, a)
	})
}

// the stored copies are read later (a dump, a retransmission): what makes keeping them matter
func (s *stored) size() int { return len(s.pay) + len(s.hdr.CSRC) }
