// Package fx holds deliberately wrong constructs (Bad*) next to correct twins (Good*), one pair per rule of the
// checker. Each rule must fire on the Bad one and stay silent on the Good one on every run (DESIGN.md §2.5).
// Nothing here is ever executed.
package fx

import "github.com/pion/interceptor"

var _ interceptor.Interceptor = (*interceptor.NoOp)(nil)
