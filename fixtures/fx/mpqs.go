package fx

import (
	"container/list"
	"sync"
	"time"

	"github.com/pion/interceptor"
	"github.com/pion/rtcp"
	"github.com/pion/rtp"
)

// ---- M1 -----------------------------------------------------------------------------------------------------------------

type covTable struct{ masks []uint64 }

func (c *covTable) Covered(i uint32) []int { return []int{int(c.masks[i] & 1)} }
func (c *covTable) Mask(i uint32) uint64   { return c.masks[i] }

type GoodM1enc struct {
	cov *covTable
	sn  uint16
}

func (e *GoodM1enc) build(i uint32) ([]byte, bool) {
	cov := e.cov.Covered(i)
	m := e.cov.Mask(i)
	if len(cov) == 0 {
		return nil, false
	}
	out := []byte{byte(m), byte(e.sn)}
	e.sn++
	return out, true
}

type BadM1enc struct {
	cov *covTable
	sn  uint16
}

func (e *BadM1enc) build(i uint32) ([]byte, bool) {
	cov := e.cov.Covered(i)
	m := e.cov.Mask(i + 1) // mask of another repair packet
	if len(cov) == 0 {
		e.sn++ // advanced although nothing is produced
		return nil, false
	}
	out := []byte{byte(m), byte(e.sn)}
	e.sn++
	return out, true
}

// ---- P1 -----------------------------------------------------------------------------------------------------------------

type p1Stream struct {
	mu      sync.Mutex
	packets uint32
	octets  uint32
}

func (s *p1Stream) GoodP1count(payload []byte) {
	s.mu.Lock()
	defer s.mu.Unlock()
	s.packets++
	s.octets += uint32(len(payload))
}

type GoodP1 struct {
	interceptor.NoOp
	st *p1Stream
}

func (g *GoodP1) BindLocalStream(_ *interceptor.StreamInfo, w interceptor.RTPWriter) interceptor.RTPWriter {
	return interceptor.RTPWriterFunc(func(h *rtp.Header, p []byte, a interceptor.Attributes) (int, error) {
		g.st.GoodP1count(p)
		return w.Write(h, p, a)
	})
}

type p1StreamBadP1 struct {
	mu      sync.Mutex
	packets uint32
	octets  uint32
}

func (s *p1StreamBadP1) count(payload []byte) {
	s.mu.Lock()
	defer s.mu.Unlock()
	if len(payload) > 0 {
		s.packets++ // empty packets are not counted
	}
	s.octets += uint32(len(payload))
}

type BadP1 struct {
	interceptor.NoOp
	st *p1StreamBadP1
}

func (g *BadP1) BindLocalStream(_ *interceptor.StreamInfo, w interceptor.RTPWriter) interceptor.RTPWriter {
	return interceptor.RTPWriterFunc(func(h *rtp.Header, p []byte, a interceptor.Attributes) (int, error) {
		g.st.count(p)
		return w.Write(h, p, a)
	})
}

// ---- P2 -----------------------------------------------------------------------------------------------------------------

type GoodP2 struct{ interceptor.NoOp }

func (g *GoodP2) BindLocalStream(_ *interceptor.StreamInfo, w interceptor.RTPWriter) interceptor.RTPWriter {
	return interceptor.RTPWriterFunc(func(h *rtp.Header, p []byte, a interceptor.Attributes) (int, error) {
		n, err := w.Write(h, p, a)
		if err != nil {
			return n, err
		}
		extra := rtp.Header{SequenceNumber: 7}
		if _, err := w.Write(&extra, []byte{1}, a); err != nil {
			return n, err
		}
		return n, nil
	})
}

type BadP2 struct{ interceptor.NoOp }

func (g *BadP2) BindLocalStream(_ *interceptor.StreamInfo, w interceptor.RTPWriter) interceptor.RTPWriter {
	return interceptor.RTPWriterFunc(func(h *rtp.Header, p []byte, a interceptor.Attributes) (int, error) {
		extra := rtp.Header{SequenceNumber: h.SequenceNumber + 1}
		if _, err := w.Write(&extra, []byte{1}, a); err != nil {
			return 0, err
		}
		return w.Write(h, p, a)
	})
}

// ---- Q1 / Q2 ------------------------------------------------------------------------------------------------------------

type qItem struct {
	h *rtp.Header
	p []byte
}

type GoodQ struct {
	mu   sync.Mutex
	q    *list.List
	w    map[uint32]interceptor.RTPWriter
	done chan struct{}
	tick chan struct{}
}

func NewGoodQ() *GoodQ {
	g := &GoodQ{q: list.New(), w: map[uint32]interceptor.RTPWriter{}, done: make(chan struct{}), tick: make(chan struct{})}
	go g.run()
	return g
}

func (g *GoodQ) Write(h *rtp.Header, p []byte, _ interceptor.Attributes) (int, error) {
	hc := h.Clone()
	pc := append([]byte(nil), p...)
	g.mu.Lock()
	g.q.PushBack(&qItem{&hc, pc})
	g.mu.Unlock()
	return len(p), nil
}

func (g *GoodQ) run() {
	for {
		select {
		case <-g.done:
			return
		case <-g.tick:
			g.mu.Lock()
			for g.q.Len() != 0 {
				it, _ := g.q.Remove(g.q.Front()).(*qItem)
				w, ok := g.w[it.h.SSRC]
				if !ok {
					continue
				}
				_, _ = w.Write(it.h, it.p, nil)
			}
			g.mu.Unlock()
		}
	}
}

type BadQ struct {
	mu   sync.Mutex
	q    *list.List
	w    map[uint32]interceptor.RTPWriter
	done chan struct{}
	tick chan struct{}
}

// BadQ.Write reports success for an empty payload without enqueuing it, and puts marker packets at the front.
func (g *BadQ) Write(h *rtp.Header, p []byte, _ interceptor.Attributes) (int, error) {
	if len(p) == 0 {
		return 0, nil
	}
	if h.Padding {
		if w, ok := g.w[h.SSRC]; ok {
			return w.Write(h, p, nil) // bypasses the queue: overtakes queued packets
		}
	}
	hc := h.Clone()
	pc := append([]byte(nil), p...)
	g.mu.Lock()
	if h.Marker {
		g.q.PushFront(&qItem{&hc, pc})
	} else {
		g.q.PushBack(&qItem{&hc, pc})
	}
	g.mu.Unlock()
	return len(p), nil
}

// Start (bad): a method that can run again starts another consumer on the same queue.
func (g *BadQ) Start() { go g.run() }

func (g *BadQ) run() {
	for {
		select {
		case <-g.done:
			return
		case <-g.tick:
			g.mu.Lock()
			for g.q.Len() != 0 {
				it, _ := g.q.Remove(g.q.Front()).(*qItem)
				w, ok := g.w[it.h.SSRC]
				if !ok {
					continue
				}
				_, _ = w.Write(it.h, it.p, nil)
				if it.h.Marker {
					_, _ = w.Write(it.h, it.p, nil) // sent twice
				}
			}
			g.mu.Unlock()
		}
	}
}

// ---- Q3 -----------------------------------------------------------------------------------------------------------------

type fxLimiter interface {
	Budget() float64
	AllowN(n int) bool
}

type GoodQ3 struct {
	limit fxLimiter
	w     interceptor.RTPWriter
	in    chan qItem
	done  chan struct{}
}

func (g *GoodQ3) loop() {
	var queue []qItem
	for {
		select {
		case <-g.done:
			return
		case it := <-g.in:
			queue = append(queue, it)
			for len(queue) > 0 && g.limit.Budget() > float64(8*len(queue[0].p)) {
				g.limit.AllowN(8 * len(queue[0].p))
				next := queue[0]
				queue = queue[1:]
				_, _ = g.w.Write(next.h, next.p, nil)
			}
		}
	}
}

type BadQ3 struct {
	limit fxLimiter
	w     interceptor.RTPWriter
	in    chan qItem
	done  chan struct{}
}

func (g *BadQ3) loop() {
	var queue []qItem
	for {
		select {
		case <-g.done:
			return
		case it := <-g.in:
			queue = append(queue, it)
			for len(queue) > 0 && g.limit.Budget() > float64(8*len(queue[0].p)) {
				next := queue[0]
				queue = queue[1:]
				_, _ = g.w.Write(next.h, next.p, nil) // never charged
			}
		}
	}
}

// ---- S1 / S2 ------------------------------------------------------------------------------------------------------------

type fxStreamStats struct{ Packets, Nacks, Bytes uint64 }

type sStats struct {
	fxStreamStats
	internal  int
	sentRefs  []uint32
	sentLog   []s9sent
	NackCount uint32
	RTT       time.Duration
	Lost      int64
	Jitter    float64
	Fraction  float64
}

type s9sent struct {
	ref uint32
	at  time.Time
	out time.Time
}

type sPkt interface{ SSRCs() []uint32 }

type sNack struct{ media uint32 }

func (n *sNack) SSRCs() []uint32 { return []uint32{n.media} }

type sXR struct{ media uint32 }

func (n *sXR) SSRCs() []uint32 { return []uint32{n.media} }

type sRec struct{ ssrc uint32 }

func (r *sRec) recordGoodS(st sStats, ssrc uint32, pkts []sPkt) sStats {
	if ssrc != r.ssrc {
		return st
	}
	st.Packets++
	for _, p := range pkts {
		switch x := p.(type) {
		case *sNack:
			if x.media == r.ssrc {
				st.Nacks++
			}
		case *sXR:
			st.internal++
		}
	}
	return st
}

func (r *sRec) recordBadS1(st sStats, ssrc uint32) sStats {
	st.Packets++ // any stream's packet is counted
	return st
}

func (r *sRec) recordBadS2(st sStats, pkts []sPkt) sStats {
	for _, p := range pkts {
		switch x := p.(type) {
		case *sNack:
			if x.media == r.ssrc {
				st.Nacks++
			}
		case *sXR:
			return st // the rest of the compound is skipped
		}
	}
	return st
}

// ---- S3 -----------------------------------------------------------------------------------------------------------------

func (r *sRec) recordGoodS3(st sStats, pkts []sPkt) sStats {
	for _, p := range pkts {
		mine := false
		for _, s := range p.SSRCs() {
			if s == r.ssrc {
				mine = true
			}
		}
		if x, ok := p.(*sNack); ok && mine && x.media == r.ssrc {
			st.Nacks++
		}
	}
	return st
}

// recordBadS3 decides once whether to skip and lets packets without destination inherit the previous decision.
func (r *sRec) recordBadS3(st sStats, pkts []sPkt) sStats {
	var skip bool
	for _, p := range pkts {
		if _, isXR := p.(*sXR); !isXR {
			skip = true
			for _, s := range p.SSRCs() {
				if s == r.ssrc {
					skip = false
				}
			}
		}
		if skip {
			continue
		}
		if x, ok := p.(*sNack); ok && x.media == r.ssrc {
			st.Nacks++
		} else {
			st.internal++
		}
	}
	return st
}

// ---- S4 -----------------------------------------------------------------------------------------------------------------

func (r *sRec) recordGoodS4(st sStats, ssrc uint32, n int, late bool) sStats {
	if ssrc != r.ssrc {
		return st
	}
	st.Packets++
	if late {
		st.internal++
	}
	st.Bytes += uint64(n)
	return st
}

// recordBadS4 counts a late packet but not its bytes.
func (r *sRec) recordBadS4(st sStats, ssrc uint32, n int, late bool) sStats {
	if ssrc != r.ssrc {
		return st
	}
	st.Packets++
	if late {
		return st
	}
	st.Bytes += uint64(n)
	return st
}

// ---- S5 -----------------------------------------------------------------------------------------------------------------

type sFanRec interface {
	Queue(pkts []rtcp.Packet)
}

type GoodS5fan struct {
	interceptor.NoOp
	mu   sync.Mutex
	recs map[uint32]sFanRec
}

// every recorder sees every batch.
func (f *GoodS5fan) BindRTCPWriter(w interceptor.RTCPWriter) interceptor.RTCPWriter {
	return interceptor.RTCPWriterFunc(func(pkts []rtcp.Packet, a interceptor.Attributes) (int, error) {
		f.mu.Lock()
		for _, r := range f.recs {
			r.Queue(pkts)
		}
		f.mu.Unlock()
		return w.Write(pkts, a)
	})
}

type BadS5fan struct {
	interceptor.NoOp
	mu   sync.Mutex
	recs map[uint32]sFanRec
}

// only recorders whose SSRC is named by the first packet see the batch.
func (f *BadS5fan) BindRTCPReader(rd interceptor.RTCPReader) interceptor.RTCPReader {
	return interceptor.RTCPReaderFunc(func(b []byte, a interceptor.Attributes) (int, interceptor.Attributes, error) {
		n, attr, err := rd.Read(b, a)
		if err != nil {
			return 0, nil, err
		}
		pkts, perr := rtcp.Unmarshal(b[:n])
		if perr != nil || len(pkts) == 0 {
			return n, attr, nil
		}
		f.mu.Lock()
		for ssrc, r := range f.recs {
			named := false
			for _, d := range pkts[0].DestinationSSRC() {
				if d == ssrc {
					named = true
				}
			}
			if !named {
				continue
			}
			r.Queue(pkts)
		}
		f.mu.Unlock()
		return n, attr, nil
	})
}

// ---- P3 -----------------------------------------------------------------------------------------------------------------

type p3Mark struct {
	started  bool
	GoodP3hi uint16
	BadP3hi  uint16
}

func (m *p3Mark) observe(seq uint16) {
	if !m.started {
		m.started = true
		m.GoodP3hi = seq
		m.BadP3hi = seq
		return
	}
	if d := seq - m.GoodP3hi; d > 0 && d < 1<<15 {
		m.GoodP3hi = seq
	}
	m.BadP3hi = seq // every packet, in order or not
}

// ---- S6 ---------------------------------------------------------------------------------------------------------------

type sReport struct {
	ssrc     uint32
	lost     uint32
	jitter   uint32
	fraction uint8
	lsr      uint32
}

// recordGoodS6 copies the three figures of a matching report together; the round-trip figure (which needs more than
// the report) is conditional.
func (r *sRec) recordGoodS6(st sStats, reports []sReport, history []uint32) sStats {
	for _, rep := range reports {
		if rep.ssrc != r.ssrc {
			continue
		}
		st.Lost = int64(rep.lost)
		st.Jitter = float64(rep.jitter) / 90000
		for _, h := range history {
			if h == rep.lsr {
				st.internal++
				break
			}
		}
		st.Fraction = float64(rep.fraction) / 256
	}
	return st
}

// recordBadS6 skips the rest of the iteration when no round-trip sample can be taken — and with it the fraction.
func (r *sRec) recordBadS6(st sStats, reports []sReport, history []uint32) sStats {
	for _, rep := range reports {
		if rep.ssrc != r.ssrc {
			continue
		}
		st.Lost = int64(rep.lost)
		st.Jitter = float64(rep.jitter) / 90000
		found := false
		for _, h := range history {
			if h == rep.lsr {
				found = true
			}
		}
		if !found {
			continue
		}
		st.internal++
		st.Fraction = float64(rep.fraction) / 256
	}
	return st
}
