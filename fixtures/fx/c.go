package fx

import (
	"sync"
	"sync/atomic"

	"github.com/pion/interceptor"
	"github.com/pion/rtp"
)

// ---- C1 -------------------------------------------------------------------------------------------------------

type innerT struct{ x int }

func (i *innerT) bump()     { i.x++ }
func (i *innerT) peek() int { return i.x }

type guarded struct {
	mu    sync.Mutex
	n     int
	m     map[uint32]int
	inner *innerT
}

func newGuarded() *guarded {
	g := &guarded{m: map[uint32]int{}, inner: &innerT{}}
	g.n = 1 // construction: not shared yet
	return g
}

func (g *guarded) GoodC1Inc() {
	g.mu.Lock()
	defer g.mu.Unlock()
	g.n++
	g.m[1] = g.n
	g.inner.bump()
	g.helperLocked()
}

// helperLocked is only called with mu held (entry lockset from its call sites)
func (g *guarded) helperLocked() { g.n += 2 }

func (g *guarded) GoodC1Steal() int {
	g.mu.Lock()
	old := g.m
	g.m = map[uint32]int{}
	g.mu.Unlock()
	s := 0
	for _, v := range old {
		s += v
	}
	return s
}

func (g *guarded) BadC1Unlocked() { g.n++ }

func (g *guarded) BadC1MapAfterUnlock(k uint32) {
	g.mu.Lock()
	m := g.m
	g.mu.Unlock()
	m[k] = 1
}

func (g *guarded) BadC1DeepAfterUnlock() {
	g.mu.Lock()
	in := g.inner
	g.mu.Unlock()
	in.bump()
}

type rwGuarded struct {
	mu    sync.RWMutex
	v     int
	items map[int]*innerT
}

func (r *rwGuarded) GoodC1Read() int {
	r.mu.RLock()
	defer r.mu.RUnlock()
	return r.v + len(r.items)
}

func (r *rwGuarded) GoodC1Write(k int) {
	r.mu.Lock()
	defer r.mu.Unlock()
	r.v++
	r.items[k] = &innerT{}
}

func (r *rwGuarded) BadC1WriteUnderRLock() {
	r.mu.RLock()
	defer r.mu.RUnlock()
	r.v++
}

func (r *rwGuarded) BadC1ViaHelper() {
	r.mu.RLock()
	defer r.mu.RUnlock()
	r.setLocked(3)
}

func (r *rwGuarded) setLocked(v int) { r.v = v }

// ---- C2 -------------------------------------------------------------------------------------------------------

type GoodC2confined struct{ count int }

func (c *GoodC2confined) add() { c.count++ }

type GoodC2owner struct {
	interceptor.NoOp
	m     sync.Mutex
	c     *GoodC2confined
	ch    chan int
	close chan struct{}
	wg    sync.WaitGroup
}

func (o *GoodC2owner) isClosed() bool {
	select {
	case <-o.close:
		return true
	default:
		return false
	}
}

func (o *GoodC2owner) BindRTCPWriter(w interceptor.RTCPWriter) interceptor.RTCPWriter {
	o.m.Lock()
	defer o.m.Unlock()
	if o.isClosed() {
		return w
	}
	o.wg.Add(1)
	go o.loop()
	return w
}

func (o *GoodC2owner) loop() {
	defer o.wg.Done()
	for {
		select {
		case <-o.close:
			return
		case <-o.ch:
			o.c.add()
		}
	}
}

func (o *GoodC2owner) Close() error {
	defer o.wg.Wait()
	o.m.Lock()
	defer o.m.Unlock()
	if !o.isClosed() {
		close(o.close)
	}
	return nil
}

type BadC2confined struct{ count int }

func (c *BadC2confined) add() { c.count++ }

type BadC2owner struct {
	interceptor.NoOp
	c  *BadC2confined
	ch chan int
	wg sync.WaitGroup
}

func (o *BadC2owner) BindRTCPWriter(w interceptor.RTCPWriter) interceptor.RTCPWriter {
	o.wg.Add(1)
	go o.loop()
	return w
}

func (o *BadC2owner) loop() {
	defer o.wg.Done()
	for range o.ch {
		o.c.add()
	}
}

// UnbindRemoteStream reaches the confined object from the public API, outside the owner goroutine.
func (o *BadC2owner) UnbindRemoteStream(*interceptor.StreamInfo) { o.c.add() }

// ---- C3 -------------------------------------------------------------------------------------------------------

type GoodC3 struct{ seq uint32 }

func (g *GoodC3) Next() uint32 { return atomic.AddUint32(&g.seq, 1) - 1 }

type BadC3 struct{ seq uint32 }

func (g *BadC3) Next() uint32 { return atomic.AddUint32(&g.seq, 1) - 1 }
func (g *BadC3) Reset()       { g.seq = 0 }

// ---- C4 -------------------------------------------------------------------------------------------------------

type GoodC4 struct {
	mu   sync.Mutex
	size int
}

func NewGoodC4(size int) *GoodC4 { return &GoodC4{size: size} }
func (g *GoodC4) Size() int      { return g.size }

type BadC4 struct {
	mu   sync.Mutex
	size int
}

func (g *BadC4) Resize(n int) { g.size = n }

// ---- C5 -------------------------------------------------------------------------------------------------------

type GoodC5 struct {
	a, b sync.Mutex
}

func (g *GoodC5) AB() {
	g.a.Lock()
	g.b.Lock()
	g.b.Unlock()
	g.a.Unlock()
}

type BadC5Order struct {
	a, b sync.Mutex
}

func (g *BadC5Order) AB() {
	g.a.Lock()
	g.b.Lock()
	g.b.Unlock()
	g.a.Unlock()
}

func (g *BadC5Order) BA() {
	g.b.Lock()
	g.a.Lock()
	g.a.Unlock()
	g.b.Unlock()
}

type BadC5Reacquire struct {
	mu sync.Mutex
	n  int
}

func (g *BadC5Reacquire) Get() int {
	g.mu.Lock()
	defer g.mu.Unlock()
	return g.n
}

func (g *BadC5Reacquire) Double() int {
	g.mu.Lock()
	defer g.mu.Unlock()
	return 2 * g.Get()
}

type BadC5Wait struct {
	mu sync.Mutex
	wg sync.WaitGroup
	n  int
}

func (g *BadC5Wait) Start() {
	g.wg.Add(1)
	go g.work()
}

func (g *BadC5Wait) work() {
	defer g.wg.Done()
	g.mu.Lock()
	g.n++
	g.mu.Unlock()
}

func (g *BadC5Wait) Close() {
	g.mu.Lock()
	defer g.mu.Unlock()
	g.wg.Wait()
}

// ---- C6 -------------------------------------------------------------------------------------------------------

type rmwStats struct{ sent, lost int }

type rmw struct {
	mu    sync.Mutex
	total int
	stats *rmwStats
}

func bump(s rmwStats, n int) rmwStats { s.sent += n; return s }

func (r *rmw) GoodC6Add(n int) {
	r.mu.Lock()
	defer r.mu.Unlock()
	r.total = r.total + n
	*r.stats = bump(*r.stats, n)
}

// BadC6Split reads under the lock, computes outside it, and writes the result back under the lock again.
func (r *rmw) BadC6Split(n int) {
	r.mu.Lock()
	snapshot := *r.stats
	r.mu.Unlock()
	next := bump(snapshot, n)
	r.mu.Lock()
	*r.stats = next
	r.mu.Unlock()
}

func (r *rmw) BadC6Scalar(n int) {
	r.mu.Lock()
	t := r.total
	r.mu.Unlock()
	t += n
	r.mu.Lock()
	r.total = t
	r.mu.Unlock()
}

// ---- C7 ---------------------------------------------------------------------------------------------------------------

type c7obj struct {
	mu  sync.Mutex
	n   int
	max int
}

// GoodC7Step unlocks on both paths.
func (c *c7obj) GoodC7Step(d int) int {
	c.mu.Lock()
	if c.n >= c.max {
		cur := c.n
		c.mu.Unlock()
		return cur
	}
	c.n += d
	v := c.n
	c.mu.Unlock()
	return v
}

// BadC7Step returns early with the mutex held.
func (c *c7obj) BadC7Step(d int) int {
	c.mu.Lock()
	if c.n >= c.max {
		return c.n
	}
	c.n += d
	v := c.n
	c.mu.Unlock()
	return v
}

// ---- C6 (keyed update) -------------------------------------------------------------------------------------------------

type c6reg struct {
	mu     sync.Mutex
	logs   map[uint32]*c7obj
	counts map[uint32]int
}

// GoodC6Keyed updates the per-stream counts while it still holds the lock it ranged the registry under.
func (r *c6reg) GoodC6Keyed() {
	r.mu.Lock()
	for ssrc := range r.logs {
		r.counts[ssrc]++
	}
	r.mu.Unlock()
}

// BadC6Keyed ranges over a snapshot and re-locks per stream: a stream unbound in between gets its count re-created.
func (r *c6reg) BadC6Keyed() {
	r.mu.Lock()
	snap := make(map[uint32]*c7obj, len(r.logs))
	for k, v := range r.logs {
		snap[k] = v
	}
	r.mu.Unlock()
	for ssrc := range snap {
		r.mu.Lock()
		r.counts[ssrc]++
		r.mu.Unlock()
	}
}

// lock wrappers: the whole body is one mutex operation

func (c *c7obj) lock()   { c.mu.Lock() }
func (c *c7obj) unlock() { c.mu.Unlock() }

// GoodC7Wrapped uses the wrappers; the pair is balanced and the guarded field is accessed under the lock.
func (c *c7obj) GoodC7Wrapped(d int) int {
	c.lock()
	c.n += d
	v := c.n
	c.unlock()
	return v
}

// GoodC7Cond locks and unlocks under the same condition.
func (c *c7obj) GoodC7Cond(shared bool, d int) int {
	if shared {
		c.mu.Lock()
	}
	c.max = d
	if shared {
		c.mu.Unlock()
	}
	return d
}

type c7queue struct {
	mu    sync.Mutex
	items []int
	sink  func(int) bool
}

// GoodC7Drain drops the lock around every hand-off and re-takes it on every path back to the loop head.
func (q *c7queue) GoodC7Drain() {
	q.mu.Lock()
	for len(q.items) > 0 {
		it := q.items[0]
		q.items = q.items[1:]
		q.mu.Unlock()
		if it < 0 {
			q.mu.Lock()
			continue
		}
		q.sink(it)
		q.mu.Lock()
	}
	q.mu.Unlock()
}

// BadC7Drain forgets to re-take the lock on the skip path: the loop head runs unlocked and the final Unlock is fatal.
func (q *c7queue) BadC7Drain() {
	q.mu.Lock()
	for len(q.items) > 0 {
		it := q.items[0]
		q.items = q.items[1:]
		q.mu.Unlock()
		if it < 0 {
			continue
		}
		q.sink(it)
		q.mu.Lock()
	}
	q.mu.Unlock()
}

// BadC7Twice unlocks explicitly on the early path although the unlock is deferred.
func (c *c7obj) BadC7Twice(d int) int {
	c.mu.Lock()
	defer c.mu.Unlock()
	if c.n >= c.max {
		c.mu.Unlock()
		return c.n
	}
	c.n += d
	return c.n
}

// ---- C8 ---------------------------------------------------------------------------------------------------------------

type c8icpt struct {
	interceptor.NoOp
	mu sync.Mutex
}

// GoodC8Local keeps its temporaries inside the per-packet function; the per-stream counter is updated under a mutex.
func (c *c8icpt) GoodC8Local(w interceptor.RTPWriter) interceptor.RTPWriter {
	count := 0
	return interceptor.RTPWriterFunc(func(h *rtp.Header, p []byte, a interceptor.Attributes) (int, error) {
		n, err := w.Write(h, p, a)
		c.mu.Lock()
		count += n
		c.mu.Unlock()
		return n, err
	})
}

// BadC8Hoisted declares the temporaries one scope too far out: concurrent writers share them.
func (c *c8icpt) BadC8Hoisted(w interceptor.RTPWriter) interceptor.RTPWriter {
	var (
		n   int
		err error
	)
	return interceptor.RTPWriterFunc(func(h *rtp.Header, p []byte, a interceptor.Attributes) (int, error) {
		n, err = w.Write(h, p, a)
		return n, err
	})
}

// ---- C6 (look-up and removal) -------------------------------------------------------------------------------------------

func (r *c6reg) get(ssrc uint32) (*c7obj, bool) {
	r.mu.Lock()
	defer r.mu.Unlock()
	l, ok := r.logs[ssrc]
	return l, ok
}

// GoodC6Remove takes the entry out in the critical section that looked it up, then cleans it up.
func (r *c6reg) GoodC6Remove(ssrc uint32) {
	r.mu.Lock()
	l, ok := r.logs[ssrc]
	delete(r.logs, ssrc)
	r.mu.Unlock()
	if ok {
		l.GoodC7Step(0)
	}
}

// BadC6Remove looks the entry up through the locking getter, cleans it up, and removes "it" in a second critical
// section: a stream re-bound under the same key in between is removed instead.
func (r *c6reg) BadC6Remove(ssrc uint32) {
	l, ok := r.get(ssrc)
	if !ok {
		return
	}
	l.GoodC7Step(0)
	r.mu.Lock()
	delete(r.logs, ssrc)
	r.mu.Unlock()
}

// ---- C9 ---------------------------------------------------------------------------------------------------------------

// GoodC9notify publishes under the lock and tells the application outside it (asynchronously); the injected clock it
// reads under the lock is a parameterless provider, the validation hook a confirmed pair.
type GoodC9notify struct {
	mu       sync.Mutex
	value    int
	clock    func() int64
	hook     func(int) int
	onChange func(int)
}

func (g *GoodC9notify) Set(v int) {
	g.mu.Lock()
	_ = g.clock()
	v = g.hook(v)
	g.value = v
	cb := g.onChange
	g.mu.Unlock()
	if cb != nil {
		go cb(v)
	}
}

func (g *GoodC9notify) Get() int {
	g.mu.Lock()
	defer g.mu.Unlock()
	return g.value
}

// BadC9notify calls the application's callback inside the critical section: a callback that calls Get never returns.
type BadC9notify struct {
	mu       sync.Mutex
	value    int
	onChange func(int)
}

func (g *BadC9notify) Set(v int) {
	g.mu.Lock()
	defer g.mu.Unlock()
	g.value = v
	if g.onChange != nil {
		g.onChange(v)
	}
}

func (g *BadC9notify) Get() int {
	g.mu.Lock()
	defer g.mu.Unlock()
	return g.value
}
