package fx

import (
	"errors"

	"github.com/pion/interceptor"
)

// ---- K1 -------------------------------------------------------------------------------------------------------

type GoodK1Chain struct{ interceptors []interceptor.Interceptor }

func (c *GoodK1Chain) BindRTCPWriter(w interceptor.RTCPWriter) interceptor.RTCPWriter {
	for _, i := range c.interceptors {
		w = i.BindRTCPWriter(w)
	}
	return w
}

func (c *GoodK1Chain) UnbindLocalStream(info *interceptor.StreamInfo) {
	for _, i := range c.interceptors {
		i.UnbindLocalStream(info)
	}
}

func (c *GoodK1Chain) Close() error {
	var errs []error
	for _, i := range c.interceptors {
		errs = append(errs, i.Close())
	}
	return GoodK2Flatten(errs)
}

type BadK1Chain struct{ interceptors []interceptor.Interceptor }

// skips the first member
func (c *BadK1Chain) UnbindLocalStream(info *interceptor.StreamInfo) {
	for _, i := range c.interceptors[1:] {
		i.UnbindLocalStream(info)
	}
}

// stops at the first error
func (c *BadK1Chain) Close() error {
	var errs []error
	for _, i := range c.interceptors {
		err := i.Close()
		errs = append(errs, err)
		if err != nil {
			break
		}
	}
	return GoodK2Flatten(errs)
}

// does not fold
func (c *BadK1Chain) BindRTCPWriter(w interceptor.RTCPWriter) interceptor.RTCPWriter {
	for _, i := range c.interceptors {
		i.BindRTCPWriter(w)
	}
	return w
}

// delivers the wrong event
func (c *BadK1Chain) UnbindRemoteStream(info *interceptor.StreamInfo) {
	for _, i := range c.interceptors {
		i.UnbindLocalStream(info)
	}
}

// ---- K2 -------------------------------------------------------------------------------------------------------

type multiErrK2 []error

func (m multiErrK2) Error() string { return "multi" }

func (m multiErrK2) Is(target error) bool {
	for _, e := range m {
		if errors.Is(e, target) {
			return true
		}
	}
	return false
}

func GoodK2Flatten(errs []error) error {
	out := []error{}
	for _, e := range errs {
		if e != nil {
			out = append(out, e)
		}
	}
	if len(out) == 0 {
		return nil
	}
	return multiErrK2(out)
}

func BadK2FlattenFirstOnly(errs []error) error {
	out := []error{}
	for _, e := range errs {
		if e != nil {
			out = append(out, e)
			break
		}
	}
	if len(out) == 0 {
		return nil
	}
	return multiErrK2(out)
}

type GoodK2Registry struct{ factories []interceptor.Factory }

func NewChain(i []interceptor.Interceptor) *GoodK1Chain { return &GoodK1Chain{interceptors: i} }

type fxNoOp struct{ interceptor.NoOp }

func (r *GoodK2Registry) Build(id string) (interceptor.Interceptor, error) {
	if len(r.factories) == 0 {
		return &fxNoOp{}, nil
	}
	list := make([]interceptor.Interceptor, 0, len(r.factories))
	for _, f := range r.factories {
		i, err := f.NewInterceptor(id)
		if err != nil {
			return nil, err
		}
		list = append(list, i)
	}
	return interceptor.NewChain(list), nil
}

type BadK2Registry struct{ factories []interceptor.Factory }

// ignores construction errors and drops those members silently
func (r *BadK2Registry) Build(id string) (interceptor.Interceptor, error) {
	if len(r.factories) == 0 {
		return &fxNoOp{}, nil
	}
	list := make([]interceptor.Interceptor, 0, len(r.factories))
	for _, f := range r.factories {
		i, err := f.NewInterceptor(id)
		if err != nil {
			continue
		}
		list = append(list, i)
	}
	return interceptor.NewChain(list), nil
}

// ---- K3 / J3 ------------------------------------------------------------------------------------------------------

type k3Node struct{ kids []*k3Node }

// GoodK3Compact drops nil entries in place: at most one element written per element read.
func GoodK3Compact(xs []*k3Node) []*k3Node {
	out := xs[:0]
	for _, x := range xs {
		if x != nil {
			out = append(out, x)
		}
	}
	return out
}

// BadK3Flatten splices the children of each node into the slice it is still reading.
func BadK3Flatten(xs []*k3Node) []*k3Node {
	out := xs[:0]
	for _, x := range xs {
		if len(x.kids) > 0 {
			out = append(out, x.kids...)
			continue
		}
		out = append(out, x)
	}
	return out
}

func GoodJ3Wrap(base uint16, i int) uint16 { return uint16((int(base) + i) % 65536) }

func BadJ3Wrap(base uint16, i int) uint16 { return uint16((int(base) + i) % 65535) }

// ---- J4 / K4 ----------------------------------------------------------------------------------------------------------

type j4ring struct {
	size    uint16
	highest uint16
}

// GoodJ4Age reads the wrap-around distance as signed and compares the window size unsigned.
func (r *j4ring) GoodJ4Age(seq uint16) bool {
	d := r.highest - seq
	if int16(d) < 0 {
		return false
	}
	return d < r.size && int16(r.size&0x7fff) >= 0
}

// BadJ4Age compares against int16(size): a window of 32768 becomes -32768 and nothing is ever in range.
func (r *j4ring) BadJ4Age(seq uint16) bool {
	age := int16(r.highest - seq)
	return age >= 0 && age < int16(r.size)
}

type k4hist struct {
	sent     []uint64
	received []uint64
}

// GoodK4Push appends to the history it stores into (directly, through a local, and as a clone of the other one).
func (h *k4hist) GoodK4Push(ts uint64) {
	h.sent = append(h.sent, ts)
	times := append(h.received, ts)
	if len(times) > 5 {
		times = times[len(times)-5:]
	}
	h.received = times
	h.sent = append(h.received[:0:0], h.received...)
}

// BadK4Push is a copy-paste of the sent branch with one identifier left unchanged.
func (h *k4hist) BadK4Push(ts uint64) {
	times := append(h.sent, ts)
	if len(times) > 5 {
		times = times[len(times)-5:]
	}
	h.received = times
}

// ---- E4 -----------------------------------------------------------------------------------------------------------------

type e4hist struct {
	times []uint64
	max   int
}

// GoodE4Each cuts after every append; GoodE4Loop cuts repeatedly until the limit holds.
func (h *e4hist) GoodE4Each(blocks []uint64) {
	for _, b := range blocks {
		h.times = append(h.times, b)
		if len(h.times) > h.max {
			h.times = h.times[1:]
		}
	}
}

func (h *e4hist) GoodE4Loop(blocks []uint64) {
	for _, b := range blocks {
		h.times = append(h.times, b)
	}
	for len(h.times) > h.max {
		h.times = h.times[1:]
	}
}

// BadE4Once appends once per block but cuts one element per report.
func (h *e4hist) BadE4Once(blocks []uint64) {
	for _, b := range blocks {
		h.times = append(h.times, b)
	}
	if len(h.times) > h.max {
		h.times = h.times[1:]
	}
}

// ---- J5 -----------------------------------------------------------------------------------------------------------------

// GoodJ5Run walks a run of sequence numbers with a separate counter (and a wrap-safe difference test).
func GoodJ5Run(first, n uint16, visit func(uint16)) {
	for i := uint16(0); i < n; i++ {
		visit(first + i)
	}
	for seq := first; seq-first < n; seq++ {
		visit(seq)
	}
}

// BadJ5Run compares against first+n, which wraps when the run crosses 65535→0: the loop body never runs.
func BadJ5Run(first, n uint16, visit func(uint16)) {
	for seq := first; seq < first+n; seq++ {
		visit(seq)
	}
}

// ---- V1 -----------------------------------------------------------------------------------------------------------------

type v1mask struct{ bits [4]uint64 }

func (m *v1mask) Reset() {
	for i := range m.bits {
		m.bits[i] = 0
	}
}

type v1cover struct{ masks [8]v1mask }

// GoodV1Reset clears the masks in place; GoodV1Copy works on a copy and hands the copy back.
func (c *v1cover) GoodV1Reset() {
	for i := range c.masks {
		c.masks[i].Reset()
	}
}

func GoodV1Copy(c v1cover) v1cover {
	c.masks[0].Reset()
	return c
}

// BadV1Reset clears the loop's copy of each mask.
func (c *v1cover) BadV1Reset() {
	for _, m := range c.masks {
		m.Reset()
	}
}
