package fx

import (
	"sync"

	"github.com/pion/interceptor"
)

// ---- good lifecycle: D1 D2 D3 D4 D5 D6 all hold -----------------------------------------------------------------

type GoodDLife struct {
	interceptor.NoOp
	m       sync.Mutex
	wg      sync.WaitGroup
	close   chan struct{}
	work    chan int
	streams sync.Map
}

func (g *GoodDLife) isClosed() bool {
	select {
	case <-g.close:
		return true
	default:
		return false
	}
}

func (g *GoodDLife) BindRTCPWriter(w interceptor.RTCPWriter) interceptor.RTCPWriter {
	g.m.Lock()
	defer g.m.Unlock()
	if g.isClosed() {
		return w
	}
	g.wg.Add(1)
	go g.loop(w)
	return w
}

func (g *GoodDLife) loop(w interceptor.RTCPWriter) {
	defer g.wg.Done()
	for {
		select {
		case <-g.close:
			return
		case <-g.work:
		}
	}
}

func (g *GoodDLife) BindRemoteStream(info *interceptor.StreamInfo, r interceptor.RTPReader) interceptor.RTPReader {
	g.streams.Store(info.SSRC, &innerT{})
	select {
	case g.work <- 1:
	case <-g.close:
	}
	return r
}

func (g *GoodDLife) UnbindRemoteStream(info *interceptor.StreamInfo) { g.streams.Delete(info.SSRC) }

func (g *GoodDLife) Close() error {
	defer g.wg.Wait()
	g.m.Lock()
	defer g.m.Unlock()
	if !g.isClosed() {
		close(g.close)
	}
	return nil
}

// ---- D1: goroutine not accounted ----------------------------------------------------------------------------------

type BadD1 struct {
	interceptor.NoOp
	close chan struct{}
}

func (g *BadD1) run() {
	<-g.close
}

func (g *BadD1) BindRTCPReader(r interceptor.RTCPReader) interceptor.RTCPReader {
	go g.run()
	return r
}

func (g *BadD1) Close() error { close(g.close); return nil }

// ---- D2: loop that cannot be stopped --------------------------------------------------------------------------------

type BadD2 struct {
	interceptor.NoOp
	wg    sync.WaitGroup
	close chan struct{}
	work  chan int
}

func NewBadD2() *BadD2 {
	b := &BadD2{close: make(chan struct{}), work: make(chan int)}
	b.wg.Add(1)
	go b.loopBadD2()
	return b
}

func (g *BadD2) loopBadD2() {
	defer g.wg.Done()
	for {
		<-g.work
	}
}

func (g *BadD2) Close() error {
	defer g.wg.Wait()
	close(g.close)
	return nil
}

// ---- D3: stranding send on an API path ------------------------------------------------------------------------------

type BadD3 struct {
	interceptor.NoOp
	wg    sync.WaitGroup
	close chan struct{}
	work  chan int
}

func (g *BadD3) BindRemoteStream(info *interceptor.StreamInfo, r interceptor.RTPReader) interceptor.RTPReader {
	return interceptor.RTPReaderFunc(func(b []byte, a interceptor.Attributes) (int, interceptor.Attributes, error) {
		n, attr, err := r.Read(b, a)
		if err != nil {
			return 0, nil, err
		}
		g.work <- n
		return n, attr, nil
	})
}

func (g *BadD3) Close() error { close(g.close); return nil }

// ---- D4 / D6: start sequence not atomic with Close, no closed test ---------------------------------------------------

type BadD4 struct {
	interceptor.NoOp
	m     sync.Mutex
	wg    sync.WaitGroup
	close chan struct{}
}

func (g *BadD4) isClosed() bool {
	select {
	case <-g.close:
		return true
	default:
		return false
	}
}

func (g *BadD4) BindRTCPWriter(w interceptor.RTCPWriter) interceptor.RTCPWriter {
	g.m.Lock()
	defer g.m.Unlock()
	if g.isClosed() {
		return w
	}
	g.wg.Add(1)
	go g.loop()
	return w
}

func (g *BadD4) loop() {
	defer g.wg.Done()
	<-g.close
}

// Close closes without the mutex
func (g *BadD4) Close() error {
	defer g.wg.Wait()
	if !g.isClosed() {
		close(g.close)
	}
	return nil
}

type BadD6 struct {
	interceptor.NoOp
	m     sync.Mutex
	wg    sync.WaitGroup
	close chan struct{}
}

func (g *BadD6) BindRTCPWriter(w interceptor.RTCPWriter) interceptor.RTCPWriter {
	g.m.Lock()
	defer g.m.Unlock()
	g.wg.Add(1)
	go g.loop()
	return w
}

func (g *BadD6) loop() {
	defer g.wg.Done()
	<-g.close
}

func (g *BadD6) Close() error {
	defer g.wg.Wait()
	g.m.Lock()
	defer g.m.Unlock()
	close(g.close)
	return nil
}

// ---- D5: unbind in the wrong direction / reuse -----------------------------------------------------------------------

type BadD5 struct {
	interceptor.NoOp
	streams sync.Map
}

func (g *BadD5) BindRemoteStream(info *interceptor.StreamInfo, r interceptor.RTPReader) interceptor.RTPReader {
	g.streams.Store(info.SSRC, &innerT{})
	return r
}

func (g *BadD5) UnbindLocalStream(info *interceptor.StreamInfo) { g.streams.Delete(info.SSRC) }

// ---- D7: the service loop is left only on the lifecycle signal ---------------------------------------------------------

type d7base struct {
	interceptor.NoOp
	m     sync.Mutex
	wg    sync.WaitGroup
	close chan struct{}
	work  chan int
}

func (g *d7base) isClosed() bool {
	select {
	case <-g.close:
		return true
	default:
		return false
	}
}

func (g *d7base) Close() error {
	defer g.wg.Wait()
	g.m.Lock()
	defer g.m.Unlock()
	if !g.isClosed() {
		close(g.close)
	}
	return nil
}

type GoodD7 struct{ d7base }

func (g *GoodD7) BindRTCPWriter(w interceptor.RTCPWriter) interceptor.RTCPWriter {
	g.m.Lock()
	defer g.m.Unlock()
	if g.isClosed() {
		return w
	}
	g.wg.Add(1)
	go g.goodD7loop(w)
	return w
}

// goodD7loop logs a failed write and keeps serving.
func (g *GoodD7) goodD7loop(w interceptor.RTCPWriter) {
	defer g.wg.Done()
	failed := 0
	for {
		select {
		case <-g.close:
			return
		case <-g.work:
			if _, err := w.Write(nil, nil); err != nil {
				failed++
			}
		}
	}
}

type BadD7 struct{ d7base }

func (g *BadD7) BindRTCPWriter(w interceptor.RTCPWriter) interceptor.RTCPWriter {
	g.m.Lock()
	defer g.m.Unlock()
	if g.isClosed() {
		return w
	}
	g.wg.Add(1)
	go g.badD7loop(w)
	return w
}

// badD7loop gives up on the first failed write: nobody receives from work any more although the interceptor is open.
func (g *BadD7) badD7loop(w interceptor.RTCPWriter) {
	defer g.wg.Done()
	for {
		select {
		case <-g.close:
			return
		case <-g.work:
			if _, err := w.Write(nil, nil); err != nil {
				return
			}
		}
	}
}
