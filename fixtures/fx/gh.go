package fx

import "sync"

// ---- G1 / G2: walking a feedback ------------------------------------------------------------------------------------------

type fbDelta struct{ d int64 }

type fbAck struct {
	seq     uint16
	arrival int64
}

type fbHistory struct{ sent map[uint16]fbAck }

func (h *fbHistory) get(seq uint16) (fbAck, bool) {
	a, ok := h.sent[seq]
	return a, ok
}

// GoodG1Walk consumes a delta for every received symbol whether or not the packet is still in the history.
func (h *fbHistory) GoodG1Walk(base uint16, received []bool, deltas []*fbDelta) []fbAck {
	var out []fbAck
	cur := 0
	t := int64(0)
	for i, r := range received {
		if r {
			if cur >= len(deltas) {
				return out
			}
			t += deltas[cur].d
			cur++
		}
		if a, ok := h.get(base + uint16(i)); ok {
			a.arrival = t
			out = append(out, a)
		}
	}
	return out
}

// BadG1Walk advances the cursor only for packets found in the history.
func (h *fbHistory) BadG1Walk(base uint16, received []bool, deltas []*fbDelta) []fbAck {
	var out []fbAck
	cur := 0
	t := int64(0)
	for i, r := range received {
		if a, ok := h.get(base + uint16(i)); ok {
			if r {
				if cur >= len(deltas) {
					return out
				}
				t += deltas[cur].d
				cur++
				a.arrival = t
			}
			out = append(out, a)
		}
	}
	return out
}

func GoodG2Positions(base uint16, runs []int) []fbAck {
	var out []fbAck
	off := 0
	for _, n := range runs {
		for k := 0; k < n; k++ {
			a := fbAck{}
			a.seq = base + uint16(off)
			off++
			out = append(out, a)
		}
	}
	return out
}

// BadG2Positions skips the advance for every fourth symbol.
func BadG2Positions(base uint16, runs []int) []fbAck {
	var out []fbAck
	off := 0
	for _, n := range runs {
		for k := 0; k < n; k++ {
			a := fbAck{}
			a.seq = base + uint16(off)
			out = append(out, a)
			if k%4 == 3 {
				continue
			}
			off++
		}
	}
	return out
}

// ---- H1 / H2 / H3 -----------------------------------------------------------------------------------------------------------

type fxPacer interface{ SetRate(int) }

type fxEstimator struct {
	mu       sync.Mutex
	rate     int
	min, max int
	pacer    fxPacer
	onChange func(int)
}

func clampFx(v, lo, hi int) int {
	if v < lo {
		return lo
	}
	if v > hi {
		return hi
	}
	return v
}

func (e *fxEstimator) Rate() int {
	e.mu.Lock()
	defer e.mu.Unlock()
	return e.rate
}

func (e *fxEstimator) GoodHUpdate(a, b int) {
	e.mu.Lock()
	defer e.mu.Unlock()
	r := clampFx(min(a, b), e.min, e.max)
	if r != e.rate {
		e.rate = r
		e.pacer.SetRate(e.rate)
		if e.onChange != nil {
			e.onChange(r)
		}
	}
}

func (e *fxEstimator) BadH1Update(a, b int) {
	e.mu.Lock()
	defer e.mu.Unlock()
	r := min(a, b)
	e.rate = r
	e.pacer.SetRate(r)
}

func (e *fxEstimator) BadH2Update(a, b int) {
	e.mu.Lock()
	defer e.mu.Unlock()
	r := clampFx(min(a, b), e.min, e.max)
	e.rate = r
	e.pacer.SetRate(a)
	if e.onChange != nil {
		e.onChange(r)
	}
}

// setRateH2 is the helper form: it clamps, stores and tells the pacer.
func (e *fxEstimator) setRateH2(r int) bool {
	r = clampFx(r, e.min, e.max)
	if r == e.rate {
		return false
	}
	e.rate = r
	e.pacer.SetRate(r)
	return true
}

// GoodH2Remote tells the callback what the helper published.
func (e *fxEstimator) GoodH2Remote(a, b int) {
	e.mu.Lock()
	defer e.mu.Unlock()
	if e.setRateH2(min(a, b)) && e.onChange != nil {
		e.onChange(e.rate)
	}
}

// BadH2Remote tells the callback the value from before the helper's clamp.
func (e *fxEstimator) BadH2Remote(a, b int) {
	e.mu.Lock()
	defer e.mu.Unlock()
	r := min(a, b)
	if e.setRateH2(r) && e.onChange != nil {
		e.onChange(r)
	}
}

type fxGate struct {
	closeLock sync.RWMutex
	done      chan struct{}
	pipe      chan int
}

func (g *fxGate) isClosed() bool {
	select {
	case <-g.done:
		return true
	default:
		return false
	}
}

func (g *fxGate) pushGoodH3(v int) { g.pipe <- v }

func (g *fxGate) GoodH3Feed(v int) bool {
	g.closeLock.RLock()
	defer g.closeLock.RUnlock()
	if g.isClosed() {
		return false
	}
	g.pushGoodH3(v)
	return true
}

func (g *fxGate) Close() error {
	g.closeLock.Lock()
	defer g.closeLock.Unlock()
	close(g.done)
	close(g.pipe)
	return nil
}

type fxGateBadH3 struct {
	closeLock sync.RWMutex
	done      chan struct{}
	pipe      chan int
}

func (g *fxGateBadH3) pushBadH3(v int) { g.pipe <- v }

// FeedBadH3 sends without the closed test.
func (g *fxGateBadH3) FeedBadH3(v int) {
	g.closeLock.RLock()
	defer g.closeLock.RUnlock()
	g.pushBadH3(v)
}

func (g *fxGateBadH3) Close() error {
	g.closeLock.Lock()
	defer g.closeLock.Unlock()
	close(g.done)
	close(g.pipe)
	return nil
}

// ---- G3 ---------------------------------------------------------------------------------------------------------------

type g3rec struct{ arrived bool }

type g3hist struct {
	bySeq map[uint16]uint64
	recs  map[uint64]*g3rec
}

func (h *g3hist) mark(c uint64) {
	if r, ok := h.recs[c]; ok {
		r.arrived = true
	}
}

// GoodG3Ack ignores acknowledgements for unknown sequence numbers.
func (h *g3hist) GoodG3Ack(seq uint16) {
	c, ok := h.bySeq[seq]
	if !ok {
		return
	}
	h.mark(c)
}

// BadG3Ack attributes an unknown sequence number to record 0.
func (h *g3hist) BadG3Ack(seq uint16) {
	h.mark(h.bySeq[seq])
}

const (
	fxDefaultMin = 5_000
	fxDefaultMax = 50_000_000
)

// GoodH1New clamps the start value with the bounds that were just configured; BadH1New clamps it with the package
// defaults, so a legal configuration outside the defaults starts outside its own range.
func GoodH1New(initial, lo, hi int) *fxEstimator {
	e := &fxEstimator{rate: initial, min: lo, max: hi}
	e.rate = clampFx(e.rate, e.min, e.max)
	return e
}

func BadH1New(initial, lo, hi int) *fxEstimator {
	e := &fxEstimator{rate: initial, min: lo, max: hi}
	e.rate = clampFx(e.rate, fxDefaultMin, fxDefaultMax)
	return e
}
