package fx

import (
	"errors"
	"sync"
)

// ---- U1: first-packet flag ----------------------------------------------------------------------------------------------

type u1ring struct {
	started bool
	newest  uint16
	slots   [8]int
}

// GoodU1Add consults newest only after the first-packet branch.
func (r *u1ring) GoodU1Add(seq uint16, v int) {
	if !r.started {
		r.started = true
		r.newest = seq
		r.slots[seq%8] = v
		return
	}
	if seq == r.newest+1 {
		r.newest = seq
	}
	r.slots[seq%8] = v
}

// BadU1Add has an in-order fast path ahead of the flag test.
func (r *u1ring) BadU1Add(seq uint16, v int) {
	if seq == r.newest+1 {
		r.slots[seq%8] = v
		r.newest = seq
		return
	}
	if !r.started {
		r.started = true
		r.newest = seq
		r.slots[seq%8] = v
		return
	}
	r.slots[seq%8] = v
}

// ---- D8: closed contract ------------------------------------------------------------------------------------------------

var errD8Closed = errors.New("closed")

type d8obj struct {
	m     sync.Mutex
	close chan struct{}
	n     int
}

func (g *d8obj) isClosed() bool {
	select {
	case <-g.close:
		return true
	default:
		return false
	}
}

func (g *d8obj) Close() error {
	g.m.Lock()
	defer g.m.Unlock()
	if !g.isClosed() {
		close(g.close)
	}
	return nil
}

func (g *d8obj) GoodD8Feed(xs []int) error {
	g.m.Lock()
	defer g.m.Unlock()
	if g.isClosed() {
		return errD8Closed
	}
	if len(xs) == 0 {
		return nil
	}
	g.n += len(xs)
	return nil
}

func (g *d8obj) BadD8Feed(xs []int) error {
	if len(xs) == 0 {
		return nil
	}
	g.m.Lock()
	defer g.m.Unlock()
	if g.isClosed() {
		return errD8Closed
	}
	g.n += len(xs)
	return nil
}

// ---- O1: an object given to a keeper is taken out of its slot ------------------------------------------------------------

type o1xpkt struct{ seq uint16 }

type o1xqueue struct{ items []*o1xpkt }

func (q *o1xqueue) Push(p *o1xpkt) { q.items = append(q.items, p) }

type o1xowner struct {
	q     o1xqueue
	spare *o1xpkt
}

func (o *o1xowner) takeSpare() *o1xpkt {
	if o.spare == nil {
		return &o1xpkt{}
	}
	p := o.spare
	o.spare = nil
	*p = o1xpkt{}
	return p
}

func (o *o1xowner) peekSpare() *o1xpkt {
	if o.spare == nil {
		return &o1xpkt{}
	}
	*o.spare = o1xpkt{}
	return o.spare
}

func (o *o1xowner) GoodO1Read(seq uint16) {
	p := o.takeSpare()
	p.seq = seq
	o.q.Push(p)
}

func (o *o1xowner) BadO1Read(seq uint16) {
	p := o.peekSpare()
	p.seq = seq
	o.q.Push(p)
}

// ---- D9: Close marks the object closed on every path ---------------------------------------------------------------------

type d9part struct{ fail bool }

func (d *d9part) Close() error {
	if d.fail {
		return errD8Closed
	}
	return nil
}

type GoodD9obj struct {
	m     sync.Mutex
	close chan struct{}
	part  interface{ Close() error }
}

func (g *GoodD9obj) Close() error {
	g.m.Lock()
	defer g.m.Unlock()
	close(g.close)
	return g.part.Close()
}

type BadD9obj struct {
	m     sync.Mutex
	close chan struct{}
	part  interface{ Close() error }
}

func (g *BadD9obj) Close() error {
	g.m.Lock()
	defer g.m.Unlock()
	if err := g.part.Close(); err != nil {
		return err
	}
	close(g.close)
	return nil
}

// ---- F4 (constructor form): an object whose constructor failed is not dereferenced -------------------------------------------

type f4obj struct{ n int }

func newF4obj(size int) (*f4obj, error) {
	if size <= 0 {
		return nil, errD8Closed
	}
	return &f4obj{n: size}, nil
}

func (o *f4obj) grow() { o.n++ }

var f4slot *f4obj

func GoodF4CtorUse(size int) error {
	o, err := newF4obj(size)
	f4slot = o // storing a nil pointer is harmless
	if err != nil {
		return err
	}
	o.grow()
	return nil
}

func BadF4CtorUse(size int) int {
	o, err := newF4obj(size)
	if err != nil {
		f4slot = nil // logged and carried on
	}
	o.grow()
	return o.n
}

// ---- E5: the node taken off the front of a doubly linked list is cut off -----------------------------------------------------

type e5node struct {
	next, prev *e5node
	val        *int
}

type e5list struct {
	head *e5node
	n    int
}

func (l *e5list) GoodE5Pop() *int {
	if l.head == nil {
		return nil
	}
	v := l.head.val
	l.head.val = nil
	l.head = l.head.next
	if l.head != nil {
		l.head.prev = nil
	}
	l.n--
	return v
}

func (l *e5list) BadE5Pop() *int {
	if l.head == nil {
		return nil
	}
	v := l.head.val
	l.head.val = nil
	l.head = l.head.next
	l.n--
	return v
}

// ---- W1: a named result that is never assigned --------------------------------------------------------------------------------

// GoodW1Unpack never assigns `spare` and says so consistently: every successful return hands back its zero value.
func GoodW1Unpack(start int, xs []int) (next int, spare int, err error) {
	if len(xs) == 0 {
		return start, spare, nil
	}
	n := start
	for _, x := range xs {
		n += x
	}
	return n, spare, nil
}

func BadW1Unpack(start int, xs []int) (consumed int, next int, err error) {
	if len(xs) == 0 {
		return 0, next, nil // next was never assigned: the running value restarts at zero
	}
	n := start
	for _, x := range xs {
		n += x
	}
	return len(xs), n, nil
}

// ---- U2: the packet path does not reset its own first-packet flag ---------------------------------------------------------------

type u2ring struct {
	started bool
	newest  uint16
	slots   [8]int
}

func (r *u2ring) clear() {
	for i := range r.slots {
		r.slots[i] = 0
	}
	r.started = false
}

// GoodU2Add walks the gap; only Reset (called from outside) clears the flag.
func (r *u2ring) GoodU2Add(seq uint16, v int) {
	if !r.started {
		r.started = true
		r.newest = seq
		r.slots[seq%8] = v
		return
	}
	if d := seq - r.newest; d > 0 && d < 1<<15 {
		for i := r.newest + 1; i != seq; i++ {
			r.slots[i%8] = 0
		}
		r.newest = seq
	}
	r.slots[seq%8] = v
}

type u2ringBad struct {
	started bool
	newest  uint16
	slots   [8]int
}

func (r *u2ringBad) clear() {
	for i := range r.slots {
		r.slots[i] = 0
	}
	r.started = false
}

// BadU2Add "optimises" a jump larger than the ring into clear(), which also forgets that the ring has started.
func (r *u2ringBad) BadU2Add(seq uint16, v int) {
	if !r.started {
		r.started = true
		r.newest = seq
		r.slots[seq%8] = v
		return
	}
	if d := seq - r.newest; d > 8 && d < 1<<15 {
		r.clear()
		r.newest = seq
	}
	r.slots[seq%8] = v
}

// F4 (belief form): `x, _ := newX(o.size)` is backed by the same call, checked, where o is built.

type f4owner struct {
	size int
	obj  *f4obj
}

func newF4owner(size int) (*f4owner, error) {
	o := &f4owner{size: size}
	if _, err := newF4obj(o.size); err != nil {
		return nil, err
	}
	return o, nil
}

func (o *f4owner) GoodF4BeliefBind() {
	x, _ := newF4obj(o.size) // error is already checked in newF4owner
	o.obj = x
}

type f4ownerBad struct {
	size int
	obj  *f4obj
}

func newF4ownerBad(size int) (*f4ownerBad, error) {
	o := &f4ownerBad{size: size}
	if o.size&(o.size-1) != 0 { // a hand-written test that also lets 0 through
		return nil, errD8Closed
	}
	return o, nil
}

func (o *f4ownerBad) BadF4BeliefBind() {
	x, _ := newF4obj(o.size)
	o.obj = x
}
