package fx

import "sync"

// ---- N1: nil maps -----------------------------------------------------------------------------------------------------

type GoodN1table struct {
	mu      sync.Mutex
	streams map[uint32]int
	lazy    map[uint32]int
}

// GoodN1Close drops the table by replacing it with a fresh map; the lazily created table is re-made before use.
func (t *GoodN1table) GoodN1Close() {
	t.mu.Lock()
	t.streams = map[uint32]int{}
	t.lazy = nil
	t.mu.Unlock()
}

func (t *GoodN1table) GoodN1Bind(ssrc uint32) {
	t.mu.Lock()
	t.streams[ssrc] = 1
	if t.lazy == nil {
		t.lazy = map[uint32]int{}
	}
	t.lazy[ssrc] = 2
	t.mu.Unlock()
}

type BadN1table struct {
	mu      sync.Mutex
	streams map[uint32]int
}

// BadN1Close drops the table with nil: the next bind assigns into a nil map.
func (t *BadN1table) BadN1Close() {
	t.mu.Lock()
	t.streams = nil
	t.mu.Unlock()
}

func (t *BadN1table) bind(ssrc uint32) {
	t.mu.Lock()
	t.streams[ssrc] = 1
	t.mu.Unlock()
}

// ---- N2: nil-able pointers ----------------------------------------------------------------------------------------------

type n2ring struct{ n int }

func (r *n2ring) add(v int) { r.n += v }
func (r *n2ring) get() int  { return r.n }

type GoodN2stream struct {
	mu   sync.Mutex
	ring *n2ring
}

// GoodN2: the ring is released on unbind, and both users test it.
func (s *GoodN2stream) GoodN2Release() {
	s.mu.Lock()
	s.ring = nil
	s.mu.Unlock()
}

func (s *GoodN2stream) GoodN2Add(v int) {
	s.mu.Lock()
	if s.ring != nil {
		s.ring.add(v)
	}
	s.mu.Unlock()
}

func (s *GoodN2stream) GoodN2Get() int {
	s.mu.Lock()
	defer s.mu.Unlock()
	if s.ring == nil {
		return 0
	}
	return s.ring.get()
}

type BadN2stream struct {
	mu   sync.Mutex
	ring *n2ring
}

func (s *BadN2stream) release() {
	s.mu.Lock()
	s.ring = nil
	s.mu.Unlock()
}

func (s *BadN2stream) add(v int) {
	s.mu.Lock()
	if s.ring != nil {
		s.ring.add(v)
	}
	s.mu.Unlock()
}

// BadN2Get was not updated when release() started to reset the ring.
func (s *BadN2stream) BadN2Get() int {
	s.mu.Lock()
	defer s.mu.Unlock()
	return s.ring.get()
}
