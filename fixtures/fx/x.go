package fx

import (
	"sync"

	"github.com/pion/interceptor"
	"github.com/pion/rtp"
)

// ---- S7: figures of a report are attributed by the report's own key -------------------------------------------------------

type s7Block struct {
	ssrc uint32
	lost uint32
}

type s7SenderReport struct {
	ssrc    uint32
	packets uint32
	blocks  []s7Block
}

// recordGoodS7 takes the sender's packet count only from a report sent by the stream itself.
func (r *sRec) recordGoodS7(st sStats, ssrc uint32, rep *s7SenderReport) sStats {
	if ssrc != r.ssrc {
		return st
	}
	if rep.ssrc == r.ssrc {
		st.Lost = int64(rep.packets)
	}
	return st
}

// recordBadS7 is reached for every report that mentions the stream, and copies the sender's figure whoever sent it.
func (r *sRec) recordBadS7(st sStats, ssrc uint32, rep *s7SenderReport) sStats {
	if ssrc != r.ssrc {
		return st
	}
	st.Lost = int64(rep.packets)
	return st
}

// applyGoodS7h is only called for reports whose own SSRC was compared by the caller.
func (r *sRec) applyGoodS7h(st sStats, rep s7SenderReport) sStats {
	st.Lost = int64(rep.packets)
	return st
}

// applyBadS7h is called for every report that passed the mention test.
func (r *sRec) applyBadS7h(st sStats, rep s7SenderReport) sStats {
	st.Lost = int64(rep.packets)
	return st
}

func (r *sRec) recordS7viaHelpers(st sStats, ssrc uint32, reps []s7SenderReport) sStats {
	if ssrc != r.ssrc {
		return st
	}
	for i := range reps {
		st = r.applyBadS7h(st, reps[i])
		if reps[i].ssrc != r.ssrc {
			continue
		}
		st = r.applyGoodS7h(st, reps[i])
	}
	return st
}

// ---- X1: what an option configured stays configured ---------------------------------------------------------------------------

type x1Buf struct {
	GoodX1min uint16
	BadX1min  uint16
	state     int
}

type x1Option func(*x1Buf)

func withX1Min(n uint16) x1Option {
	return func(b *x1Buf) {
		b.GoodX1min = n
		b.BadX1min = n
	}
}

func newX1Buf(opts ...x1Option) *x1Buf {
	b := &x1Buf{GoodX1min: 50, BadX1min: 50}
	for _, o := range opts {
		o(b)
	}
	return b
}

func (b *x1Buf) clear() {
	b.state = 0
	b.BadX1min = 50
}

func (b *x1Buf) ready(n uint16) bool { return n >= b.GoodX1min && n >= b.BadX1min && b.state == 0 }

// ---- X2: attributes travel with the bytes they describe ---------------------------------------------------------------------

type x2Queue struct {
	mu   sync.Mutex
	pkts []*rtp.Packet
}

func (q *x2Queue) swap(p *rtp.Packet) *rtp.Packet {
	q.mu.Lock()
	defer q.mu.Unlock()
	q.pkts = append(q.pkts, p)
	if len(q.pkts) < 8 {
		return nil
	}
	out := q.pkts[0]
	q.pkts[0] = nil
	q.pkts = q.pkts[1:]
	return out
}

type GoodX2 struct {
	interceptor.NoOp
	q *x2Queue
}

func (g *GoodX2) BindRemoteStream(_ *interceptor.StreamInfo, r interceptor.RTPReader) interceptor.RTPReader {
	return interceptor.RTPReaderFunc(func(b []byte, a interceptor.Attributes) (int, interceptor.Attributes, error) {
		buf := make([]byte, len(b))
		n, attr, err := r.Read(buf, a)
		if err != nil {
			return n, attr, err
		}
		p := &rtp.Packet{}
		if err := p.Unmarshal(buf[:n]); err != nil {
			return 0, nil, err
		}
		out := g.q.swap(p)
		if out == nil {
			return 0, nil, errReject
		}
		m, err := out.MarshalTo(b)
		return m, make(interceptor.Attributes), err
	})
}

type BadX2 struct {
	interceptor.NoOp
	q *x2Queue
}

func (g *BadX2) BindRemoteStream(_ *interceptor.StreamInfo, r interceptor.RTPReader) interceptor.RTPReader {
	return interceptor.RTPReaderFunc(func(b []byte, a interceptor.Attributes) (int, interceptor.Attributes, error) {
		buf := make([]byte, len(b))
		n, attr, err := r.Read(buf, a)
		if err != nil {
			return n, attr, err
		}
		p := &rtp.Packet{}
		if err := p.Unmarshal(buf[:n]); err != nil {
			return 0, nil, err
		}
		out := g.q.swap(p)
		if out == nil {
			return 0, nil, errReject
		}
		m, err := out.MarshalTo(b)
		return m, attr, err
	})
}
