package fx

import (
	"container/list"
	"sort"
	"sync"
	"sync/atomic"
	"time"

	"github.com/pion/interceptor"
	"github.com/pion/rtcp"
	"github.com/pion/rtp"
)

// ---- S7: figures of a report are attributed by the report's own key -------------------------------------------------------

type s7Block struct {
	ssrc uint32
	lost uint32
}

type s7SenderReport struct {
	ssrc    uint32
	packets uint32
	blocks  []s7Block
}

// recordGoodS7 takes the sender's packet count only from a report sent by the stream itself.
func (r *sRec) recordGoodS7(st sStats, ssrc uint32, rep *s7SenderReport) sStats {
	if ssrc != r.ssrc {
		return st
	}
	if rep.ssrc == r.ssrc {
		st.Lost = int64(rep.packets)
	}
	return st
}

// recordBadS7 is reached for every report that mentions the stream, and copies the sender's figure whoever sent it.
func (r *sRec) recordBadS7(st sStats, ssrc uint32, rep *s7SenderReport) sStats {
	if ssrc != r.ssrc {
		return st
	}
	st.Lost = int64(rep.packets)
	return st
}

// applyGoodS7h is only called for reports whose own SSRC was compared by the caller.
func (r *sRec) applyGoodS7h(st sStats, rep s7SenderReport) sStats {
	st.Lost = int64(rep.packets)
	return st
}

// applyBadS7h is called for every report that passed the mention test.
func (r *sRec) applyBadS7h(st sStats, rep s7SenderReport) sStats {
	st.Lost = int64(rep.packets)
	return st
}

func (r *sRec) recordS7viaHelpers(st sStats, ssrc uint32, reps []s7SenderReport) sStats {
	if ssrc != r.ssrc {
		return st
	}
	for i := range reps {
		st = r.applyBadS7h(st, reps[i])
		if reps[i].ssrc != r.ssrc {
			continue
		}
		st = r.applyGoodS7h(st, reps[i])
	}
	return st
}

// ---- X1: what an option configured stays configured ---------------------------------------------------------------------------

type x1Buf struct {
	GoodX1min uint16
	BadX1min  uint16
	state     int
}

type x1Option func(*x1Buf)

func withX1Min(n uint16) x1Option {
	return func(b *x1Buf) {
		b.GoodX1min = n
		b.BadX1min = n
	}
}

func newX1Buf(opts ...x1Option) *x1Buf {
	b := &x1Buf{GoodX1min: 50, BadX1min: 50}
	for _, o := range opts {
		o(b)
	}
	return b
}

func (b *x1Buf) clear() {
	b.state = 0
	b.BadX1min = 50
}

func (b *x1Buf) ready(n uint16) bool { return n >= b.GoodX1min && n >= b.BadX1min && b.state == 0 }

// ---- X2: attributes travel with the bytes they describe ---------------------------------------------------------------------

type x2Queue struct {
	mu   sync.Mutex
	pkts []*rtp.Packet
}

func (q *x2Queue) swap(p *rtp.Packet) *rtp.Packet {
	q.mu.Lock()
	defer q.mu.Unlock()
	q.pkts = append(q.pkts, p)
	if len(q.pkts) < 8 {
		return nil
	}
	out := q.pkts[0]
	q.pkts[0] = nil
	q.pkts = q.pkts[1:]
	return out
}

type GoodX2 struct {
	interceptor.NoOp
	q *x2Queue
}

func (g *GoodX2) BindRemoteStream(_ *interceptor.StreamInfo, r interceptor.RTPReader) interceptor.RTPReader {
	return interceptor.RTPReaderFunc(func(b []byte, a interceptor.Attributes) (int, interceptor.Attributes, error) {
		buf := make([]byte, len(b))
		n, attr, err := r.Read(buf, a)
		if err != nil {
			return n, attr, err
		}
		p := &rtp.Packet{}
		if err := p.Unmarshal(buf[:n]); err != nil {
			return 0, nil, err
		}
		out := g.q.swap(p)
		if out == nil {
			return 0, nil, errReject
		}
		m, err := out.MarshalTo(b)
		return m, make(interceptor.Attributes), err
	})
}

type BadX2 struct {
	interceptor.NoOp
	q *x2Queue
}

func (g *BadX2) BindRemoteStream(_ *interceptor.StreamInfo, r interceptor.RTPReader) interceptor.RTPReader {
	return interceptor.RTPReaderFunc(func(b []byte, a interceptor.Attributes) (int, interceptor.Attributes, error) {
		buf := make([]byte, len(b))
		n, attr, err := r.Read(buf, a)
		if err != nil {
			return n, attr, err
		}
		p := &rtp.Packet{}
		if err := p.Unmarshal(buf[:n]); err != nil {
			return 0, nil, err
		}
		out := g.q.swap(p)
		if out == nil {
			return 0, nil, errReject
		}
		m, err := out.MarshalTo(b)
		return m, attr, err
	})
}

// ---- O4 (c): a maker function kept by a factory builds what it returns ------------------------------------------------------

type o4makerFactory struct{ mk func() (*o4state, error) }

func (f *o4makerFactory) NewInterceptor(_ string) (interceptor.Interceptor, error) {
	st, err := f.mk()
	if err != nil {
		return nil, err
	}
	return &o4icpt{state: st}, nil
}

func newGoodO4maker() *o4makerFactory {
	return &o4makerFactory{mk: func() (*o4state, error) {
		return &o4state{seen: map[uint16]bool{}}, nil
	}}
}

func newBadO4maker() *o4makerFactory {
	shared := &o4state{seen: map[uint16]bool{}}
	return &o4makerFactory{mk: func() (*o4state, error) {
		return shared, nil
	}}
}

// ---- X3: after the upstream read, the returned attributes are the ones to use --------------------------------------------

type x3rec struct {
	mu  sync.Mutex
	seq []uint16
}

func (r *x3rec) note(b []byte, a interceptor.Attributes) {
	if a == nil {
		a = make(interceptor.Attributes)
	}
	h, err := a.GetRTPHeader(b)
	if err != nil {
		return
	}
	r.mu.Lock()
	r.seq = append(r.seq, h.SequenceNumber)
	r.mu.Unlock()
}

type GoodX3 struct {
	interceptor.NoOp
	rec *x3rec
}

func (g *GoodX3) BindRemoteStream(_ *interceptor.StreamInfo, r interceptor.RTPReader) interceptor.RTPReader {
	return interceptor.RTPReaderFunc(func(b []byte, a interceptor.Attributes) (int, interceptor.Attributes, error) {
		n, attr, err := r.Read(b, a)
		if err != nil {
			return 0, nil, err
		}
		g.rec.note(b[:n], attr)
		return n, attr, nil
	})
}

type BadX3 struct {
	interceptor.NoOp
	rec *x3rec
}

func (g *BadX3) BindRemoteStream(_ *interceptor.StreamInfo, r interceptor.RTPReader) interceptor.RTPReader {
	return interceptor.RTPReaderFunc(func(b []byte, a interceptor.Attributes) (int, interceptor.Attributes, error) {
		n, attr, err := r.Read(b, a)
		if err != nil {
			return 0, nil, err
		}
		g.rec.note(b[:n], a)
		return n, attr, nil
	})
}

// ---- X4: what Bind learns about one stream is not kept in a field of the interceptor ------------------------------------

type GoodX4 struct {
	interceptor.NoOp
	hits int
	mu   sync.Mutex
}

func (g *GoodX4) BindLocalStream(info *interceptor.StreamInfo, w interceptor.RTPWriter) interceptor.RTPWriter {
	var extID uint8
	for _, e := range info.RTPHeaderExtensions {
		extID = uint8(e.ID)
	}
	return interceptor.RTPWriterFunc(func(h *rtp.Header, p []byte, a interceptor.Attributes) (int, error) {
		if h.GetExtension(extID) != nil {
			g.mu.Lock()
			g.hits++
			g.mu.Unlock()
		}
		return w.Write(h, p, a)
	})
}

type BadX4 struct {
	interceptor.NoOp
	hits  int
	extID uint8
	mu    sync.Mutex
}

func (g *BadX4) BindLocalStream(info *interceptor.StreamInfo, w interceptor.RTPWriter) interceptor.RTPWriter {
	for _, e := range info.RTPHeaderExtensions {
		g.mu.Lock()
		g.extID = uint8(e.ID)
		g.mu.Unlock()
	}
	return interceptor.RTPWriterFunc(func(h *rtp.Header, p []byte, a interceptor.Attributes) (int, error) {
		g.mu.Lock()
		if h.GetExtension(g.extID) != nil {
			g.hits++
		}
		g.mu.Unlock()
		return w.Write(h, p, a)
	})
}

// ---- E7: an index over a list has one entry per element --------------------------------------------------------------------

type e7lru struct {
	order *list.List
	index map[uint16]*list.Element
	size  int
}

func (l *e7lru) evict() {
	if e := l.order.Back(); e != nil {
		l.order.Remove(e)
		delete(l.index, e.Value.(uint16))
	}
}

func (l *e7lru) GoodE7add(k uint16) {
	if e, ok := l.index[k]; ok {
		e.Value = k
		l.order.MoveToFront(e)
		return
	}
	l.index[k] = l.order.PushFront(k)
	if l.order.Len() > l.size {
		l.evict()
	}
}

// BadE7get: a lookup that refreshes what it found — the list is no longer in the order of insertion.
func (l *e7lru) BadE7get(k uint16) bool {
	e, ok := l.index[k]
	if ok {
		l.order.MoveToFront(e)
	}
	return ok
}

func (l *e7lru) BadE7add(k uint16) {
	if _, ok := l.index[k]; !ok && l.order.Len() >= l.size {
		l.evict()
	}
	l.index[k] = l.order.PushFront(k)
}

// GoodE7recycle reuses the oldest element and drops its old key first.
func (l *e7lru) GoodE7recycle(k uint16) {
	if _, ok := l.index[k]; ok {
		return
	}
	if l.order.Len() < l.size {
		l.index[k] = l.order.PushFront(k)
		return
	}
	e := l.order.Back()
	delete(l.index, e.Value.(uint16))
	e.Value = k
	l.order.MoveToFront(e)
	l.index[k] = e
}

// BadE7recycle reuses the oldest element and leaves its old key in the index.
func (l *e7lru) BadE7recycle(k uint16) {
	if _, ok := l.index[k]; ok {
		return
	}
	var e *list.Element
	if l.order.Len() < l.size {
		e = l.order.PushFront(k)
	} else {
		e = l.order.Back()
		e.Value = k
		l.order.MoveToFront(e)
	}
	l.index[k] = e
}

// ---- F8: nothing half-parsed is published ----------------------------------------------------------------------------------

type f8cache map[string]any

func (c f8cache) GoodF8header(raw []byte) (*rtp.Header, error) {
	h := &rtp.Header{}
	if _, err := h.Unmarshal(raw); err != nil {
		return nil, err
	}
	c["h"] = h
	return h, nil
}

func (c f8cache) BadF8header(raw []byte) (*rtp.Header, error) {
	h := &rtp.Header{}
	c["h"] = h
	if _, err := h.Unmarshal(raw); err != nil {
		return nil, err
	}
	return h, nil
}

// ---- U3: everything that dirties sets the dirty flag ---------------------------------------------------------------------------

type u3table struct {
	GoodU3streams sync.Map
	GoodU3dirty   atomic.Bool
	BadU3streams  sync.Map
	BadU3dirty    atomic.Bool
}

func (t *u3table) add(ssrc uint32) {
	t.GoodU3streams.Store(ssrc, nil)
	t.GoodU3dirty.Store(true)
	t.BadU3streams.Store(ssrc, nil)
	t.BadU3dirty.Store(true)
}

func (t *u3table) remove(ssrc uint32) {
	t.GoodU3streams.Delete(ssrc)
	t.GoodU3dirty.Store(true)
	t.BadU3streams.Delete(ssrc) // the flag stays down
}

func (t *u3table) loop(tick <-chan struct{}, emit func([]uint32)) {
	var good, bad []uint32
	for range tick {
		if t.GoodU3dirty.Swap(false) {
			good = good[:0]
			t.GoodU3streams.Range(func(k, _ any) bool {
				good = append(good, k.(uint32))
				return true
			})
		}
		if t.BadU3dirty.Swap(false) {
			bad = bad[:0]
			t.BadU3streams.Range(func(k, _ any) bool {
				bad = append(bad, k.(uint32))
				return true
			})
		}
		emit(good)
		emit(bad)
	}
}

// ---- X5: the cache's keys cannot collide with anybody else's ------------------------------------------------------------------

type x5attrs map[any]any

type x5key int

const x5typedKey x5key = 0

const x5plainKey = 0

func (a x5attrs) GoodX5get() any { return a[x5typedKey] }

func (a x5attrs) BadX5get() any { return a[x5plainKey] }

// ---- V2: what was handed on is not refilled in place -------------------------------------------------------------------------

type v2sender struct {
	batch []rtcp.Packet
}

func (s *v2sender) GoodV2tick(w interceptor.RTCPWriter, pkts []rtcp.Packet) {
	for _, pk := range pkts {
		_, _ = w.Write([]rtcp.Packet{pk}, nil)
	}
	s.batch = append(s.batch[:0], pkts...) // scratch copy that stays here
}

func (s *v2sender) BadV2tick(w interceptor.RTCPWriter, pkts []rtcp.Packet) {
	for _, pk := range pkts {
		s.batch = append(s.batch[:0], pk)
		_, _ = w.Write(s.batch, nil)
	}
}

// ---- N3: a nil pointer is not returned inside a non-nil interface ---------------------------------------------------------

type n3stopper interface{ Stop() }

type n3timer struct{ n int }

func (t *n3timer) Stop() { t.n++ }

func newGoodN3stopper(on bool) n3stopper {
	if !on {
		return nil
	}
	return &n3timer{}
}

func newBadN3stopper(on bool) n3stopper {
	var t *n3timer
	if on {
		t = &n3timer{}
	}
	return t
}

// ---- W2: arithmetic is done in the width its result needs ---------------------------------------------------------------

func GoodW2key(ssrc uint16, seq uint16) uint64 { return uint64(uint32(ssrc)<<16) | uint64(seq) }

func BadW2key(ssrc uint32, seq uint16) uint64 { return uint64(ssrc<<16) | uint64(seq) }

func GoodW2room(hi, lo uint64) []byte {
	if lo > hi {
		return nil
	}
	return make([]byte, 0, hi-lo+1)
}

func BadW2room(hi, lo uint64) []byte {
	pending := hi + 1 - lo
	if pending == 0 {
		return nil
	}
	return make([]byte, 0, pending)
}

// ---- V3: a view taken before a slice grows is not written through afterwards ------------------------------------------

func GoodV3xor(headerSize int, first, more []byte) []byte {
	out := make([]byte, headerSize+len(first))
	hdr := out[:headerSize]
	hdr[0] ^= first[0] // written before the slice grows
	copy(out[headerSize:], first)
	out = append(out, more...)
	return out
}

func BadV3xor(headerSize int, parts [][]byte) []byte {
	out := make([]byte, headerSize+len(parts[0]))
	hdr := out[:headerSize]
	for _, pt := range parts {
		if grow := headerSize + len(pt) - len(out); grow > 0 {
			out = append(out, make([]byte, grow)...)
		}
		hdr[0] ^= pt[0]
		for i := range pt {
			out[headerSize+i] ^= pt[i]
		}
	}
	return out
}

// ---- C9 (deferred): a callback deferred after the Unlock runs before it ------------------------------------------------

type c9d struct {
	mu     sync.Mutex
	target int
	onSet  func(int)
}

func (c *c9d) GoodC9deferSet(v int) {
	c.mu.Lock()
	c.target = v
	c.mu.Unlock()
	c.onSet(v)
}

func (c *c9d) BadC9deferSet(v int) {
	c.mu.Lock()
	defer c.mu.Unlock()
	c.target = v
	defer c.onSet(v)
}

// ---- R1: a message received from a channel is read, not rewritten ------------------------------------------------------------

type r1stage struct{ sum int }

func (s *r1stage) GoodR1run(in <-chan []int) {
	for batch := range in {
		for _, v := range batch {
			s.sum += v
		}
	}
}

func (s *r1stage) BadR1run(in <-chan []int) {
	for batch := range in {
		sort.Ints(batch)
		for _, v := range batch {
			s.sum += v
		}
	}
}

// ---- S8: a FIR is addressed through its entries ---------------------------------------------------------------------------------

type s8FullIntraRequest struct {
	MediaSSRC uint32
	Targets   []uint32
}

func (r *sRec) countGoodS8(st sStats, fir *s8FullIntraRequest) sStats {
	for _, t := range fir.Targets {
		if t == r.ssrc {
			st.Packets++
		}
	}
	return st
}

func (r *sRec) countBadS8(st sStats, fir *s8FullIntraRequest) sStats {
	if fir.MediaSSRC == r.ssrc {
		st.Packets++
	}
	return st
}

// ---- S9: one report, one measurement ----------------------------------------------------------------------------------------------

func recordGoodS9(st sStats, ref uint32) sStats {
	for i := len(st.sentRefs) - 1; i >= 0; i-- {
		if st.sentRefs[i] == ref {
			st.Packets++
			break
		}
	}
	return st
}

func recordBadS9(st sStats, ref uint32) sStats {
	for i := len(st.sentRefs) - 1; i >= 0; i-- {
		if st.sentRefs[i] == ref {
			st.Packets++
		}
	}
	return st
}

// S9 (what is measured): the distance is taken from the entry that matched, not from something kept beside it.
func recordGoodS9Rtt(st sStats, ref uint32, now time.Time) sStats {
	for i := len(st.sentLog) - 1; i >= 0; i-- {
		e := st.sentLog[i]
		if e.ref == ref {
			st.RTT = now.Sub(time.Unix(int64(e.ref), 0))
			break
		}
	}
	return st
}

func recordBadS9Rtt(st sStats, ref uint32, now time.Time) sStats {
	for i := len(st.sentLog) - 1; i >= 0; i-- {
		e := st.sentLog[i]
		if e.ref == ref {
			st.RTT = now.Sub(e.out)
			break
		}
	}
	return st
}

// ---- F9: no error of the library's own calls is dropped -------------------------------------------------------------------------

type f9est struct{ closed bool }

func (e *f9est) feed(n int) error {
	if e.closed {
		return errReject
	}
	return nil
}

func GoodF9feed(e *f9est, n int) error {
	if err := e.feed(n); err != nil {
		return err
	}
	return nil
}

func BadF9feed(e *f9est, n int) error {
	_ = e.feed(n)
	return nil
}

// ---- Y1: Unbind forgets the stream whatever the StreamInfo looks like now --------------------------------------------------

type GoodY1 struct {
	interceptor.NoOp
	mu      sync.Mutex
	streams map[uint32]int
}

func (g *GoodY1) UnbindLocalStream(info *interceptor.StreamInfo) {
	g.mu.Lock()
	defer g.mu.Unlock()
	if _, ok := g.streams[info.SSRC]; !ok {
		return
	}
	delete(g.streams, info.SSRC)
}

type BadY1 struct {
	interceptor.NoOp
	mu      sync.Mutex
	streams map[uint32]int
}

func (g *BadY1) UnbindLocalStream(info *interceptor.StreamInfo) {
	if len(info.RTCPFeedback) == 0 {
		return
	}
	g.mu.Lock()
	delete(g.streams, info.SSRC)
	g.mu.Unlock()
}

// ---- P4: what a protecting writer forwards, it has buffered -----------------------------------------------------------------

type p4batch struct {
	mu   sync.Mutex
	pkts []rtp.Packet
}

type GoodP4 struct {
	interceptor.NoOp
	b *p4batch
}

func (g *GoodP4) BindLocalStream(info *interceptor.StreamInfo, w interceptor.RTPWriter) interceptor.RTPWriter {
	ssrc := info.SSRC
	return interceptor.RTPWriterFunc(func(h *rtp.Header, p []byte, a interceptor.Attributes) (int, error) {
		if h.SSRC != ssrc {
			return w.Write(h, p, a)
		}
		g.b.mu.Lock()
		g.b.pkts = append(g.b.pkts, rtp.Packet{Header: h.Clone(), Payload: append([]byte(nil), p...)})
		full := len(g.b.pkts) == 4
		if full {
			g.b.pkts = nil
		}
		g.b.mu.Unlock()
		n, err := w.Write(h, p, a)
		if full {
			repair := rtp.Header{SequenceNumber: 1}
			_, _ = w.Write(&repair, []byte{0}, a)
		}
		return n, err
	})
}

type BadP4 struct {
	interceptor.NoOp
	b *p4batch
}

func (g *BadP4) BindLocalStream(info *interceptor.StreamInfo, w interceptor.RTPWriter) interceptor.RTPWriter {
	ssrc := info.SSRC
	return interceptor.RTPWriterFunc(func(h *rtp.Header, p []byte, a interceptor.Attributes) (int, error) {
		if h.SSRC != ssrc {
			return w.Write(h, p, a)
		}
		if len(p) == 0 {
			return w.Write(h, p, a) // "nothing to protect": a hole in the batch
		}
		g.b.mu.Lock()
		g.b.pkts = append(g.b.pkts, rtp.Packet{Header: h.Clone(), Payload: append([]byte(nil), p...)})
		full := len(g.b.pkts) == 4
		if full {
			g.b.pkts = nil
		}
		g.b.mu.Unlock()
		n, err := w.Write(h, p, a)
		if full {
			repair := rtp.Header{SequenceNumber: 1}
			_, _ = w.Write(&repair, []byte{0}, a)
		}
		return n, err
	})
}

// ---- T8: a walk that ends on equality starts from a different number --------------------------------------------------------

type t8ring struct {
	slots   [64]int
	newest  uint16
	started bool
}

func (r *t8ring) GoodT8add(seq uint16) {
	diff := seq - r.newest
	if diff == 0 {
		return
	}
	if diff < 1<<15 {
		for i := r.newest + 1; i != seq; i++ {
			r.slots[i%64] = 0
		}
		r.newest = seq
	}
	r.slots[seq%64] = 1
}

func (r *t8ring) BadT8add(seq uint16) {
	diff := seq - r.newest
	if diff < 1<<15 {
		for i := r.newest + 1; i != seq; i++ {
			r.slots[i%64] = 0
		}
		r.newest = seq
	}
	r.slots[seq%64] = 1
}

// ---- N2 (lifecycle form): what Unbind sets to nil, the packet path does not use untested -------------------------------------

type n2enc interface{ Encode([]byte) []byte }

type n2stream struct {
	mu        sync.Mutex
	GoodN2enc n2enc
	BadN2enc  n2enc
}

type n2icpt struct {
	interceptor.NoOp
	s *n2stream
}

func (i *n2icpt) BindLocalStream(_ *interceptor.StreamInfo, w interceptor.RTPWriter) interceptor.RTPWriter {
	st := i.s
	return interceptor.RTPWriterFunc(func(h *rtp.Header, p []byte, a interceptor.Attributes) (int, error) {
		st.mu.Lock()
		if st.GoodN2enc != nil {
			_ = st.GoodN2enc.Encode(p)
		}
		_ = st.BadN2enc.Encode(p)
		st.mu.Unlock()
		return w.Write(h, p, a)
	})
}

func (i *n2icpt) UnbindLocalStream(_ *interceptor.StreamInfo) {
	i.s.mu.Lock()
	i.s.GoodN2enc = nil
	i.s.BadN2enc = nil
	i.s.mu.Unlock()
}

// ---- Z1: what was read under a lock is not acted on under a later hold of the same lock ----------------------------------

type z1hist struct {
	mu   sync.RWMutex
	next uint64
	top  uint64
	pk   map[uint64]int
}

func (h *z1hist) GoodZ1report() []int {
	h.mu.Lock()
	defer h.mu.Unlock()
	var out []int
	for i := h.next; i <= h.top; i++ {
		out = append(out, h.pk[i])
		delete(h.pk, i)
	}
	h.next = h.top + 1
	return out
}

func (h *z1hist) BadZ1report() []int {
	h.mu.RLock()
	first, last := h.next, h.top
	var out []int
	for i := first; i <= last; i++ {
		out = append(out, h.pk[i])
	}
	h.mu.RUnlock()
	h.mu.Lock()
	for i := first; i <= last; i++ {
		delete(h.pk, i)
	}
	h.next = last + 1
	h.mu.Unlock()
	return out
}

func (h *z1hist) GoodZ1twice(v int) {
	h.mu.Lock()
	h.pk[1] = v
	h.mu.Unlock()
	h.mu.Lock()
	h.pk[2] = v
	h.mu.Unlock()
}

// ---- W3: a guard on an unsigned number does not ask whether it is negative -------------------------------------------------

func GoodW3step(last int64, delta int64) int64 {
	if last+delta-65536 >= 0 {
		return last + delta - 65536
	}
	return last + delta
}

func BadW3step(last uint64, delta uint64) uint64 {
	if last+delta-65536 >= 0 {
		return last + delta - 65536
	}
	return last + delta
}

// ---- W4: an interface value is compared with a constant of the type it holds ---------------------------------------------

func GoodW4negotiated(v any) bool {
	id, ok := v.(uint8)
	return ok && v != uint8(0) && id < 15
}

func BadW4negotiated(v any) bool {
	id, ok := v.(uint8)
	return ok && v != 0 && id < 15
}

// ---- X6: a packet is identified by the SSRC and the sequence number of one header -----------------------------------------------

type x6log struct{ seen map[uint64]bool }

func (l *x6log) file(ssrc uint32, seq uint16) { l.seen[uint64(ssrc)<<16|uint64(seq)] = true }

func GoodX6bind(l *x6log, w interceptor.RTPWriter) interceptor.RTPWriter {
	return interceptor.RTPWriterFunc(func(h *rtp.Header, b []byte, a interceptor.Attributes) (int, error) {
		l.file(h.SSRC, h.SequenceNumber)
		return w.Write(h, b, a)
	})
}

func BadX6bind(l *x6log, ssrc uint32, w interceptor.RTPWriter) interceptor.RTPWriter {
	return interceptor.RTPWriterFunc(func(h *rtp.Header, b []byte, a interceptor.Attributes) (int, error) {
		l.file(ssrc, h.SequenceNumber)
		return w.Write(h, b, a)
	})
}

// ---- U4: a memo is as old as what it was computed from ----------------------------------------------------------------------------

type GoodU4cover struct {
	masks [4][]bool
	n     int
	memo  [4][]int
}

func (c *GoodU4cover) covered(i int) []int {
	l := c.memo[i]
	if l == nil {
		l = make([]int, 0, c.n)
		for k := 0; k < c.n; k++ {
			if c.masks[i][k] {
				l = append(l, k)
			}
		}
		c.memo[i] = l
	}
	return l
}

func (c *GoodU4cover) update(n int) {
	c.n = n
	for i := range c.masks {
		c.masks[i] = make([]bool, n)
		c.memo[i] = nil
	}
}

type BadU4cover struct {
	masks [4][]bool
	n     int
	memo  [4][]int
}

func (c *BadU4cover) covered(i int) []int {
	l := c.memo[i]
	if l == nil {
		l = make([]int, 0, c.n)
		for k := 0; k < c.n; k++ {
			if c.masks[i][k] {
				l = append(l, k)
			}
		}
		c.memo[i] = l
	}
	return l
}

func (c *BadU4cover) update(n int) {
	c.n = n
	for i := range c.masks {
		c.masks[i] = make([]bool, n)
	}
}

// ---- S8 (once per packet): message counters count packets, not their entries ------------------------------------------------------

func recordGoodS8Count(st sStats, pkts []sPkt, ssrc uint32) sStats {
	for _, pk := range pkts {
		switch v := pk.(type) {
		case *sNack:
			hit := false
			for _, m := range v.SSRCs() {
				if m == ssrc {
					hit = true
				}
			}
			if hit {
				st.NackCount++
			}
		}
	}
	return st
}

func recordBadS8Count(st sStats, pkts []sPkt, ssrc uint32) sStats {
	for _, pk := range pkts {
		switch v := pk.(type) {
		case *sNack:
			for _, m := range v.SSRCs() {
				if m == ssrc {
					st.NackCount++
				}
			}
		}
	}
	return st
}

// ---- N4: what a map lookup returns for a missing key is nil ----------------------------------------------------------------------

type n4stream struct {
	mu  sync.Mutex
	buf []byte
}

func (s *n4stream) drop() {
	s.mu.Lock()
	s.buf = nil
	s.mu.Unlock()
}

type n4table struct {
	streams map[uint32]*n4stream
}

func (t *n4table) GoodN4unbind(ssrc uint32) {
	if s, ok := t.streams[ssrc]; ok {
		s.drop()
	}
	delete(t.streams, ssrc)
}

func (t *n4table) BadN4unbind(ssrc uint32) {
	s := t.streams[ssrc]
	delete(t.streams, ssrc)
	s.drop()
}

// ---- W2 (down-counting loops): the lower bound of a walk from the back cannot be negative -------------------------------------

func GoodW2down(hist []uint64, limit int, want uint64) bool {
	for i := min(limit, len(hist)) - 1; i >= 0; i-- {
		if hist[i] == want {
			return true
		}
	}
	return false
}

func BadW2down(hist []uint64, limit int, want uint64) bool {
	for i := len(hist) - 1; i >= len(hist)-limit; i-- {
		if hist[i] == want {
			return true
		}
	}
	return false
}

// ---- T3 (taken elsewhere): the buffer of a dequeued item goes back once ----------------------------------------------------------

type t3item struct {
	ssrc uint32
	buf  *[]byte
}

type t3drain struct {
	pool  sync.Pool
	queue []*t3item
	w     map[uint32]interceptor.RTPWriter
}

func (d *t3drain) deliverGood(it *t3item) bool {
	w, ok := d.w[it.ssrc]
	if !ok {
		return false
	}
	_, _ = w.Write(&rtp.Header{SSRC: it.ssrc}, *it.buf, nil)
	return true
}

func (d *t3drain) GoodT3run() {
	for len(d.queue) > 0 {
		it := d.queue[0]
		d.queue = d.queue[1:]
		if !d.deliverGood(it) {
			d.pool.Put(it.buf)
			continue
		}
		d.pool.Put(it.buf)
	}
}

func (d *t3drain) deliverBad(it *t3item) bool {
	w, ok := d.w[it.ssrc]
	if !ok {
		d.pool.Put(it.buf)
		return false
	}
	_, _ = w.Write(&rtp.Header{SSRC: it.ssrc}, *it.buf, nil)
	return true
}

func (d *t3drain) BadT3run() {
	for len(d.queue) > 0 {
		it := d.queue[0]
		d.queue = d.queue[1:]
		d.deliverBad(it)
		d.pool.Put(it.buf)
	}
}

// ---- O6: every sequence number a NACK names is looked at ---------------------------------------------------------------------------

type o6pair struct {
	first uint16
	mask  uint16
}

func (n *o6pair) Range(f func(seq uint16) bool) {
	if !f(n.first) {
		return
	}
	for i := uint16(0); i < 16; i++ {
		if n.mask&(1<<i) != 0 && !f(n.first+i+1) {
			return
		}
	}
}

func GoodO6resend(n *o6pair, w interceptor.RTPWriter) {
	n.Range(func(seq uint16) bool {
		if _, err := w.Write(&rtp.Header{SequenceNumber: seq}, nil, nil); err != nil {
			_ = err
		}
		return true
	})
}

func BadO6resend(n *o6pair, w interceptor.RTPWriter) {
	n.Range(func(seq uint16) bool {
		if _, err := w.Write(&rtp.Header{SequenceNumber: seq}, nil, nil); err != nil {
			return false
		}
		return true
	})
}

// ---- G5: the last report wins, for every figure alike ------------------------------------------------------------------------------

type g5ack struct {
	arrived bool
	at      int64
	ecn     uint8
}

type g5rec struct {
	Arrived bool
	At      int64
	ECN     uint8
}

func GoodG5apply(r *g5rec, ack g5ack) {
	r.Arrived = ack.arrived
	r.At = ack.at
	r.ECN = ack.ecn
}

func BadG5apply(r *g5rec, ack g5ack) {
	r.Arrived = r.Arrived || ack.arrived
	r.At = ack.at
	r.ECN = ack.ecn
}

// ---- S2 (blocks of one report): the loop over a report's blocks is exhaustive -------------------------------------------------------

type sBlockRR struct {
	ssrc uint32
	lost int64
}

func recordGoodS2blocks(st sStats, blocks []sBlockRR, ssrc uint32) sStats {
	for _, b := range blocks {
		if b.ssrc != ssrc {
			continue
		}
		st.Lost = b.lost
	}
	return st
}

func recordBadS2blocks(st sStats, blocks []sBlockRR, ssrc uint32) sStats {
	for _, b := range blocks {
		if b.ssrc != ssrc {
			continue
		}
		st.Lost = b.lost
		break
	}
	return st
}

// ---- P2 (every repair packet is attempted) --------------------------------------------------------------------------------------

type GoodP2loop struct {
	interceptor.NoOp
	repair func() []rtp.Packet
}

func (g *GoodP2loop) BindLocalStream(_ *interceptor.StreamInfo, w interceptor.RTPWriter) interceptor.RTPWriter {
	return interceptor.RTPWriterFunc(func(h *rtp.Header, p []byte, a interceptor.Attributes) (int, error) {
		n, err := w.Write(h, p, a)
		var errs []error
		if err != nil {
			errs = append(errs, err)
		}
		for _, r := range g.repair() {
			hdr := r.Header
			if _, err := w.Write(&hdr, r.Payload, a); err != nil {
				errs = append(errs, err)
			}
		}
		if len(errs) > 0 {
			return n, errs[0]
		}
		return n, nil
	})
}

type BadP2loop struct {
	interceptor.NoOp
	repair func() []rtp.Packet
}

func (g *BadP2loop) BindLocalStream(_ *interceptor.StreamInfo, w interceptor.RTPWriter) interceptor.RTPWriter {
	return interceptor.RTPWriterFunc(func(h *rtp.Header, p []byte, a interceptor.Attributes) (int, error) {
		n, err := w.Write(h, p, a)
		if err != nil {
			return n, err
		}
		for _, r := range g.repair() {
			hdr := r.Header
			if _, err := w.Write(&hdr, r.Payload, a); err != nil {
				return n, err
			}
		}
		return n, nil
	})
}

// ---- T9: what goes back into a pool came out of it ---------------------------------------------------------------------------------

type GoodT9pkt struct{ buf *[]byte }

type GoodT9factory struct{ pool sync.Pool }

func (f *GoodT9factory) make(payload []byte) *GoodT9pkt {
	pk := &GoodT9pkt{}
	b, _ := f.pool.Get().(*[]byte)
	pk.buf = b
	copy(*pk.buf, payload)
	return pk
}

func (f *GoodT9factory) release(pk *GoodT9pkt) { f.pool.Put(pk.buf) }

type BadT9pkt struct{ buf *[]byte }

type BadT9factory struct{ pool sync.Pool }

func (f *BadT9factory) make(payload []byte) *BadT9pkt {
	pk := &BadT9pkt{}
	if len(payload) > 1460 {
		own := make([]byte, len(payload))
		pk.buf = &own
	} else {
		b, _ := f.pool.Get().(*[]byte)
		pk.buf = b
	}
	copy(*pk.buf, payload)
	return pk
}

func (f *BadT9factory) release(pk *BadT9pkt) { f.pool.Put(pk.buf) }

// ---- Y2: Close passes Close on -----------------------------------------------------------------------------------------------------

type y2pacer struct{ done chan struct{} }

func (p *y2pacer) Close() error { close(p.done); return nil }

type GoodY2owner struct {
	pacer *y2pacer
	ctl   *y2pacer
}

func (o *GoodY2owner) Close() error {
	if err := o.ctl.Close(); err != nil {
		return err
	}
	return o.pacer.Close()
}

type BadY2owner struct {
	pacer *y2pacer
	owns  bool
}

func (o *BadY2owner) Close() error {
	if !o.owns {
		return nil
	}
	return o.pacer.Close()
}

// ---- X7: an Attributes map belongs to one packet ------------------------------------------------------------------------------------

type GoodX7reader struct{ interceptor.NoOp }

func (g *GoodX7reader) BindRemoteStream(_ *interceptor.StreamInfo, r interceptor.RTPReader) interceptor.RTPReader {
	return interceptor.RTPReaderFunc(func(b []byte, a interceptor.Attributes) (int, interceptor.Attributes, error) {
		n, attr, err := r.Read(b, a)
		if err != nil {
			return 0, nil, err
		}
		if attr == nil {
			attr = make(interceptor.Attributes)
		}
		if _, err := attr.GetRTPHeader(b[:n]); err != nil {
			return 0, nil, err
		}
		return n, attr, nil
	})
}

type BadX7reader struct{ interceptor.NoOp }

func (g *BadX7reader) BindRemoteStream(_ *interceptor.StreamInfo, r interceptor.RTPReader) interceptor.RTPReader {
	scratch := make(interceptor.Attributes)
	return interceptor.RTPReaderFunc(func(b []byte, a interceptor.Attributes) (int, interceptor.Attributes, error) {
		n, attr, err := r.Read(b, a)
		if err != nil {
			return 0, nil, err
		}
		if attr == nil {
			attr = scratch
		}
		if _, err := attr.GetRTPHeader(b[:n]); err != nil {
			return 0, nil, err
		}
		return n, attr, nil
	})
}

// ---- N5: a callback that can be taken away is tested before it is called ---------------------------------------------------------------

type GoodN5est struct{ onChange func(int) }

func (e *GoodN5est) OnChange(f func(int)) { e.onChange = f }

func (e *GoodN5est) update(v int) {
	if e.onChange != nil {
		go e.onChange(v)
	}
}

type BadN5est struct{ onChange func(int) }

func (e *BadN5est) OnChange(f func(int)) { e.onChange = f }

func (e *BadN5est) update(v int) {
	go e.onChange(v)
}

// ---- Y3: Unbind tears down what Close tears down -----------------------------------------------------------------------------------

type y3buf struct{ items []int }

func (b *y3buf) Clear() { b.items = nil }

type GoodY3jb struct {
	interceptor.NoOp
	buf   *y3buf
	attrs map[int]interceptor.Attributes
}

func (g *GoodY3jb) UnbindRemoteStream(_ *interceptor.StreamInfo) {
	g.buf.Clear()
	clear(g.attrs)
}

func (g *GoodY3jb) Close() error {
	g.buf.Clear()
	clear(g.attrs)
	return nil
}

type BadY3jb struct {
	interceptor.NoOp
	buf   *y3buf
	attrs map[int]interceptor.Attributes
}

func (g *BadY3jb) UnbindRemoteStream(_ *interceptor.StreamInfo) {
	g.buf.Clear()
}

func (g *BadY3jb) Close() error {
	g.buf.Clear()
	clear(g.attrs)
	return nil
}

// ---- I1 (one counter for the whole transport) ------------------------------------------------------------------------------------------

type BadI1table struct {
	interceptor.NoOp
	next [256]uint32
}

func (g *BadI1table) BindLocalStream(info *interceptor.StreamInfo, w interceptor.RTPWriter) interceptor.RTPWriter {
	var id uint8
	for _, e := range info.RTPHeaderExtensions {
		if e.URI == fxTransportCCURI {
			id = uint8(e.ID)
			break
		}
	}
	if id == 0 {
		return w
	}
	ctr := &g.next[id]
	return interceptor.RTPWriterFunc(func(h *rtp.Header, p []byte, a interceptor.Attributes) (int, error) {
		seq := atomic.AddUint32(ctr, 1) - 1
		if err := h.SetExtension(id, []byte{byte(seq >> 8), byte(seq)}); err != nil {
			return 0, err
		}
		return w.Write(h, p, a)
	})
}

// ---- Z2: whoever is sent to listens in every state -----------------------------------------------------------------------------------

type GoodZ2svc struct {
	done   chan struct{}
	pkts   chan int
	unbind chan uint32
}

func (s *GoodZ2svc) Push(v int) {
	select {
	case <-s.done:
	case s.pkts <- v:
	}
}

func (s *GoodZ2svc) Unbind(ssrc uint32) {
	select {
	case <-s.done:
	case s.unbind <- ssrc:
	}
}

func (s *GoodZ2svc) loop() {
	select {
	case <-s.done:
		return
	case <-s.pkts:
	case <-s.unbind:
	}
	for {
		select {
		case <-s.done:
			return
		case <-s.pkts:
		case <-s.unbind:
		}
	}
}

type BadZ2svc struct {
	done   chan struct{}
	pkts   chan int
	unbind chan uint32
}

func (s *BadZ2svc) Push(v int) {
	select {
	case <-s.done:
	case s.pkts <- v:
	}
}

func (s *BadZ2svc) Unbind(ssrc uint32) {
	select {
	case <-s.done:
	case s.unbind <- ssrc:
	}
}

func (s *BadZ2svc) loop() {
	select {
	case <-s.done:
		return
	case <-s.pkts:
	}
	for {
		select {
		case <-s.done:
			return
		case <-s.pkts:
		case <-s.unbind:
		}
	}
}

// ---- E8: nothing is left below the cursor ---------------------------------------------------------------------------------------------

type GoodE8log struct {
	init bool
	next int64
	last int64
	log  map[int64]int
}

func (l *GoodE8log) add(seq int64, v int) {
	if !l.init {
		l.init = true
		l.next = seq
	}
	if seq < l.next {
		return
	}
	l.log[seq] = v
	if seq > l.last {
		l.last = seq
	}
}

func (l *GoodE8log) cap(max int64) {
	if l.last-l.next+1 > max {
		newNext := l.last - max + 1
		for seq := range l.log {
			if seq < newNext {
				delete(l.log, seq)
			}
		}
		l.next = newNext
	}
}

type BadE8log struct {
	init bool
	next int64
	last int64
	log  map[int64]int
}

func (l *BadE8log) add(seq int64, v int) {
	if !l.init {
		l.init = true
		l.next = seq
	}
	if seq < l.next {
		return
	}
	l.log[seq] = v
	if seq > l.last {
		l.last = seq
	}
}

func (l *BadE8log) cap(max int64) {
	if l.last-l.next+1 > max {
		l.next = l.last - max + 1
	}
}

type BadZ2off struct {
	done chan struct{}
	pkts chan int
}

func (s *BadZ2off) Push(v int) {
	select {
	case <-s.done:
	case s.pkts <- v:
	}
}

func (s *BadZ2off) loop(fail func(int) bool) {
	pkts := s.pkts
	for {
		select {
		case <-s.done:
			return
		case v := <-pkts:
			if fail(v) {
				pkts = nil
			}
		}
	}
}

type BadZ2self struct {
	done chan struct{}
	reqs chan int
	tick chan struct{}
}

func (s *BadZ2self) Force(v int) {
	select {
	case <-s.done:
	case s.reqs <- v:
	}
}

func (s *BadZ2self) loop() {
	for {
		select {
		case <-s.done:
			return
		case <-s.reqs:
		case <-s.tick:
			s.Force(0)
		}
	}
}

// ---- Z1 (method form): a locked getter's result handed to a locked mutator ---------------------------------------------------------------

type z1buf struct {
	mu   sync.Mutex
	head uint16
	q    map[uint16]int
}

func (b *z1buf) Head() uint16 {
	b.mu.Lock()
	defer b.mu.Unlock()
	return b.head
}

func (b *z1buf) PopAt(seq uint16) int {
	b.mu.Lock()
	defer b.mu.Unlock()
	v := b.q[seq]
	delete(b.q, seq)
	b.head++
	return v
}

type z1owner struct {
	mu  sync.Mutex
	buf *z1buf
}

func (o *z1owner) GoodZ1pop() int {
	o.mu.Lock()
	defer o.mu.Unlock()
	return o.buf.PopAt(o.buf.Head())
}

func BadZ1pop(b *z1buf) int {
	return b.PopAt(b.Head())
}

// ---- C5 (through a call): a blocking helper called under a lock that every way out needs --------------------------------------------

type BadC5through struct {
	mu   sync.Mutex
	done chan struct{}
	reqs chan uint32
}

func (s *BadC5through) Start() {
	s.mu.Lock()
	defer s.mu.Unlock()
	go s.loop()
}

func (s *BadC5through) loop() {
	for {
		select {
		case <-s.done:
			return
		case <-s.reqs:
		}
	}
}

func (s *BadC5through) Force(ssrc uint32) {
	select {
	case <-s.done:
	case s.reqs <- ssrc:
	}
}

func (s *BadC5through) Bind(ssrc uint32) {
	s.mu.Lock()
	defer s.mu.Unlock()
	s.Force(ssrc)
}

func (s *BadC5through) Close() {
	s.mu.Lock()
	defer s.mu.Unlock()
	close(s.done)
}
