package fx

import (
	"errors"
	"sync"
)

// ---- T1: reference-counted ring ---------------------------------------------------------------------------------------

type refPkt struct {
	n   int
	seq uint16
}

func (p *refPkt) Retain() error {
	if p.n == 0 {
		return errors.New("released")
	}
	p.n++
	return nil
}
func (p *refPkt) Release()  { p.n-- }
func (p *refPkt) Data() int { return p.n }

type refRing struct {
	slots   []*refPkt
	started bool
	size    uint16
	newest  uint16
}

// Get is the accessor named in the checker's table: the good version of retain-before-return.
func (r *refRing) Get(seq uint16) *refPkt {
	p := r.slots[int(seq)%len(r.slots)]
	if p != nil {
		if p.seq != seq {
			return nil
		}
		if err := p.Retain(); err != nil {
			return nil
		}
	}
	return p
}

func (r *refRing) GoodT1Add(p *refPkt) {
	idx := int(p.seq) % len(r.slots)
	prev := r.slots[idx]
	if prev != nil {
		prev.Release()
	}
	r.slots[idx] = p
}

func (r *refRing) BadT1AddLeaks(p *refPkt) {
	idx := int(p.seq) % len(r.slots)
	r.slots[idx] = p
}

func (r *refRing) BadT1AddDouble(p *refPkt) {
	idx := int(p.seq) % len(r.slots)
	prev := r.slots[idx]
	if prev != nil {
		prev.Release()
		if prev.seq != p.seq {
			prev.Release()
		}
	}
	r.slots[idx] = p
}

func GoodT1Use(r *refRing, seq uint16) int {
	p := r.Get(seq)
	if p == nil {
		return 0
	}
	d := p.Data()
	p.Release()
	return d
}

func BadT1UseLeak(r *refRing, seq uint16) int {
	p := r.Get(seq)
	if p != nil {
		if p.Data() > 3 {
			return 3
		}
		p.Release()
	}
	return 0
}

func BadT1UseAfterRelease(r *refRing, seq uint16) int {
	p := r.Get(seq)
	if p == nil {
		return 0
	}
	p.Release()
	return p.Data()
}

// ---- T2: tag check of a direct-mapped slot ------------------------------------------------------------------------------

type GoodT2ring struct{ refRing }

func (r *refRing) GoodT2Lookup(seq uint16) *refPkt {
	p := r.slots[int(seq)%len(r.slots)]
	if p != nil && p.seq != seq {
		return nil
	}
	return p
}

func (r *refRing) BadT2Lookup(seq uint16) *refPkt {
	p := r.slots[int(seq)%len(r.slots)]
	return p
}

func BadT1UseMemAfterRelease(r *refRing, seq uint16) int {
	p := r.Get(seq)
	if p == nil {
		return 0
	}
	b := p.Bytes()
	p.Release()
	return sum(b)
}

func (p *refPkt) Bytes() []byte { return []byte{byte(p.n)} }

func sum(b []byte) int {
	s := 0
	for _, x := range b {
		s += int(x)
	}
	return s
}

// ---- T3 ---------------------------------------------------------------------------------------------------------------

var t3pool = sync.Pool{New: func() any { b := make([]byte, 1500); return &b }}

// GoodT3Scratch gives the buffer back exactly once (deferred).
func GoodT3Scratch(src []byte) int {
	buf, ok := t3pool.Get().(*[]byte)
	if !ok {
		return 0
	}
	defer t3pool.Put(buf)
	if len(src) > len(*buf) {
		return -1
	}
	return copy(*buf, src)
}

// BadT3Scratch gives it back twice on the error path (explicitly and through the defer).
func BadT3Scratch(src []byte) int {
	buf, ok := t3pool.Get().(*[]byte)
	if !ok {
		return 0
	}
	defer t3pool.Put(buf)
	if len(src) > len(*buf) {
		t3pool.Put(buf)
		return -1
	}
	return copy(*buf, src)
}

// ---- T4 ---------------------------------------------------------------------------------------------------------------

type t4item struct {
	buf  *[]byte
	size int
}

type t4sink interface{ Write(b []byte) int }

// GoodT4Drain hands each item's bytes downstream and only then gives the buffer back; the next iteration works on a
// new item.
func GoodT4Drain(q []*t4item, w t4sink) int {
	n := 0
	for len(q) > 0 {
		next := q[0]
		q = q[1:]
		if next.size == 0 {
			t3pool.Put(next.buf)
			continue
		}
		n += w.Write((*next.buf)[:next.size])
		t3pool.Put(next.buf)
	}
	return n
}

// GoodT4Copy copies out of the buffer before giving it back and returns the copy.
func GoodT4Copy(it *t4item) []byte {
	out := append([]byte(nil), (*it.buf)[:it.size]...)
	first := (*it.buf)[0]
	t3pool.Put(it.buf)
	if first == 0 {
		return nil
	}
	return out
}

// BadT4Drain gives the buffer back "on every path" before the downstream Write that still reads it.
func BadT4Drain(q []*t4item, w t4sink) int {
	n := 0
	for len(q) > 0 {
		next := q[0]
		q = q[1:]
		payload := (*next.buf)[:next.size]
		t3pool.Put(next.buf)
		if next.size == 0 {
			continue
		}
		n += w.Write(payload)
	}
	return n
}

// BadT4Return returns a slice of the pooled buffer although the deferred Put has run by then.
func BadT4Return(src []byte) []byte {
	buf, ok := t3pool.Get().(*[]byte)
	if !ok {
		return nil
	}
	defer t3pool.Put(buf)
	n := copy(*buf, src)
	return (*buf)[:n]
}

func t4recycle(it *t4item) { t3pool.Put(it.buf) }

// BadT4Helper gives the buffer back through a helper and reads it afterwards.
func BadT4Helper(it *t4item) byte {
	t4recycle(it)
	return (*it.buf)[0]
}

// ---- T5 ---------------------------------------------------------------------------------------------------------------

// GoodT5Xor marshals into the open-ended view and reads back only what was written.
func GoodT5Xor(acc, src []byte) {
	buf, ok := t3pool.Get().(*[]byte)
	if !ok {
		return
	}
	defer t3pool.Put(buf)
	n := copy((*buf)[2:], src)
	for i, b := range (*buf)[2 : 2+n] {
		acc[i] ^= b
	}
}

// BadT5Xor folds everything behind the header into the accumulator, including what an earlier user left there.
func BadT5Xor(acc, src []byte) {
	buf, ok := t3pool.Get().(*[]byte)
	if !ok {
		return
	}
	defer t3pool.Put(buf)
	copy((*buf)[2:], src)
	acc = append(acc[:0], (*buf)[2:]...)
	_ = acc
}

// ---- T6 ---------------------------------------------------------------------------------------------------------------

func (r *refRing) dropSlot(idx int) {
	if prev := r.slots[idx]; prev != nil {
		prev.Release()
	}
}

// GoodT6Skip releases the occupants of the skipped slots and empties the slots; the final slot gets the new packet.
func (r *refRing) GoodT6Skip(from, to int, p *refPkt) {
	for i := from; i != to; i++ {
		idx := i % len(r.slots)
		r.dropSlot(idx)
		r.slots[idx] = nil
	}
	idx := to % len(r.slots)
	r.dropSlot(idx)
	r.slots[idx] = p
}

// BadT6Skip lost the `= nil` when the release moved into the helper: the skipped slots keep their released packets.
func (r *refRing) BadT6Skip(from, to int, p *refPkt) {
	for i := from; i != to; i++ {
		r.dropSlot(i % len(r.slots))
	}
	idx := to % len(r.slots)
	r.dropSlot(idx)
	r.slots[idx] = p
}

// ---- T7: a packet stored without becoming the newest lies inside the window -----------------------------------------

func (r *refRing) vacate(idx uint16) {
	if prev := r.slots[idx]; prev != nil {
		prev.Release()
	}
	r.slots[idx] = nil
}

// GoodT7Add drops a late packet that is older than the window.
func (r *refRing) GoodT7Add(p *refPkt) {
	seq := p.seq
	if d := seq - r.newest; d != 0 && d < 1<<15 {
		for i := r.newest + 1; i != seq; i++ {
			r.vacate(i % r.size)
		}
		r.newest = seq
	} else if r.newest-seq >= r.size {
		p.Release()
		return
	}
	r.vacate(seq % r.size)
	r.slots[seq%r.size] = p
}

// BadT7Add stores every late packet, whatever its age.
func (r *refRing) BadT7Add(p *refPkt) {
	seq := p.seq
	if d := seq - r.newest; d != 0 && d < 1<<15 {
		for i := r.newest + 1; i != seq; i++ {
			r.vacate(i % r.size)
		}
		r.newest = seq
	}
	r.vacate(seq % r.size)
	r.slots[seq%r.size] = p
}
