module fixtures

go 1.24.0

require (
	github.com/pion/interceptor v0.0.0
	github.com/pion/rtcp v1.2.17
	github.com/pion/rtp v1.10.5
)

require github.com/pion/randutil v0.1.0 // indirect

replace github.com/pion/interceptor => /repo
