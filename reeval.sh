#!/bin/bash
# Regression aid (not a registered check): applies every seeded, benign and catalogue patch to a scratch copy of /repo's
# HEAD and scans all properties in one load. Prints, per patch, which properties fire.
#   seeds/mutants are expected to fire (at least their own property), benign patches are expected to be silent.
. /verif/env.sh
cd /verif/checker && go build -o /verif/bin/ivcheck . || exit 2
base=$(mktemp -d /tmp/reeval.XXXX)
git -C /repo archive HEAD | tar -x -C $base --one-top-level=head
one() {
  patch=$1; name=$2; base=$3
  d=$base/w.$$.$RANDOM
  cp -r $base/head $d
  if ! (cd $d && patch -p1 -s --no-backup-if-mismatch < $patch >/dev/null 2>&1); then echo "$name PATCH-FAILED"; rm -rf $d; return; fi
  out=$(/verif/bin/ivcheck -p scan -repo $d 2>&1)
  echo "$name $(echo "$out" | grep '^SCAN' )"
  echo "$out" | grep -v '^SCAN' | sed "s|^|    $name: |" | cut -c1-${W:-260} > $base/$name.detail
  rm -rf $d
}
export -f one
{
  for s in /verif/seeded/*/; do echo "$s/patch.diff seed:$(basename $s)"; done
  for b in /verif/benign/*/; do echo "$b/patch.diff benign:$(basename $b)"; done
  if [ -z "$NOMUT" ]; then for m in /verif/mutants/*.diff; do echo "$m mutant:$(basename $m .diff)"; done; fi
} | xargs -P ${J:-8} -L 1 bash -c 'one $0 $1 '$base | sort > $base/summary.txt
cat $base/summary.txt
echo "---- details of benign alarms:"
for f in $base/benign:*.detail; do cat $f; done
mkdir -p /tmp/reeval_last && rm -rf /tmp/reeval_last/* && cp $base/*.detail $base/summary.txt /tmp/reeval_last/ 2>/dev/null
if [ -n "$UPDATE" ]; then
for f in /tmp/reeval_last/seed:*.detail; do sid=$(basename $f .detail); sid=${sid#seed:}; [ -d /verif/seeded/$sid ] && python3 /verif/scan2checks.py $f /verif/seeded/$sid; done
python3 /verif/seed_finalize.py | grep -c "detected by \[" | sed 's/^/seeds detected: /'
fi
rm -rf $base
