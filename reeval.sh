#!/bin/bash
# Regression aid (not a registered check): applies every seeded, benign and catalogue patch to a scratch copy of /repo's
# HEAD and scans all properties in one load. Prints, per patch, which properties fire.
#   seeds/mutants are expected to fire (at least their own property), benign patches are expected to be silent.
. /verif/env.sh
cd /verif/checker && go build -o /verif/bin/ivcheck . || exit 2
base=$(mktemp -d /tmp/reeval.XXXX)
git -C /repo archive HEAD | tar -x -C $base --one-top-level=head
one() {
  patch=$1; name=$2; base=$3
  d=$base/w.$$.$RANDOM
  cp -r $base/head $d
  if ! (cd $d && patch -p1 -s --no-backup-if-mismatch < $patch >/dev/null 2>&1); then echo "$name PATCH-FAILED"; rm -rf $d; return; fi
  out=$(/verif/bin/ivcheck -p scan -repo $d 2>&1)
  echo "$name $(echo "$out" | grep '^SCAN' )"
  echo "$out" | grep -v '^SCAN' | sed "s|^|    $name: |" | cut -c1-${W:-260} > $base/$name.detail
  rm -rf $d
}
export -f one
{
  for s in /verif/seeded/*/; do echo "$s/patch.diff seed:$(basename $s)"; done
  for b in /verif/benign/*/; do echo "$b/patch.diff benign:$(basename $b)"; done
  if [ -z "$NOMUT" ]; then for m in /verif/mutants/*.diff; do echo "$m mutant:$(basename $m .diff)"; done; fi
} | xargs -P ${J:-8} -L 1 bash -c 'one $0 $1 '$base | sort > $base/summary.txt
cat $base/summary.txt
echo "---- details of benign alarms:"
for f in $base/benign:*.detail; do cat $f; done
mkdir -p /tmp/reeval_last && rm -rf /tmp/reeval_last/* && cp $base/*.detail $base/summary.txt /tmp/reeval_last/ 2>/dev/null
if [ -n "$UPDATE" ]; then python3 - <<'PY'
# rewrite seeded/<id>/checks.txt from the scan details (format read by seed_finalize.py)
import glob, os, re, collections
for f in glob.glob('/tmp/reeval_last/seed:*.detail'):
    sid = os.path.basename(f)[5:-7]
    by = collections.OrderedDict()
    for l in open(f):
        m = re.match(r'\s*seed:\S+: (C\d+) (violated|undecided) (\S+) (.*)', l)
        if m:
            by.setdefault(m.group(1), []).append('violated: %s %s' % (m.group(3), m.group(4).strip()))
        m = re.match(r'\s*seed:\S+: (C\d+) anchor-unresolved (.*)', l)
        if m:
            by.setdefault(m.group(1), []).append('checker failure: anchor unresolved ' + m.group(2))
    d = '/verif/seeded/%s/' % sid
    if os.path.isdir(d):
        with open(d + 'checks.txt', 'w') as out:
            for p, ls in by.items():
                out.write('== %s exit=1\n' % p)
                for x in ls[:6]:
                    out.write(x + '\n')
PY
python3 /verif/seed_finalize.py | grep -c "detected by \[" | sed 's/^/seeds detected: /'
fi
rm -rf $base
