#!/bin/sh
# usage: run.sh <property-id> [quick|thorough]   — static check of one property against /repo's working tree
. /verif/env.sh
cd /verif/checker || exit 2
if [ ! -x /verif/bin/ivcheck ] || [ -n "$(find /verif/checker -name '*.go' -newer /verif/bin/ivcheck 2>/dev/null | head -1)" ]; then
  mkdir -p /verif/bin && go build -o /verif/bin/ivcheck . || exit 2
fi
exec /verif/bin/ivcheck -p "$1" -tier "${2:-${VERIF_TIER:-quick}}"
