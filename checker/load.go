package main

import (
	"fmt"
	"go/token"
	"go/types"
	"os"
	"sort"
	"strings"

	"golang.org/x/tools/go/callgraph"
	"golang.org/x/tools/go/callgraph/cha"
	"golang.org/x/tools/go/callgraph/vta"
	"golang.org/x/tools/go/packages"
	"golang.org/x/tools/go/ssa"
	"golang.org/x/tools/go/ssa/ssautil"
)

const modPath = "github.com/pion/interceptor"

// libraryPkgs is the analysed universe (DESIGN.md §2.2), relative to the module path. The loader fails if one of
// them does not load: a static tool sees only what was parsed.
var libraryPkgs = []string{
	"", "internal/cc", "internal/ntp", "internal/rtpbuffer", "internal/sequencenumber",
	"pkg/cc", "pkg/flexfec", "pkg/flexfec/util", "pkg/gcc", "pkg/intervalpli", "pkg/jitterbuffer",
	"pkg/nack", "pkg/pacing", "pkg/packetdump", "pkg/report", "pkg/rfc8888", "pkg/rtpfb", "pkg/stats", "pkg/twcc",
}

// Prog is one loaded, type-checked, SSA-built program plus the indexes all engines share.
type Prog struct {
	Dir      string
	Config   string // description of the build configuration (GOARCH/tags)
	Fset     *token.FileSet
	Pkgs     []*packages.Package
	SSA      *ssa.Program
	Universe map[*ssa.Package]bool // packages whose code is subject to the rules
	Funcs    []*ssa.Function       // every function (incl. closures and methods) of the universe, sorted by key
	funcSet  map[*ssa.Function]bool
	cha      *callgraph.Graph
	vtaG     *callgraph.Graph
	UseVTA   bool
	Root     *types.Package // the interceptor root package (github.com/pion/interceptor)
	ifaceCache map[string]*types.Interface
	cellStores map[ssa.Value][]*ssa.Store
	fieldStoresOnce bool
	fieldStores map[*types.Var][]*ssa.Store
	pktClosureSet map[*ssa.Function]bool
	lockA *lockAnalysis
	ctorCache map[*ssa.Function]bool
	wocCache  map[string]bool
	mutCache map[string]bool
	sharedStoreCache map[string]bool
	acqCache map[*ssa.Function]map[string]string
	pathFactCache map[*ssa.Function]map[*ssa.BasicBlock][]disjunct
	callSiteCache map[*ssa.Function][]ssa.CallInstruction
	valueUse map[*ssa.Function]bool
	ifaceMethodNames map[string]bool
	wrapCache map[*ssa.Function]wrapInfo
	baseline  *symbols // inventory of the confirmed tree (rename.go)
	keySubst map[ssa.Value]ssa.Value // pureKey renders a key under this substitution (first-iteration specialisation of φs)
	RenameNotes []string // renamed entities mapped back to their baseline names (rename.go)
	Fixture bool // analysing /verif/fixtures: engines use the fixture tables
}

// excludedFunc reports declared work-in-progress code that no property anchors (DESIGN.md §2.2).
func excludedFunc(f *ssa.Function) bool {
	k := funcKey(f)
	return strings.Contains(k, "FlexEncoder20") || strings.Contains(k, "pkg/flexfec.fecDecoder") ||
		strings.Contains(k, "pkg/flexfec.FECDecoder") || strings.Contains(k, "pkg/flexfec.newFECDecoder")
}

// Load type-checks and SSA-builds the module rooted at dir. universe lists package paths (full import paths)
// that are subject to rules; nil means the library packages of pion/interceptor.
func Load(dir string, env []string, tags string, universe []string) (*Prog, error) {
	cfg := &packages.Config{
		Mode:  packages.LoadAllSyntax,
		Dir:   dir,
		Env:   append(os.Environ(), env...),
		Tests: false,
	}
	if tags != "" {
		cfg.BuildFlags = []string{"-tags=" + tags}
	}
	pkgs, err := packages.Load(cfg, "./...")
	if err != nil {
		return nil, fmt.Errorf("packages.Load: %w", err)
	}
	if len(pkgs) == 0 {
		return nil, fmt.Errorf("no packages loaded from %s", dir)
	}
	nerr := 0
	packages.Visit(pkgs, nil, func(p *packages.Package) {
		for _, e := range p.Errors {
			fmt.Fprintf(os.Stderr, "load error: %s: %v\n", p.PkgPath, e)
			nerr++
		}
	})
	if nerr > 0 {
		return nil, fmt.Errorf("%d type/load errors in %s", nerr, dir)
	}
	prog, _ := ssautil.AllPackages(pkgs, ssa.InstantiateGenerics)
	prog.Build()

	p := &Prog{Dir: dir, Fset: pkgs[0].Fset, Pkgs: pkgs, SSA: prog, Universe: map[*ssa.Package]bool{},
		funcSet: map[*ssa.Function]bool{}, ifaceCache: map[string]*types.Interface{}}
	p.Config = strings.Join(env, " ")
	if tags != "" {
		p.Config += " tags=" + tags
	}
	if p.Config == "" {
		p.Config = "default"
	}
	want := map[string]bool{}
	if universe == nil {
		for _, l := range libraryPkgs {
			if l == "" {
				want[modPath] = true
			} else {
				want[modPath+"/"+l] = true
			}
		}
	} else {
		for _, u := range universe {
			want[u] = true
		}
	}
	found := map[string]bool{}
	for _, sp := range prog.AllPackages() {
		if sp.Pkg.Path() == modPath {
			p.Root = sp.Pkg
		}
		if want[sp.Pkg.Path()] {
			p.Universe[sp] = true
			found[sp.Pkg.Path()] = true
		}
	}
	for w := range want {
		if !found[w] {
			return nil, fmt.Errorf("universe package %s was not loaded", w)
		}
	}
	if p.Root == nil {
		return nil, fmt.Errorf("root package %s not loaded", modPath)
	}
	addFn := func(f *ssa.Function) {}
	addFn = func(f *ssa.Function) {
		// the body of a range-over-func loop is compiled into a synthetic yield function: it is source code like any
		// other literal
		if f == nil || f.Blocks == nil || (f.Synthetic != "" && !isYieldFn(f)) || p.funcSet[f] || excludedFunc(f) {
			return
		}
		p.Funcs = append(p.Funcs, f)
		p.funcSet[f] = true
		for _, a := range f.AnonFuncs {
			addFn(a)
		}
	}
	// every declared function and every declared method of every named type of the universe (not only those the
	// program can reach at run time), plus function literals nested in them
	for sp := range p.Universe {
		for _, m := range sp.Members {
			switch m := m.(type) {
			case *ssa.Function:
				addFn(m)
			case *ssa.Type:
				if n, ok := m.Type().(*types.Named); ok {
					for i := 0; i < n.NumMethods(); i++ {
						addFn(prog.FuncValue(n.Method(i)))
					}
				}
			}
		}
	}
	// instantiations of the universe's generic functions
	for f := range ssautil.AllFunctions(prog) {
		if f.Pkg == nil && f.Origin() != nil && f.Origin().Pkg != nil && p.Universe[f.Origin().Pkg] {
			addFn(f)
			// a concrete instance (go/ssa marks it synthetic, so it is not enumerated as a source of obligations — the
			// generic body is) is still repository code: rules that follow a call into a helper follow it
			if f.Blocks != nil && strings.HasPrefix(f.Synthetic, "instance of ") {
				var mark func(g *ssa.Function)
				mark = func(g *ssa.Function) {
					p.funcSet[g] = true
					for _, a := range g.AnonFuncs {
						mark(a)
					}
				}
				mark(f)
			}
		}
	}
	sort.Slice(p.Funcs, func(i, j int) bool { return funcKey(p.Funcs[i]) < funcKey(p.Funcs[j]) })
	if len(p.Funcs) == 0 {
		return nil, fmt.Errorf("no functions in universe")
	}
	if universe == nil {
		p.RenameNotes = p.installRenames()
		sort.Slice(p.Funcs, func(i, j int) bool { return funcKey(p.Funcs[i]) < funcKey(p.Funcs[j]) })
	}
	return p, nil
}

func (p *Prog) InUniverse(f *ssa.Function) bool { return p.funcSet[f] }

// CG returns the call graph for the current tier: CHA (quick) or VTA seeded by CHA (thorough).
func (p *Prog) CG() *callgraph.Graph {
	if p.cha == nil {
		p.cha = cha.CallGraph(p.SSA)
	}
	if !p.UseVTA {
		return p.cha
	}
	if p.vtaG == nil {
		p.vtaG = vta.CallGraph(ssautil.AllFunctions(p.SSA), p.cha)
	}
	return p.vtaG
}

// Callees returns the possible callees of a call instruction (static callee, or call-graph edges for dynamic calls),
// restricted to functions with bodies.
func (p *Prog) Callees(site ssa.CallInstruction) []*ssa.Function { return p.callees(site, false) }

// CalleesU is Callees with bound-method wrappers and thunks (x.m used as a value) replaced by the method they call.
func (p *Prog) CalleesU(site ssa.CallInstruction) []*ssa.Function { return p.callees(site, true) }

func (p *Prog) callees(site ssa.CallInstruction, unwrap bool) []*ssa.Function {
	if c := site.Common().StaticCallee(); c != nil {
		return []*ssa.Function{c}
	}
	// a closure value called directly
	if mc, ok := site.Common().Value.(*ssa.MakeClosure); ok {
		if unwrap {
			return []*ssa.Function{unwrapSynthetic(mc.Fn.(*ssa.Function))}
		}
		return []*ssa.Function{mc.Fn.(*ssa.Function)}
	}
	// a call of a function-typed parameter of a helper whose call sites are all known: the callees are what those
	// sites pass (CHA would answer "every func() whose address is taken")
	if par, ok := p.origin(site.Common().Value).(*ssa.Parameter); ok && !site.Common().IsInvoke() {
		if args, _, closed := p.argsForParam(par); closed && len(args) > 0 {
			var out []*ssa.Function
			all := true
			for _, a := range args {
				switch x := p.origin(a).(type) {
				case *ssa.MakeClosure:
					f := x.Fn.(*ssa.Function)
					if unwrap {
						f = unwrapSynthetic(f)
					}
					out = append(out, f)
				case *ssa.Function:
					out = append(out, x)
				default:
					all = false
				}
			}
			if all {
				return out
			}
		}
	}
	// a call of the result of a repository function that returns function literals (an iterator constructor:
	// `for x := range h.storedBetween(a, b)` calls the literal storedBetween returns)
	if lits := p.returnedLiterals(site.Common().Value); len(lits) > 0 && !site.Common().IsInvoke() {
		return lits
	}
	n := p.CG().Nodes[site.Parent()]
	if n == nil {
		return nil
	}
	var out []*ssa.Function
	seen := map[*ssa.Function]bool{}
	for _, e := range n.Out {
		f := e.Callee.Func
		if unwrap {
			f = unwrapSynthetic(f)
		}
		if e.Site == site && !seen[f] {
			seen[f] = true
			out = append(out, f)
		}
	}
	sort.Slice(out, func(i, j int) bool { return funcKey(out[i]) < funcKey(out[j]) })
	return out
}

// isYieldFn: the synthetic function go/ssa builds for the body of a range-over-func loop.
func isYieldFn(f *ssa.Function) bool { return f != nil && f.Synthetic == "range-over-func yield" }

// returnedLiterals: v is the result of a static call to a repository function every return of which yields a function
// literal (or a declared function); those functions are what a call of v runs. nil if not of that shape.
func (p *Prog) returnedLiterals(v ssa.Value) []*ssa.Function {
	c, ok := p.origin(v).(*ssa.Call)
	if !ok {
		return nil
	}
	g := c.Call.StaticCallee()
	if g == nil || !p.InUniverse(g) || g.Blocks == nil || g.Signature.Results().Len() != 1 {
		return nil
	}
	var out []*ssa.Function
	for _, b := range g.Blocks {
		ret, ok := b.Instrs[len(b.Instrs)-1].(*ssa.Return)
		if !ok || len(ret.Results) != 1 {
			continue
		}
		r := p.origin(ret.Results[0])
		if ct, ok := r.(*ssa.ChangeType); ok {
			r = p.origin(ct.X)
		}
		switch x := r.(type) {
		case *ssa.MakeClosure:
			out = append(out, x.Fn.(*ssa.Function))
		case *ssa.Function:
			out = append(out, x)
		default:
			return nil
		}
	}
	return out
}

// relPkg turns github.com/pion/interceptor/pkg/nack into pkg/nack ("" → "interceptor").
func relPkg(path string) string {
	if path == modPath {
		return "interceptor"
	}
	if strings.HasPrefix(path, modPath+"/") {
		return path[len(modPath)+1:]
	}
	return path
}

// funcKey is the stable semantic name of a function: pkg.(*T).Method, pkg.Func, with closures as parent$N.
func funcKey(f *ssa.Function) string {
	if f == nil {
		return "<nil>"
	}
	if f.Parent() != nil {
		// ssa names closures Parent$N
		name := f.Name()
		if i := strings.LastIndex(name, "$"); i >= 0 {
			return funcKey(f.Parent()) + name[i:]
		}
		return funcKey(f.Parent()) + "$" + name
	}
	pk := ""
	if f.Pkg != nil {
		pk = relPkg(f.Pkg.Pkg.Path())
	} else if f.Origin() != nil && f.Origin().Pkg != nil {
		pk = relPkg(f.Origin().Pkg.Pkg.Path())
	}
	if recv := f.Signature.Recv(); recv != nil {
		t := recv.Type()
		ptr := ""
		if pt, ok := t.(*types.Pointer); ok {
			t = pt.Elem()
			ptr = "*"
		}
		tn := types.TypeString(t, func(*types.Package) string { return "" })
		if n, ok := types.Unalias(t).(*types.Named); ok && n.Obj() != nil {
			if cn := cTypeName(n.Obj()); cn != n.Obj().Name() && strings.HasPrefix(tn, n.Obj().Name()) {
				tn = cn + tn[len(n.Obj().Name()):]
			}
		}
		return fmt.Sprintf("%s.(%s%s).%s", pk, ptr, tn, cFuncName(f))
	}
	return pk + "." + cFuncName(f)
}

func (p *Prog) Pos(pos token.Pos) string {
	if !pos.IsValid() {
		return "-"
	}
	ps := p.Fset.Position(pos)
	fn := ps.Filename
	if strings.HasPrefix(fn, p.Dir+"/") {
		fn = fn[len(p.Dir)+1:]
	}
	return fmt.Sprintf("%s:%d", fn, ps.Line)
}

// instrPos returns the best position for an instruction (falls back to its block's first positioned instruction).
func (p *Prog) instrPos(i ssa.Instruction) string {
	if i == nil {
		return "-"
	}
	if i.Pos().IsValid() {
		return p.Pos(i.Pos())
	}
	if v, ok := i.(ssa.Value); ok {
		_ = v
	}
	// operands
	for _, op := range i.Operands(nil) {
		if *op != nil && (*op).Pos().IsValid() {
			return p.Pos((*op).Pos())
		}
	}
	if b := i.Block(); b != nil {
		for _, j := range b.Instrs {
			if j.Pos().IsValid() {
				return p.Pos(j.Pos())
			}
		}
		if b.Parent() != nil {
			return p.Pos(b.Parent().Pos())
		}
	}
	return "-"
}

// LookupType finds a named type by package path relative to the module ("pkg/nack") and name.
func (p *Prog) LookupType(rel, name string) *types.Named {
	path := modPath
	if rel != "" && rel != "interceptor" {
		path = modPath + "/" + rel
	}
	for _, sp := range p.SSA.AllPackages() {
		if sp.Pkg.Path() == path {
			if o := sp.Pkg.Scope().Lookup(name); o != nil {
				if n, ok := o.Type().(*types.Named); ok {
					return n
				}
			}
		}
	}
	return nil
}

func (p *Prog) LookupTypeAbs(path, name string) *types.Named {
	for _, sp := range p.SSA.AllPackages() {
		if sp.Pkg.Path() == path {
			if o := sp.Pkg.Scope().Lookup(name); o != nil {
				if n, ok := o.Type().(*types.Named); ok {
					return n
				}
			}
		}
	}
	return nil
}

// FuncByKey finds a universe function by its key.
func (p *Prog) FuncByKey(key string) *ssa.Function {
	for _, f := range p.Funcs {
		if funcKey(f) == key {
			return f
		}
	}
	return nil
}

// rootIface returns an interface type of the root package by name.
func (p *Prog) rootIface(name string) *types.Interface {
	if it, ok := p.ifaceCache[name]; ok {
		return it
	}
	o := p.Root.Scope().Lookup(name)
	if o == nil {
		return nil
	}
	it, _ := o.Type().Underlying().(*types.Interface)
	p.ifaceCache[name] = it
	return it
}

func (p *Prog) rootNamed(name string) *types.Named {
	o := p.Root.Scope().Lookup(name)
	if o == nil {
		return nil
	}
	n, _ := o.Type().(*types.Named)
	return n
}

// unwrapSynthetic maps a bound-method wrapper or thunk (x.m used as a value) to the method it calls.
func unwrapSynthetic(f *ssa.Function) *ssa.Function {
	if f == nil || f.Synthetic == "" || f.Blocks == nil {
		return f
	}
	if !strings.HasSuffix(f.Name(), "$bound") && !strings.HasSuffix(f.Name(), "$thunk") {
		return f
	}
	var target *ssa.Function
	n := 0
	for _, b := range f.Blocks {
		for _, in := range b.Instrs {
			if ci, ok := in.(ssa.CallInstruction); ok {
				n++
				target = ci.Common().StaticCallee()
			}
		}
	}
	if n == 1 && target != nil {
		return target
	}
	return f
}
