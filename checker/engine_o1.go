package main

// O1 — an object handed to a container that keeps it is not handed out twice. The jitter buffer, the retransmission
// ring and the pacer queues keep the pointer they are given: the queued object *is* the packet until it is popped. An
// object taken from a spare slot of long-lived state (`i.spare`, a one-element free list kept to save the allocation)
// may be given to such a container only if it is taken *out* of the slot: the function that loads it from the field
// overwrites the field on every path from the load to its return. Otherwise the slot still refers to the queued object
// and the next call takes — clears, refills, queues — the same object again while the first is still waiting: two queue
// entries share one packet and the earlier one is emitted with the later contents.
//
// Sites: every call of a repository function that keeps a pointer parameter (stores something derived from it into
// memory that is not local to the call, or passes it to a function that does). The argument's origins are followed
// through φs and repository helpers; an origin that is a load of a struct field is an obligation.

import (
	"fmt"
	"go/token"
	"go/types"
	"strings"

	"golang.org/x/tools/go/ssa"
)

func init() {
	registerEngine("O1", []string{"O1"}, runEngineO1)
}

// keepsParam: fn stores (something computed from) parameter idx into memory that outlives the call, or hands it to a
// repository function that does.
func keepsParam(p *Prog, fn *ssa.Function, idx int, memo map[string]int, depth int) bool {
	if fn == nil || fn.Blocks == nil || idx >= len(fn.Params) || depth > 4 {
		return false
	}
	mk := fmt.Sprintf("%p/%d", fn, idx)
	if v, ok := memo[mk]; ok {
		return v == 1
	}
	memo[mk] = 0
	par := ssa.Value(fn.Params[idx])
	// fromPar: the value is the parameter itself or something built around it (an interface holding it, a node
	// allocated for it, the result of a helper it was given to) — not something loaded *through* it (`pos.next`)
	var fromParD func(v ssa.Value, d int, seen map[ssa.Value]bool) bool
	fromParD = func(v ssa.Value, d int, seen map[ssa.Value]bool) bool {
		if v == nil || d > 8 || seen[v] {
			return false
		}
		seen[v] = true
		if v == par || p.origin(v) == par {
			return true
		}
		switch x := p.origin(v).(type) {
		case *ssa.Phi:
			for _, e := range x.Edges {
				if fromParD(e, d+1, seen) {
					return true
				}
			}
		case *ssa.MakeInterface:
			return fromParD(x.X, d+1, seen)
		case *ssa.ChangeType:
			return fromParD(x.X, d+1, seen)
		case *ssa.Convert:
			return fromParD(x.X, d+1, seen)
		case *ssa.Call:
			for _, a := range x.Call.Args {
				if (isRefType(a.Type()) || containsRefs(a.Type())) && fromParD(a, d+1, seen) {
					return true
				}
			}
		case *ssa.Slice:
			return fromParD(x.X, d+1, seen)
		case *ssa.Alloc:
			for _, st := range p.storesInto(x) {
				if fromParD(st.Val, d+1, seen) {
					return true
				}
			}
		case *ssa.UnOp:
			if x.Op == token.MUL {
				if al, ok := cellAddr(x.X).(*ssa.Alloc); ok && al.Parent() == fn {
					return fromParD(al, d+1, seen)
				}
			}
		}
		return false
	}
	fromPar := func(v ssa.Value) bool { return fromParD(v, 0, map[ssa.Value]bool{}) }
	res := false
	instrsOf(fn, func(in ssa.Instruction) {
		if res {
			return
		}
		switch x := in.(type) {
		case *ssa.Store:
			if !isRefType(x.Val.Type()) && !containsRefs(x.Val.Type()) {
				return
			}
			root := p.origin(addrRoot(x.Addr))
			if al, ok := cellAddr(root).(*ssa.Alloc); ok && al.Parent() == fn {
				return // a local object (it may escape through a later store, which is judged there)
			}
			if root == par {
				return // a write into the object itself
			}
			if fromPar(x.Val) {
				res = true
			}
		case *ssa.MapUpdate:
			if isRefType(x.Value.Type()) && fromPar(x.Value) {
				res = true
			}
		case *ssa.Send:
			if isRefType(x.X.Type()) && fromPar(x.X) {
				res = true
			}
		case *ssa.Call:
			sc := x.Call.StaticCallee()
			if sc == nil || !p.InUniverse(sc) {
				return
			}
			for k, a := range x.Call.Args {
				if _, isPtr := a.Type().Underlying().(*types.Pointer); !isPtr {
					continue
				}
				if p.origin(a) == par && keepsParam(p, sc, k, memo, depth+1) {
					res = true
				}
			}
		}
	})
	if res {
		memo[mk] = 1
	}
	return res
}

func runEngineO1(p *Prog, o *obls) {
	memo := map[string]int{}
	nSites, nLoads := 0, 0
	type leaf struct {
		load *ssa.UnOp
		fa   *ssa.FieldAddr
	}
	for _, fn := range p.Funcs {
		k := 0
		instrsOf(fn, func(in ssa.Instruction) {
			call, ok := in.(*ssa.Call)
			if !ok {
				return
			}
			sc := call.Call.StaticCallee()
			if sc == nil || !p.InUniverse(sc) || sc.Blocks == nil {
				return
			}
			first := 0
			if sc.Signature.Recv() != nil {
				first = 1
			}
			for ai := first; ai < len(call.Call.Args); ai++ {
				arg := call.Call.Args[ai]
				pt, isPtr := arg.Type().Underlying().(*types.Pointer)
				if !isPtr {
					continue
				}
				st, isStruct := pt.Elem().Underlying().(*types.Struct)
				if !isStruct || selfReferential(pt.Elem(), st) {
					continue // relinking the nodes of a linked structure is not handing an element to a keeper
				}
				if !keepsParam(p, sc, ai, memo, 0) {
					continue
				}
				nSites++
				// origins of the argument
				var leaves []leaf
				seen := map[ssa.Value]bool{}
				var walk func(v ssa.Value, d int)
				walk = func(v ssa.Value, d int) {
					if v == nil || seen[v] || d > 8 {
						return
					}
					seen[v] = true
					v = p.origin(v)
					switch x := v.(type) {
					case *ssa.Phi:
						for _, e := range x.Edges {
							walk(e, d+1)
						}
					case *ssa.Call:
						if h := x.Call.StaticCallee(); h != nil && p.InUniverse(h) && h.Blocks != nil {
							instrsOf(h, func(in2 ssa.Instruction) {
								if r, ok := in2.(*ssa.Return); ok && len(r.Results) > 0 {
									walk(returnedValue(r, 0), d+1)
								}
							})
						}
					case *ssa.UnOp:
						if x.Op != token.MUL {
							return
						}
						if fa, ok := x.X.(*ssa.FieldAddr); ok {
							leaves = append(leaves, leaf{x, fa})
							return
						}
						if al, ok := cellAddr(x.X).(*ssa.Alloc); ok {
							for _, st := range p.storesInto(al) {
								if st.Addr == ssa.Value(al) {
									walk(st.Val, d+1)
								}
							}
						}
					}
				}
				walk(arg, 0)
				if len(leaves) == 0 {
					continue
				}
				k++
				key := fmt.Sprintf("%s:keep(%s)", funcKey(fn), sc.Name())
				if k > 1 {
					key = fmt.Sprintf("%s#%d", key, k)
				}
				var bad []string
				for _, lf := range leaves {
					nLoads++
					g := lf.load.Parent()
					fk := p.pureKey(lf.fa)
					overwrites := func(in2 ssa.Instruction) bool {
						st, ok := in2.(*ssa.Store)
						if !ok {
							return false
						}
						fa2, ok := st.Addr.(*ssa.FieldAddr)
						return ok && p.pureKey(fa2) == fk && p.origin(st.Val) != ssa.Value(lf.load)
					}
					taken := true
					for _, b := range g.Blocks {
						ret, ok := b.Instrs[len(b.Instrs)-1].(*ssa.Return)
						if !ok || b == g.Recover {
							continue
						}
						if pathAvoiding(lf.load, ret, overwrites) {
							taken = false
						}
					}
					if !taken {
						bad = append(bad, fmt.Sprintf("%s, loaded at %s (in %s), is not overwritten on every path from there to the return", fieldKeyAddr(lf.fa), p.instrPos(lf.load), funcKey(g)))
					}
				}
				if len(bad) > 0 {
					o.bad("O1", key, p.instrPos(call), fmt.Sprintf("%s keeps the object it is given, and the object given at %s can be the one held in %s: the field keeps referring to the queued object, so a later call takes, refills and queues the same object while it is still waiting (two entries share one packet; the earlier one leaves with the later contents)", shortCallee(funcKey(sc)), p.instrPos(call), strings.Join(dedupe(bad), "; ")))
				} else {
					o.ok("O1", key, p.instrPos(call), fmt.Sprintf("the object comes out of %d field(s); each is overwritten on every path from the load to the return of the function that took it", len(leaves)))
				}
			}
		})
	}
	o.ok("O1", "inspected", "-", fmt.Sprintf("%d call(s) handing a pointer to a repository function that keeps it; %d origin(s) that are struct fields", nSites, nLoads))
}

// selfReferential: the struct has a field of type pointer to itself (a list or tree node).
func selfReferential(t types.Type, st *types.Struct) bool {
	for i := 0; i < st.NumFields(); i++ {
		if pt, ok := st.Field(i).Type().Underlying().(*types.Pointer); ok && types.Identical(pt.Elem(), t) {
			return true
		}
	}
	return false
}
