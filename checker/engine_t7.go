package main

// T7 — a packet stored into the ring without becoming its newest is inside the window. The ring maps sequence number
// s to slot s % size; a slot is shared by every number congruent to s. Storing the newest packet is always right (the
// walk over the gap has vacated what it displaces). Storing any other packet — a late, out-of-order send — is right
// only if that packet is still among the most recent `size` numbers: otherwise Get will never hand it out (it tests
// newest - s < size) and the store has evicted the packet of the same slot that *is* inside the window, which a NACK
// can then no longer obtain. For every store of a non-nil element into the ring at an index `s % size`: on every path
// from the function's entry to the store, either the ring's newest-mark is assigned s (before or after the store), or
// the path leaves a comparison of the distance between s and a field of the ring with the ring's size field.

import (
	"fmt"
	"go/token"
	"go/types"

	"golang.org/x/tools/go/ssa"
)

func t7Window(p *Prog, o *obls, fn *ssa.Function, spec refcountSpec) {
	if spec.slots == "" || isConstructor(p, fn) {
		return
	}
	k := 0
	instrsOf(fn, func(in ssa.Instruction) {
		st, ok := in.(*ssa.Store)
		if !ok || isNilConst(st.Val) {
			return
		}
		ia, ok := st.Addr.(*ssa.IndexAddr)
		if !ok {
			return
		}
		u, ok := ia.X.(*ssa.UnOp)
		if !ok || u.Op != token.MUL {
			return
		}
		sfa, ok := u.X.(*ssa.FieldAddr)
		if !ok || fieldKeyAddr(sfa) != spec.slots {
			return
		}
		rem, ok := p.origin(ia.Index).(*ssa.BinOp)
		if !ok || rem.Op != token.REM {
			return
		}
		seq := p.origin(rem.X)
		var sizeField *types.Var
		if lu, ok := p.origin(rem.Y).(*ssa.UnOp); ok && lu.Op == token.MUL {
			if fa, ok := lu.X.(*ssa.FieldAddr); ok {
				sizeField = fieldOfAddr(fa)
			}
		}
		sizeKey := p.pureKey(rem.Y)
		k++
		key := fmt.Sprintf("%s:ring-store", funcKey(fn))
		if k > 1 {
			key = fmt.Sprintf("%s#%d", key, k)
		}
		// evalAt: can `at` (in function F) be reached from F's entry without making sv the newest of ring rv and without
		// leaving a window test — and, if so, can F return from there without making it the newest afterwards?
		evalAt := func(F *ssa.Function, at ssa.Instruction, rv, sv ssa.Value) bool {
			ringKey := p.pureKey(rv)
			svo := p.origin(sv)
			isMark := func(x ssa.Instruction) bool {
				s2, ok := x.(*ssa.Store)
				if !ok {
					return false
				}
				fa, ok := s2.Addr.(*ssa.FieldAddr)
				if !ok || p.pureKey(fa.X) != ringKey || p.origin(s2.Val) != svo {
					return false
				}
				bt, ok := deref(fa.Type()).Underlying().(*types.Basic)
				return ok && bt.Info()&types.IsInteger != 0
			}
			isSize := func(v ssa.Value) bool {
				if F == fn && p.pureKey(v) == sizeKey {
					return true
				}
				if lu, ok := p.origin(v).(*ssa.UnOp); ok && lu.Op == token.MUL && sizeField != nil {
					if fa, ok := lu.X.(*ssa.FieldAddr); ok && fieldOfAddr(fa) == sizeField && p.pureKey(fa.X) == ringKey {
						return true
					}
				}
				return false
			}
			isWindowTest := func(c ssa.Value) bool {
				f := normFact(condFact{c, true})
				bo, ok := f.cond.(*ssa.BinOp)
				if !ok {
					return false
				}
				switch bo.Op {
				case token.LSS, token.LEQ, token.GTR, token.GEQ:
				default:
					return false
				}
				for _, pair := range [][2]ssa.Value{{bo.X, bo.Y}, {bo.Y, bo.X}} {
					if !isSize(pair[1]) {
						continue
					}
					d, ok := p.origin(pair[0]).(*ssa.BinOp)
					if !ok || d.Op != token.SUB {
						continue
					}
					hasSeq := p.origin(d.X) == svo || p.origin(d.Y) == svo
					hasField := false
					for _, side := range []ssa.Value{d.X, d.Y} {
						if lu, ok := p.origin(side).(*ssa.UnOp); ok && lu.Op == token.MUL {
							if fa, ok := lu.X.(*ssa.FieldAddr); ok && p.pureKey(fa.X) == ringKey {
								hasField = true
							}
						}
					}
					if hasSeq && hasField {
						return true
					}
				}
				return false
			}
			reach := map[*ssa.BasicBlock]bool{}
			unguarded := false
			var visit func(b *ssa.BasicBlock)
			visit = func(b *ssa.BasicBlock) {
				if reach[b] {
					return
				}
				reach[b] = true
				for _, x := range b.Instrs {
					if isMark(x) {
						return
					}
					if x == at {
						unguarded = true
					}
				}
				if c := ifCond(b); c != nil && isWindowTest(c) {
					return
				}
				for _, sc := range b.Succs {
					visit(sc)
				}
			}
			visit(F.Blocks[0])
			if !unguarded {
				return false
			}
			for _, b := range F.Blocks {
				ret, ok := b.Instrs[len(b.Instrs)-1].(*ssa.Return)
				if !ok || b == F.Recover {
					continue
				}
				if pathAvoiding(at, ret, isMark) {
					return true
				}
			}
			return false
		}
		if !evalAt(fn, st, sfa.X, seq) {
			o.ok("T7", key, p.instrPos(st), "on every path through the store the stored packet becomes the ring's newest or has been tested against the ring size")
			return
		}
		// a helper that stores what it is told to (`r.replace(seq, packet)`): judged where it is called
		rpar, rIsPar := p.origin(sfa.X).(*ssa.Parameter)
		spar, sIsPar := seq.(*ssa.Parameter)
		if rIsPar && sIsPar {
			ri, si := -1, -1
			for i, q := range fn.Params {
				if q == rpar {
					ri = i
				}
				if q == spar {
					si = i
				}
			}
			vi := -1
			if vpar, ok := p.origin(st.Val).(*ssa.Parameter); ok {
				for i, q := range fn.Params {
					if q == vpar {
						vi = i
					}
				}
			}
			if ri >= 0 && si >= 0 && p.allCallersSatisfy(fn, func(site ssa.CallInstruction) bool {
				args := site.Common().Args
				if ri >= len(args) || si >= len(args) {
					return false
				}
				if vi >= 0 && vi < len(args) && isNilConst(args[vi]) {
					return true // vacating a slot stores no packet
				}
				return !evalAt(site.Parent(), site, args[ri], args[si])
			}, 2) {
				o.ok("T7", key, p.instrPos(st), "a helper that stores the packet it is given: at every call the packet becomes the ring's newest or has been tested against the ring size")
				return
			}
		}
		o.bad("T7", key, p.instrPos(st), fmt.Sprintf("the packet is stored into slot %s at %s on a path on which it neither becomes the ring's newest nor has been tested to lie within the last `size` numbers: a late packet from outside the window evicts the packet of that slot that is still inside it (a NACK for that one then finds nothing), and can itself never be retrieved", shortExpr(p, ia.Index), p.instrPos(st)))
	})
}
