package main

// C9 — no user code runs under the object's own lock. A callback the application registered (a function-typed field, an
// element of a listener table) and the neighbouring element of the chain (the RTPWriter/RTCPWriter/Reader interfaces)
// are code the interceptor does not control: they may call back into the object (a bitrate callback that queries the
// estimator, a downstream writer that registers another stream) and then need the mutex the caller still holds — a
// self-deadlock that wedges every later call. Every call of such a value must therefore happen with none of the
// owning object's mutexes held (must-hold lockset, entry locksets included), or be started with `go`.
//
// The pinned tree has five such (callee, mutex) pairs besides parameterless providers such as injected clocks, which are
// exempt by type (c9Confirmed, each read and given a reason). Whether one of them is a hazard
// depends on what the foreign code does and is not decided; they are the reference: the rule fires on every callee that is not in the table — a callback moved from `go cb(x)` to `cb(x)` inside the critical section, a
// downstream Write moved under a lock by a deferred unlock.

import (
	"fmt"
	"go/token"
	"go/types"
	"sort"
	"strings"

	"golang.org/x/tools/go/ssa"
)

func init() {
	registerEngine("C9", []string{"C9"}, runEngineC9)
}

// c9Confirmed: (foreign callee, mutex held) pairs of the pinned tree, confirmed by reading.
var c9Confirmed = map[string]string{
	"internal/rtpbuffer.RetainablePacket.onRelease": "set only by the packet factories to their own releasePacket, which takes no lock of the packet",
	"chain:RTPWriter.Write@pkg/gcc.NoOpPacer":       "the no-op pacer writes downstream under its read lock (noted under C17 as not decided)",
	"pkg/jitterbuffer.JitterBuffer.listeners":       "event listeners run under the buffer's mutex (a listener must not call back into the buffer)",
	"pkg/pacing.InterceptorFactory.opts":            "options are applied to the interceptor under construction",
	"pkg/stats.Interceptor.RecorderFactory":         "recorder construction hook, called while the registry of recorders is locked",
	"fixtures/fx.GoodC9notify.hook":                 "fixture: confirmed callee",
}

func runEngineC9(p *Prog, o *obls) {
	la := p.Locks()
	type site struct {
		in   ssa.Instruction
		what string
	}
	per := map[*ssa.Function][]site{}
	confirmed := map[string]string{}
	nSites, nProviders := 0, 0
	for _, fn := range p.Funcs {
		li := la.info[fn]
		if li == nil {
			continue
		}
		instrsOf(fn, func(in ssa.Instruction) {
			var c *ssa.Call
			held := li.before[in]
			deferred := false
			switch x := in.(type) {
			case *ssa.Call:
				c = x
			case *ssa.Defer:
				// a deferred call runs when the function returns, after the deferred calls registered later and before
				// those registered earlier: a mutex whose Unlock was deferred *before* this statement is still held
				// when it runs (`defer mu.Unlock(); …; defer callback(v)` calls back under the mutex)
				c = &ssa.Call{Call: x.Call}
				deferred = true
				still := lockset{}
				for _, b := range fn.Blocks {
					for _, in2 := range b.Instrs {
						d2, ok := in2.(*ssa.Defer)
						if !ok || d2 == x {
							continue
						}
						op, ok := lockOpOf(&d2.Call)
						if !ok || op.kind != "Unlock" && op.kind != "RUnlock" {
							continue
						}
						before := b == x.Block() && instrIndex(d2) < instrIndex(x) || b != x.Block() && b.Dominates(x.Block())
						if v, isHeld := held[op.id]; isHeld && before {
							still[op.id] = v
						}
					}
				}
				held = still
			default:
				return
			}
			if len(held) == 0 {
				return
			}
			what, calleeKey := "", ""
			if c.Call.IsInvoke() {
				if isChainIface(p, c.Call.Value.Type()) {
					tn := types.TypeString(c.Call.Value.Type(), func(*types.Package) string { return "" })
					what = "the neighbouring chain element (" + c.Call.Method.Name() + " on " + tn + ")"
					calleeKey = "chain:" + tn + "." + c.Call.Method.Name()
				}
			} else if c.Call.StaticCallee() == nil {
				// a function value loaded from a field, or an element of a slice/map held in a field
				v := p.origin(c.Call.Value)
				for i := 0; i < 4; i++ {
					if u, ok := v.(*ssa.UnOp); ok && u.Op == token.MUL {
						if fa, ok := u.X.(*ssa.FieldAddr); ok {
							if _, isPar := p.origin(addrRoot(fa)).(*ssa.Parameter); isPar && sharedBase(p, fn, fa.X) {
								// (a function held by an object that is still under construction — not yet reachable by
								// anyone else — is configuration being applied, not a callback into a live object)
								what = "the function stored in " + fieldKeyAddr(fa)
								calleeKey = fieldKeyAddr(fa)
							}
							break
						}
						if ia, ok := u.X.(*ssa.IndexAddr); ok {
							v = p.origin(ia.X)
							continue
						}
					}
					if ex, ok := v.(*ssa.Extract); ok {
						if nx, ok := ex.Tuple.(*ssa.Next); ok {
							if rg, ok := nx.Iter.(*ssa.Range); ok {
								v = p.origin(rg.X)
								continue
							}
						}
					}
					if lk, ok := v.(*ssa.Lookup); ok {
						v = p.origin(lk.X)
						continue
					}
					break
				}
			}
			if what == "" {
				return
			}
			// an injected provider without parameters (a clock, a random source) is handed nothing it could call back
			// with; such functions are primitives, not application callbacks
			if sig, ok := c.Call.Value.Type().Underlying().(*types.Signature); ok && !c.Call.IsInvoke() && sig.Params().Len() == 0 {
				nProviders++
				return
			}
			var hs []string
			for k := range held {
				hs = append(hs, k)
			}
			sort.Strings(hs)
			// the confirmed instances are identified by the callee (a callback field is the same hazard whichever of
			// the object's mutexes is held — the lock may move into a registry type) and, for chain calls, by the type
			// whose method makes the call
			pair := calleeKey
			if strings.HasPrefix(calleeKey, "chain:") {
				top := fn
				for top.Parent() != nil {
					top = top.Parent()
				}
				owner := pkgRelOf(top)
				if top.Signature.Recv() != nil {
					owner = typeKey(top.Signature.Recv().Type())
				}
				pair = calleeKey + "@" + owner
			}
			nSites++
			if reason, ok := c9Confirmed[pair]; ok {
				confirmed[pair] = reason
				return
			}
			when := "called"
			if deferred {
				when = "deferred (it runs before the Unlock deferred earlier)"
			}
			per[fn] = append(per[fn], site{in, fmt.Sprintf("%s is %s at %s with %s held", what, when, p.instrPos(in), strings.Join(hs, ", "))})
		})
	}
	var fns []*ssa.Function
	for fn := range per {
		fns = append(fns, fn)
	}
	sort.Slice(fns, func(i, j int) bool { return funcKey(fns[i]) < funcKey(fns[j]) })
	for _, fn := range fns {
		var ws []string
		for _, s := range per[fn] {
			ws = append(ws, s.what)
		}
		o.bad("C9", funcKey(fn)+":foreign-call", p.instrPos(per[fn][0].in), strings.Join(dedupe(ws), "; ")+": if that code calls back into this object it needs the mutex again and the call never returns")
	}
	for _, pair := range sortedKeys(confirmed) {
		o.note("C9", "confirmed:"+pair, "-", "pre-existing call of foreign code under a mutex, confirmed on the pinned tree ("+confirmed[pair]+"); whether the foreign code can re-enter is not decided")
	}
	o.ok("C9", "inspected", "-", fmt.Sprintf("%d call(s) of callbacks or chain neighbours under a mutex (plus %d of parameterless providers such as clocks), %d outside the confirmed table", nSites, nProviders, len(fns)))
}
