package main

import (
	"fmt"
	"go/token"
	"go/types"
	"sort"
	"strings"

	"golang.org/x/tools/go/ssa"
)

// Engines G (feedback walk, C09) and H (GCC publication, C16) — DESIGN.md §3 G, H.

func init() {
	registerEngine("G", []string{"G1", "G2"}, runEngineG)
	registerEngine("H", []string{"H1", "H2", "H3"}, runEngineH)
}

// attributionKeyFields: struct fields that hold the sequence number under which an acknowledgement is attributed.
var attributionKeyFields = map[string]bool{
	"internal/cc.feedbackHistoryKey.sequenceNumber": true,
	"pkg/rtpfb.acknowledgement.sequenceNumber":      true,
	"fixtures/fx.fbAck.seq":                         true,
}

// isLookupPredicate: a universe function with a (T, bool) result that looks a key up in a map held in a field.
func isLookupPredicate(p *Prog, fn *ssa.Function) bool {
	if fn == nil || fn.Blocks == nil || !p.InUniverse(fn) {
		return false
	}
	res := fn.Signature.Results()
	if res.Len() != 2 {
		return false
	}
	if b, ok := res.At(1).Type().Underlying().(*types.Basic); !ok || b.Kind() != types.Bool {
		return false
	}
	found := false
	instrsOf(fn, func(in ssa.Instruction) {
		if lk, ok := in.(*ssa.Lookup); ok && lk.CommaOk && containerKey(p, lk.X) != "" {
			found = true
		}
	})
	return found
}

// historyDerived: the condition depends on whether a key is present in long-lived state (a map field), directly or
// through a lookup predicate.
func historyDerived(p *Prog, cond ssa.Value) (bool, string) {
	why := ""
	ok := p.backwardReaches(cond, func(v ssa.Value) bool {
		ex, isEx := v.(*ssa.Extract)
		if !isEx || ex.Index != 1 {
			return false
		}
		switch t := ex.Tuple.(type) {
		case *ssa.Lookup:
			if t.CommaOk {
				if k := containerKey(p, t.X); k != "" {
					why = "presence in " + k
					return true
				}
			}
		case *ssa.Call:
			if sc := t.Call.StaticCallee(); sc != nil && isLookupPredicate(p, sc) {
				why = "result of the lookup " + funcKey(sc)
				return true
			}
		}
		return false
	})
	return ok, why
}

func runEngineG(p *Prog, o *obls) {
	nG1 := 0
	for _, fn := range p.Funcs {
		// ---- G1: cursors into []*rtcp.RecvDelta (fixtures: []*fbDelta)
		cursors := map[*ssa.Phi]*ssa.IndexAddr{}
		instrsOf(fn, func(in ssa.Instruction) {
			ia, ok := in.(*ssa.IndexAddr)
			if !ok {
				return
			}
			st, ok := ia.X.Type().Underlying().(*types.Slice)
			if !ok {
				return
			}
			ek := typeKey(st.Elem())
			if ek != "github.com/pion/rtcp.RecvDelta" && ek != "fixtures/fx.fbDelta" {
				return
			}
			if phi, ok := p.origin(ia.Index).(*ssa.Phi); ok {
				cursors[phi] = ia
			}
		})
		var phis []*ssa.Phi
		for ph := range cursors {
			phis = append(phis, ph)
		}
		sort.Slice(phis, func(i, j int) bool { return phis[i].Pos() < phis[j].Pos() })
		pdom := postDominators(fn)
		for _, phi := range phis {
			// increments of the cursor
			var incs []*ssa.BinOp
			instrsOf(fn, func(in ssa.Instruction) {
				bo, ok := in.(*ssa.BinOp)
				if !ok || bo.Op != token.ADD || !isConstInt(bo.Y, 1) {
					return
				}
				if p.origin(bo.X) == ssa.Value(phi) {
					incs = append(incs, bo)
				}
			})
			if len(incs) == 0 {
				continue
			}
			nG1++
			key := fmt.Sprintf("%s:cursor %s", funcKey(fn), phi.Comment)
			var bad []string
			for _, inc := range incs {
				for c := range transitiveControlDeps(fn, pdom, inc.Block()) {
					cond := ifCond(c)
					if cond == nil {
						continue
					}
					if hd, why := historyDerived(p, cond); hd {
						bad = append(bad, fmt.Sprintf("the delta cursor is advanced at %s only when a condition derived from the sent-packet history holds (%s, tested at %s): a received packet that is no longer (or never was) in the history does not consume its delta, and every later packet of the feedback gets the wrong arrival time",
							p.instrPos(inc), why, p.instrPosV(cond)))
					}
				}
			}
			if len(bad) > 0 {
				o.bad("G1", key, p.instrPos(cursors[phi]), strings.Join(dedupe(bad), "; "))
			} else {
				o.ok("G1", key, p.instrPos(cursors[phi]), fmt.Sprintf("%d advance site(s), none control-dependent on a history lookup", len(incs)))
			}
		}
		// ---- G2: position counters that feed attribution keys
		g2(p, o, fn)
	}
	if nG1 == 0 {
		o.note("G1", "no-cursor", "-", "no index variable walking a []*rtcp.RecvDelta was found in loop-variable form (the walk may live in a cursor object): the delta-consumption clause is not decided for this tree")
	}
}

// g2: in every loop, a counter that flows into an attribution key field is advanced exactly once per iteration.
func g2(p *Prog, o *obls, fn *ssa.Function) {
	loops := naturalLoops(fn)
	var headers []*ssa.BasicBlock
	for h := range loops {
		headers = append(headers, h)
	}
	sort.Slice(headers, func(i, j int) bool { return headers[i].Index < headers[j].Index })
	rangeLoops := findRangeLoops(fn)
	for _, h := range headers {
		body := loops[h]
		for _, in := range h.Instrs {
			phi, ok := in.(*ssa.Phi)
			if !ok {
				continue
			}
			if b, ok := phi.Type().Underlying().(*types.Basic); !ok || b.Info()&types.IsInteger == 0 {
				continue
			}
			// does the counter feed an attribution key inside this loop?
			feeds := false
			for b := range body {
				for _, i2 := range b.Instrs {
					st, ok := i2.(*ssa.Store)
					if !ok {
						continue
					}
					fa, ok := st.Addr.(*ssa.FieldAddr)
					if !ok || !attributionKeyFields[fieldKeyAddr(fa)] {
						continue
					}
					if p.backwardReaches(st.Val, func(v ssa.Value) bool { return v == ssa.Value(phi) }) {
						feeds = true
					}
				}
			}
			if !feeds {
				continue
			}
			// only the innermost loop around the key store is the symbol loop
			innermost := true
			for h2, body2 := range loops {
				if h2 != h && body[h2] && len(body2) < len(body) {
					for b := range body2 {
						for _, i2 := range b.Instrs {
							if st, ok := i2.(*ssa.Store); ok {
								if fa, ok := st.Addr.(*ssa.FieldAddr); ok && attributionKeyFields[fieldKeyAddr(fa)] {
									innermost = false
								}
							}
						}
					}
				}
			}
			if !innermost {
				continue
			}
			key := fmt.Sprintf("%s:position %s", funcKey(fn), phi.Comment)
			// range index: advanced by the range statement itself
			isRange := false
			for _, rl := range rangeLoops {
				if rl.Header == h {
					if inc, ok := rl.Index.(*ssa.BinOp); ok && inc.X == ssa.Value(phi) {
						isRange = true
					}
					if rl.Index == ssa.Value(phi) {
						isRange = true
					}
				}
			}
			if isRange {
				o.trivial("G2", key, p.instrPosV(phi), "the position is the range index of the symbol loop")
				continue
			}
			isInc := func(i3 ssa.Instruction) bool {
				bo, ok := i3.(*ssa.BinOp)
				if !ok || bo.Op != token.ADD || !body[bo.Block()] {
					return false
				}
				if _, isC := constInt(bo.Y); !isC {
					return false
				}
				// the increment must be what flows back into the phi
				flows := false
				for i, e := range phi.Edges {
					if body[h.Preds[i]] && p.backwardReaches(e, func(v ssa.Value) bool { return v == ssa.Value(bo) }) {
						flows = true
					}
				}
				return flows && p.backwardReaches(bo.X, func(v ssa.Value) bool { return v == ssa.Value(phi) })
			}
			var bad []string
			for _, s := range h.Succs {
				if !body[s] {
					continue
				}
				before := seededCounts(fn, s, isInc)
				for i, pr := range h.Preds {
					_ = i
					if !body[pr] {
						continue
					}
					last := pr.Instrs[len(pr.Instrs)-1]
					m := before[last]
					if m == 0 {
						continue
					}
					if m&1 != 0 {
						bad = append(bad, fmt.Sprintf("an iteration can return to the loop head (from block ending at %s) without advancing the position: the following symbols are attributed to the wrong sequence numbers", p.instrPos(last)))
					}
					if m&4 != 0 {
						bad = append(bad, fmt.Sprintf("an iteration can advance the position more than once (block ending at %s)", p.instrPos(last)))
					}
				}
			}
			if len(bad) > 0 {
				o.bad("G2", key, p.instrPosV(phi), strings.Join(dedupe(bad), "; "))
			} else {
				o.ok("G2", key, p.instrPosV(phi), "the position counter that feeds the attribution key is advanced exactly once on every path through the loop body")
			}
		}
	}
}

// ---- H ------------------------------------------------------------------------------------------------------------

type clampSpec struct {
	field, min, max string // field keys
}

var clampSpecs = []clampSpec{
	{"pkg/gcc.rateController.target", "pkg/gcc.rateController.minBitrate", "pkg/gcc.rateController.maxBitrate"},
	{"pkg/gcc.SendSideBWE.latestBitrate", "pkg/gcc.SendSideBWE.minBitrate", "pkg/gcc.SendSideBWE.maxBitrate"},
	{"fixtures/fx.fxEstimator.rate", "fixtures/fx.fxEstimator.min", "fixtures/fx.fxEstimator.max"},
}

// publishSpec: the field that holds the published value, the consumers that must be told the same value.
type publishSpec struct {
	field     string
	callbacks []string // fields holding func values that are invoked with the value
	methods   []string // interface methods that are told the value
	getter    string   // function key of the getter
}

var publishSpecs = []publishSpec{
	{"pkg/gcc.SendSideBWE.latestBitrate", []string{"pkg/gcc.SendSideBWE.onTargetBitrateChange"}, []string{"SetTargetBitrate"}, "pkg/gcc.(*SendSideBWE).GetTargetBitrate"},
	{"fixtures/fx.fxEstimator.rate", []string{"fixtures/fx.fxEstimator.onChange"}, []string{"SetRate"}, "fixtures/fx.(*fxEstimator).Rate"},
}

func loadOfField(p *Prog, v ssa.Value, fk string) bool {
	u, ok := p.origin(v).(*ssa.UnOp)
	if !ok || u.Op != token.MUL {
		return false
	}
	fa, ok := u.X.(*ssa.FieldAddr)
	return ok && p.fieldIs(fa, fk)
}

// fieldIs: the field address denotes the spec'd field "pkg.Type.name" — directly, or as a field of that name in a
// struct that Type embeds (the field was regrouped into an embedded state struct and is promoted back).
func (p *Prog) fieldIs(fa *ssa.FieldAddr, fk string) bool {
	if fieldKeyAddr(fa) == fk {
		return true
	}
	i := strings.LastIndex(fk, ".")
	if i < 0 {
		return false
	}
	fv := fieldOfAddr(fa)
	if fv == nil || cFieldName(fv) != fk[i+1:] {
		return false
	}
	owner := p.namedByKey(fk[:i])
	if owner == nil {
		return false
	}
	inner := namedOf(fa.X.Type())
	if inner == nil {
		return false
	}
	var embeds func(t types.Type, d int) bool
	embeds = func(t types.Type, d int) bool {
		st, ok := deref(t).Underlying().(*types.Struct)
		if !ok || d > 3 {
			return false
		}
		for j := 0; j < st.NumFields(); j++ {
			f := st.Field(j)
			if !f.Embedded() {
				continue
			}
			if n := namedOf(f.Type()); n != nil && n.Obj() == inner.Obj() {
				return true
			}
			if embeds(f.Type(), d+1) {
				return true
			}
		}
		return false
	}
	return embeds(owner, 0)
}

// clampedBy: v is clampInt(_, load min, load max) or max(load min, min(load max, _)) / min(load max, max(load min, _)).
func clampedBy(p *Prog, v ssa.Value, minF, maxF string) bool {
	return clampedByD(p, v, minF, maxF, ipDepth)
}

func clampedByD(p *Prog, v ssa.Value, minF, maxF string, depth int) bool {
	if par, ok := p.origin(v).(*ssa.Parameter); ok && depth > 0 {
		// the store sits in a helper: the value is clamped at every call of it
		args, _, closed := p.argsForParam(par)
		if !closed || len(args) == 0 {
			return false
		}
		for _, a := range args {
			if !clampedByD(p, a, minF, maxF, depth-1) {
				return false
			}
		}
		return true
	}
	c, ok := p.origin(v).(*ssa.Call)
	if !ok {
		return false
	}
	if sc := c.Call.StaticCallee(); sc != nil && strings.HasPrefix(sc.Name(), "clamp") && len(c.Call.Args) == 3 {
		return loadOfField(p, c.Call.Args[1], minF) && loadOfField(p, c.Call.Args[2], maxF)
	}
	switch builtinName(&c.Call) {
	case "max":
		hasMin, inner := false, false
		for _, a := range c.Call.Args {
			if loadOfField(p, a, minF) {
				hasMin = true
			} else if ic, ok := p.origin(a).(*ssa.Call); ok && builtinName(&ic.Call) == "min" {
				for _, a2 := range ic.Call.Args {
					if loadOfField(p, a2, maxF) {
						inner = true
					}
				}
			}
		}
		return hasMin && inner
	case "min":
		hasMax, inner := false, false
		for _, a := range c.Call.Args {
			if loadOfField(p, a, maxF) {
				hasMax = true
			} else if ic, ok := p.origin(a).(*ssa.Call); ok && builtinName(&ic.Call) == "max" {
				for _, a2 := range ic.Call.Args {
					if loadOfField(p, a2, minF) {
						inner = true
					}
				}
			}
		}
		return hasMax && inner
	}
	return false
}

func runEngineH(p *Prog, o *obls) {
	// ---- H1 ----
	for _, cs := range clampSpecs {
		if p.Fixture != strings.HasPrefix(cs.field, "fixtures/") {
			continue
		}
		n := 0
		for _, fn := range p.Funcs {
			if isOptionClosure(fn) {
				continue
			}
			instrsOf(fn, func(in ssa.Instruction) {
				st, ok := in.(*ssa.Store)
				if !ok {
					return
				}
				fa, ok := st.Addr.(*ssa.FieldAddr)
				if !ok || !p.fieldIs(fa, cs.field) {
					return
				}
				if !sharedBase(p, fn, fa.X) {
					// construction: the initial value is configuration. But a clamp applied here must use the object's
					// configured bounds like every other clamp — clamping with other bounds (the package defaults) puts
					// the start value outside the configured range
					if cl, isCall := p.origin(st.Val).(*ssa.Call); isCall {
						sc := cl.Call.StaticCallee()
						clampShaped := sc != nil && strings.HasPrefix(sc.Name(), "clamp") && len(cl.Call.Args) == 3
						if b := builtinName(&cl.Call); b == "min" || b == "max" {
							clampShaped = true
						}
						if clampShaped && !clampedBy(p, st.Val, cs.min, cs.max) {
							o.bad("H1", fmt.Sprintf("%s@%s", cs.field, funcKey(fn)), p.instrPos(st), fmt.Sprintf("the initial value of %s is clamped at construction, but not with the configured bounds %s/%s of the same object: a legal configuration outside the other bounds starts outside [min,max]", cs.field, cs.min, cs.max))
						}
					}
					return
				}
				n++
				key := fmt.Sprintf("%s@%s", cs.field, funcKey(fn))
				if clampedBy(p, st.Val, cs.min, cs.max) {
					o.ok("H1", key, p.instrPos(st), "the stored value is produced by a clamp with the configured bounds of the same object")
				} else {
					o.bad("H1", key, p.instrPos(st), fmt.Sprintf("the value stored to %s (%s) is not the result of a clamp with the configured bounds %s/%s: the published bitrate can leave [min,max] (and is not protected against NaN/Inf-derived values of the float stages)",
						cs.field, valueString(p.origin(st.Val)), cs.min, cs.max))
				}
			})
		}
		if n == 0 {
			o.undecided("H1", cs.field, "-", "anchor unresolved: no store to the published field outside construction")
		}
	}
	// ---- H2 ----
	for _, ps := range publishSpecs {
		if p.Fixture != strings.HasPrefix(ps.field, "fixtures/") {
			continue
		}
		n := 0
		for _, fn := range p.Funcs {
			if isOptionClosure(fn) {
				continue
			}
			var stores []*ssa.Store
			instrsOf(fn, func(in ssa.Instruction) {
				if st, ok := in.(*ssa.Store); ok {
					if fa, ok := st.Addr.(*ssa.FieldAddr); ok && fieldKeyAddr(fa) == ps.field && sharedBase(p, fn, fa.X) {
						stores = append(stores, st)
					}
				}
			})
			if len(stores) == 0 {
				continue
			}
			n++
			key := funcKey(fn) + ":publish"
			var bad []string
			told := 0
			sameAsStored := func(v ssa.Value) bool {
				if loadOfField(p, v, ps.field) {
					return true
				}
				for _, st := range stores {
					if p.origin(v) == p.origin(st.Val) {
						return true
					}
				}
				return false
			}
			instrsOf(fn, func(in ssa.Instruction) {
				ci, ok := in.(ssa.CallInstruction)
				if !ok {
					return
				}
				cc := ci.Common()
				isConsumer := false
				if cc.IsInvoke() {
					for _, m := range ps.methods {
						if cc.Method.Name() == m {
							isConsumer = true
						}
					}
				} else {
					for _, cb := range ps.callbacks {
						if loadOfField(p, cc.Value, cb) {
							isConsumer = true
						}
					}
				}
				if !isConsumer || len(cc.Args) == 0 {
					return
				}
				told++
				if !sameAsStored(cc.Args[0]) {
					bad = append(bad, fmt.Sprintf("%s at %s is given %s, which is not the value stored to %s", instrBrief(in), p.instrPos(in), valueString(cc.Args[0]), ps.field))
				}
			})
			// the pacer is told synchronously: after each store a pacer call is reached in the same function (an
			// asynchronous hand-off can deliver two changes out of order and leave the pacer on a stale rate)
			for _, st := range stores {
				toldAfter := false
				instrsOf(fn, func(in ssa.Instruction) {
					c, ok := in.(*ssa.Call)
					if !ok || !c.Call.IsInvoke() {
						return
					}
					for _, m := range ps.methods {
						if c.Call.Method.Name() == m && canReach(st, c) {
							toldAfter = true
						}
					}
				})
				if !toldAfter {
					bad = append(bad, fmt.Sprintf("after the store at %s the pacer is not told the new value synchronously in this function", p.instrPos(st)))
				}
			}
			if len(bad) > 0 {
				o.bad("H2", key, p.instrPos(stores[0]), strings.Join(bad, "; "))
			} else {
				o.ok("H2", key, p.instrPos(stores[0]), fmt.Sprintf("%d consumer call(s) (pacer / change callback) receive the stored value itself", told))
			}
		}
		// the change callback is told the published value wherever it is called: in a function that does not store
		// the field itself (the store was moved into a helper), the argument is a load of the field, or a parameter
		// that every caller fills with the value it stored
		for _, fn := range p.Funcs {
			if isOptionClosure(fn) {
				continue
			}
			hasStore := false
			instrsOf(fn, func(in ssa.Instruction) {
				if st, ok := in.(*ssa.Store); ok {
					if fa, ok := st.Addr.(*ssa.FieldAddr); ok && fieldKeyAddr(fa) == ps.field {
						hasStore = true
					}
				}
			})
			if hasStore {
				continue
			}
			instrsOf(fn, func(in ssa.Instruction) {
				ci, ok := in.(ssa.CallInstruction)
				if !ok {
					return
				}
				cc := ci.Common()
				if cc.IsInvoke() || len(cc.Args) == 0 {
					return
				}
				isCb := false
				for _, cb := range ps.callbacks {
					if loadOfField(p, cc.Value, cb) {
						isCb = true
					}
				}
				if !isCb {
					return
				}
				key := funcKey(fn) + ":told-elsewhere"
				arg := cc.Args[0]
				if loadOfField(p, arg, ps.field) {
					o.ok("H2", key, p.instrPos(in), "the change callback is given a load of the published field")
					return
				}
				if par, ok := p.origin(arg).(*ssa.Parameter); ok {
					args, sites, closed := p.argsForParam(par)
					good := closed && len(args) > 0
					for i, a := range args {
						if loadOfField(p, a, ps.field) {
							continue
						}
						same := false
						if caller := sites[i].Parent(); caller != nil {
							instrsOf(caller, func(in2 ssa.Instruction) {
								if st, ok := in2.(*ssa.Store); ok {
									if fa, ok := st.Addr.(*ssa.FieldAddr); ok && fieldKeyAddr(fa) == ps.field && p.origin(st.Val) == p.origin(a) {
										same = true
									}
								}
							})
						}
						if !same {
							good = false
						}
					}
					if good {
						o.ok("H2", key, p.instrPos(in), "the change callback is given a parameter that every caller fills with the value it stored")
						return
					}
				}
				o.bad("H2", key, p.instrPos(in), fmt.Sprintf("the change callback is given %s in a function that does not store %s: the value was published by a helper (which may have clamped it) and this is not a load of the published field", valueString(arg), ps.field))
			})
		}
		// getter returns the field
		g := p.FuncByKey(ps.getter)
		if g == nil {
			o.undecided("H2", ps.getter, "-", "anchor unresolved: getter not found")
		} else {
			okG := true
			for _, b := range g.Blocks {
				if ret, ok := b.Instrs[len(b.Instrs)-1].(*ssa.Return); ok && b != g.Recover {
					if !loadOfField(p, ret.Results[0], ps.field) {
						okG = false
					}
				}
			}
			if okG {
				o.ok("H2", ps.getter, p.Pos(g.Pos()), "the getter returns the published field")
			} else {
				o.bad("H2", ps.getter, p.Pos(g.Pos()), "the getter returns something other than the field that is published to the callback and the pacer")
			}
		}
		if n == 0 {
			o.undecided("H2", ps.field, "-", "anchor unresolved: no publishing function found")
		}
	}
	// ---- H3: closed gate ----
	h3(p, o)
}

// h3: every API-path call that (transitively) sends on a channel which a Close method closes is made on the
// not-closed branch of a closed test, with a lock held in read mode that the closing site holds in write mode.
func h3(p *Prog, o *obls) {
	la := p.Locks()
	closes := closeSites(p)
	var closeMethods []*ssa.Function
	for _, f := range p.Funcs {
		if f.Name() == "Close" && f.Signature.Recv() != nil {
			closeMethods = append(closeMethods, f)
		}
	}
	inClose := reachableFuncs(p, closeMethods, false)
	lifecycle := map[string]bool{}
	for _, cs := range closes {
		if inClose[cs.fn] {
			for id := range cs.ids {
				lifecycle[id] = true
			}
		}
	}
	isLifecycle := func(ids map[string]bool) bool { return identsOverlap(ids, lifecycle) }
	// plain sends (outside select) on closable channels: sending on a closed channel panics
	type sendSite struct {
		fn *ssa.Function
		at *ssa.Send
		cs []closeSite
	}
	var sends []sendSite
	for _, fn := range p.Funcs {
		instrsOf(fn, func(in ssa.Instruction) {
			sd, ok := in.(*ssa.Send)
			if !ok {
				return
			}
			ids := chanIdents(p, sd.Chan)
			var cl []closeSite
			for _, cs := range closes {
				if identsOverlap(ids, cs.ids) {
					cl = append(cl, cs)
				}
			}
			if len(cl) > 0 {
				sends = append(sends, sendSite{fn, sd, cl})
			}
		})
	}
	if len(sends) == 0 {
		if !p.Fixture {
			o.undecided("H3", "no-send", "-", "anchor unresolved: no send on a closable channel found")
		}
		return
	}
	for _, s := range sends {
		key := fmt.Sprintf("%s:send-on-closable", funcKey(s.fn))
		// callers on API paths: find the API function(s) from which s.fn is reached and check the gate at the call
		var problems []string
		gated := 0
		checkSite := func(fn *ssa.Function, at ssa.Instruction) {
			held := la.info[fn].before[at]
			// closed test on the false branch
			// … at this call, or — when the function is only reached through calls the analysis sees — at every call of
			// it (the per-packet body of WriteRTCP moved into a helper that the gated loop calls)
			var closedAt func(fn *ssa.Function, at ssa.Instruction, depth int) bool
			closedAt = func(fn *ssa.Function, at ssa.Instruction, depth int) bool {
				for _, f := range dominatingFactsInstr(at) {
					f = normFact(f)
					if c, ok := f.cond.(*ssa.Call); ok && !f.truth {
						if sc := c.Call.StaticCallee(); sc != nil && isClosedPredicate(p, sc, isLifecycle) {
							return true
						}
					}
				}
				if depth >= 3 || !la.internal[fn] || len(la.sites[fn]) == 0 {
					return false
				}
				for _, up := range la.sites[fn] {
					if _, isGo := up.(*ssa.Go); isGo {
						return false
					}
					if !closedAt(up.Parent(), up, depth+1) {
						return false
					}
				}
				return true
			}
			closedOK := closedAt(fn, at, 0)
			lockOK := false
			for _, cs := range s.cs {
				ch := la.info[cs.fn].before[cs.call]
				for l, m := range held {
					if m >= 1 && ch[l] == 2 {
						lockOK = true
					}
				}
			}
			if !closedOK {
				problems = append(problems, fmt.Sprintf("the send reached from %s is not on the not-closed branch of a closed test: after Close it sends on a closed channel (panic) or blocks", p.instrPos(at)))
			}
			if !lockOK {
				problems = append(problems, fmt.Sprintf("at %s no lock is held (read) that the closing site holds exclusively: Close can close the channel between the closed test and the send", p.instrPos(at)))
			}
			if closedOK && lockOK {
				gated++
			}
		}
		// direct API function or callers
		sites := la.sites[s.fn]
		if len(sites) == 0 {
			checkSite(s.fn, s.at)
		}
		for _, site := range sites {
			checkSite(site.Parent(), site)
		}
		if len(problems) > 0 {
			o.bad("H3", key, p.instrPos(s.at), strings.Join(dedupe(problems), "; "))
		} else {
			o.ok("H3", key, p.instrPos(s.at), fmt.Sprintf("%d call path(s): closed test passed and the close-excluding lock read-held at each", gated))
		}
	}
}
