package main

// W1 — a named result that is never assigned is not what a successful return hands back. A function that declares
// `(consumed int, nextRef time.Time, acks []Ack, err error)` and fills its results through locals returns them
// explicitly on every path; a new early return that lists the *named result itself* (`return consumed, nextRef,
// result, nil`) where nothing ever assigned it hands back the zero value — the running reference time restarts at
// zero, a length becomes 0 — while every other successful return computes that position. The contradiction is in the
// source: the identifier is declared, never written (no assignment, no ++/--, no address taken, no bare return that
// would make it the channel for a deferred update), and still returned next to a nil error although sibling returns
// put a computed value there.
//
// This rule reads the syntax tree (the named result disappears from the SSA form: lifting turns it into a constant).

import (
	"fmt"
	"go/ast"
	"go/token"
	"go/types"
	"sort"
	"strings"

	"golang.org/x/tools/go/packages"
	"golang.org/x/tools/go/ssa"
)

func init() {
	registerEngine("W", []string{"W1"}, runEngineW)
}

func runEngineW(p *Prog, o *obls) {
	infoOf := map[string]*packages.Package{}
	packages.Visit(p.Pkgs, nil, func(pk *packages.Package) {
		if pk.Types != nil && pk.TypesInfo != nil {
			infoOf[pk.Types.Path()] = pk
		}
	})
	perPkg := map[string]int{}
	pkgs := map[string]bool{}
	for _, fn := range p.Funcs {
		pkgs[pkgRelOf(fn)] = true
		var ftype *ast.FuncType
		var body *ast.BlockStmt
		switch x := fn.Syntax().(type) {
		case *ast.FuncDecl:
			ftype, body = x.Type, x.Body
		case *ast.FuncLit:
			ftype, body = x.Type, x.Body
		}
		if ftype == nil || body == nil || ftype.Results == nil || fn.Pkg == nil {
			continue
		}
		pk := infoOf[fn.Pkg.Pkg.Path()]
		if pk == nil {
			continue
		}
		info := pk.TypesInfo
		// named results, by position
		var names []*ast.Ident
		for _, f := range ftype.Results.List {
			if len(f.Names) == 0 {
				names = nil
				break
			}
			names = append(names, f.Names...)
		}
		if len(names) == 0 {
			continue
		}
		perPkg[pkgRelOf(fn)]++
		objAt := make([]types.Object, len(names))
		for i, n := range names {
			if n.Name != "_" {
				objAt[i] = info.Defs[n]
			}
		}
		written := map[types.Object]bool{}
		bare := false
		mark := func(e ast.Expr) {
			if id, ok := ast.Unparen(e).(*ast.Ident); ok {
				if ob := info.Uses[id]; ob != nil {
					written[ob] = true
				}
			}
		}
		ast.Inspect(body, func(n ast.Node) bool {
			switch x := n.(type) {
			case *ast.AssignStmt:
				for _, l := range x.Lhs {
					mark(l)
				}
			case *ast.IncDecStmt:
				mark(x.X)
			case *ast.UnaryExpr:
				if x.Op == token.AND {
					mark(x.X)
				}
			case *ast.RangeStmt:
				if x.Key != nil {
					mark(x.Key)
				}
				if x.Value != nil {
					mark(x.Value)
				}
			}
			return true
		})
		// returns of this function (not of nested literals)
		var rets []*ast.ReturnStmt
		var walk func(n ast.Node) bool
		walk = func(n ast.Node) bool {
			switch x := n.(type) {
			case *ast.FuncLit:
				return false
			case *ast.ReturnStmt:
				if len(x.Results) == 0 {
					bare = true
				} else if len(x.Results) == len(names) {
					rets = append(rets, x)
				}
			}
			return true
		}
		ast.Inspect(body, walk)
		if bare {
			continue
		}
		errPos := -1
		if last := len(names) - 1; objAt[last] != nil && isErrorType(objAt[last].Type()) {
			errPos = last
		}
		isNilIdent := func(e ast.Expr) bool {
			id, ok := ast.Unparen(e).(*ast.Ident)
			return ok && id.Name == "nil" && info.Uses[id] == types.Universe.Lookup("nil")
		}
		for i, ob := range objAt {
			if ob == nil || i == errPos || written[ob] {
				continue
			}
			var zeroRets, computed []*ast.ReturnStmt
			for _, r := range rets {
				if errPos >= 0 && !isNilIdent(r.Results[errPos]) {
					continue // a failing return: the other results are don't-cares
				}
				if id, ok := ast.Unparen(r.Results[i]).(*ast.Ident); ok && info.Uses[id] == ob {
					zeroRets = append(zeroRets, r)
					continue
				}
				if tv, ok := info.Types[r.Results[i]]; ok && tv.Value != nil {
					continue // a constant
				}
				if isNilIdent(r.Results[i]) {
					continue
				}
				if cl, ok := ast.Unparen(r.Results[i]).(*ast.CompositeLit); ok && len(cl.Elts) == 0 {
					continue // an explicit zero value
				}
				computed = append(computed, r)
			}
			if len(zeroRets) == 0 {
				continue
			}
			key := fmt.Sprintf("%s:result(%s)", funcKey(fn), ob.Name())
			pos := p.Pos(zeroRets[0].Pos())
			if len(computed) > 0 {
				o.bad("W1", key, pos, fmt.Sprintf("the named result %s is never assigned, yet the successful return at %s hands it back (its zero value) while the return at %s computes that result: the caller continues with a zero where the other paths give it the running value", ob.Name(), pos, p.Pos(computed[0].Pos())))
			} else {
				o.ok("W1", key, pos, fmt.Sprintf("the named result %s is never assigned and returned as such on every successful path that lists it (consistently zero)", ob.Name()))
			}
		}
	}
	var ps []string
	for k := range pkgs {
		ps = append(ps, k)
	}
	sort.Strings(ps)
	for _, pk := range ps {
		o.trivial("W1", pk+":inspected", "-", fmt.Sprintf("%d function(s) with named results inspected", perPkg[pk]))
	}
	_ = strings.TrimSpace
	_ = ssa.Value(nil)
}
