package main

import (
	"fmt"
	"go/token"
	"go/types"
	"strings"

	"golang.org/x/tools/go/ssa"
)

// Engines I (transport-wide sequence numbers, C15), J (congruence abstract interpretation of Unwrap, C20) and
// L (jitter-buffer structure, C18) — DESIGN.md §3 I, J, L.

func init() {
	registerEngine("I", []string{"I1", "I2", "I3", "I4"}, runEngineI)
	registerEngine("J", []string{"J1", "J2"}, runEngineJ)
	registerEngine("L", []string{"L1", "L2", "L3", "L4", "L5"}, runEngineL)
}

// ---- I ------------------------------------------------------------------------------------------------------------

func isAtomicCall(c *ssa.CallCommon) (string, bool) {
	sc := c.StaticCallee()
	if sc == nil || sc.Pkg == nil || sc.Pkg.Pkg.Path() != "sync/atomic" {
		return "", false
	}
	return sc.Name(), true
}

func runEngineI(p *Prog, o *obls) {
	closures, _ := p.PktClosures()
	n := 0
	for _, c := range closures {
		if c.Kind != RTPWriter {
			continue
		}
		// writer closures that set a header extension from a shared counter
		setExtIn := func(fn *ssa.Function) []*ssa.Call {
			var out []*ssa.Call
			instrsOf(fn, func(in ssa.Instruction) {
				if call, ok := in.(*ssa.Call); ok {
					if sc := call.Call.StaticCallee(); sc != nil && sc.Name() == "SetExtension" && sc.Signature.Recv() != nil && typeKey(sc.Signature.Recv().Type()) == "github.com/pion/rtp.Header" {
						out = append(out, call)
					}
				}
			})
			return out
		}
		closureFn := c.Fn
		setExt := setExtIn(c.Fn)
		var helperCall *ssa.Call
		var p2 []string
		if len(setExt) == 0 {
			// the per-packet work moved into a named helper the closure delegates to: analyse the helper, and require
			// that the closure runs it at most once per packet
			var helperCalls []*ssa.Call
			var helper *ssa.Function
			instrsOf(closureFn, func(in ssa.Instruction) {
				if call, ok := in.(*ssa.Call); ok {
					if sc := call.Call.StaticCallee(); sc != nil && p.InUniverse(sc) && sc.Blocks != nil && sc != closureFn && len(setExtIn(sc)) > 0 {
						helperCalls = append(helperCalls, call)
						helper = sc
					}
				}
			})
			if len(helperCalls) != 1 {
				continue
			}
			setExt = setExtIn(helper)
			hc := helperCalls[0]
			helperCall = hc
			bf, _ := pathCounts(closureFn, func(in ssa.Instruction) bool { return in == ssa.Instruction(hc) })
			for _, b := range closureFn.Blocks {
				if ret, ok := b.Instrs[len(b.Instrs)-1].(*ssa.Return); ok && b != closureFn.Recover && bf[ret]&4 != 0 {
					p2 = append(p2, fmt.Sprintf("a path to the return at %s runs the numbering helper more than once for one packet (gap)", p.instrPos(ret)))
				}
			}
			c = &PktClosure{Fn: helper, Kind: c.Kind, Owner: c.Owner, Conv: c.Conv, Next: c.Next}
			// keep the literal's key: the obligation is about the Bind method's writer
		}
		n++
		key := funcKey(closureFn)
		if c.Fn == closureFn {
			key = closureKey(c)
		}
		pos := p.Pos(closureFn.Pos())
		var p1 []string
		// allocation sites: atomic read-modify-write calls on a field
		var allocs []*ssa.Call
		atomicOf := map[*ssa.Call]*ssa.Call{} // allocation site in the closure → the atomic call that performs it
		instrsOf(c.Fn, func(in ssa.Instruction) {
			if call, ok := in.(*ssa.Call); ok {
				if name, ok := isAtomicCall(&call.Call); ok {
					if strings.HasPrefix(name, "Add") {
						allocs = append(allocs, call)
						atomicOf[call] = call
					} else {
						p1 = append(p1, fmt.Sprintf("%s at %s is not a read-modify-write: two writers can obtain the same number", name, p.instrPos(call)))
					}
					return
				}
				// an allocation helper: a repository function that performs exactly one atomic Add on every path and
				// returns a value computed from it (takeSequenceNumber())
				if sc := call.Call.StaticCallee(); sc != nil && p.InUniverse(sc) && sc.Blocks != nil && sc != c.Fn {
					var inner []*ssa.Call
					instrsOf(sc, func(in2 ssa.Instruction) {
						if c2, ok := in2.(*ssa.Call); ok {
							if name, ok := isAtomicCall(&c2.Call); ok && strings.HasPrefix(name, "Add") {
								inner = append(inner, c2)
							}
						}
					})
					if len(inner) != 1 {
						return
					}
					bf, _ := pathCounts(sc, func(i3 ssa.Instruction) bool { return i3 == ssa.Instruction(inner[0]) })
					once, derives := true, false
					for _, b := range sc.Blocks {
						if ret, ok := b.Instrs[len(b.Instrs)-1].(*ssa.Return); ok && b != sc.Recover {
							if bf[ret] != 2 {
								once = false
							}
							for _, r := range ret.Results {
								if p.backwardReaches(r, func(v ssa.Value) bool { return v == ssa.Value(inner[0]) }) {
									derives = true
								}
							}
						}
					}
					if once && derives {
						allocs = append(allocs, call)
						atomicOf[call] = inner[0]
					}
				}
			}
		})
		for _, se := range setExt {
			payload := se.Call.Args[2]
			srcs := 0
			for _, a := range allocs {
				if p.backwardReaches(payload, func(v ssa.Value) bool { return v == ssa.Value(a) }) {
					srcs++
					if !instrDominates(a, se) {
						p2 = append(p2, fmt.Sprintf("the allocation at %s does not dominate SetExtension at %s", p.instrPos(a), p.instrPos(se)))
					}
					if at := atomicOf[a]; len(at.Call.Args) < 2 || !isConstInt(at.Call.Args[1], 1) {
						p1 = append(p1, fmt.Sprintf("the counter is advanced by %s, not by the constant 1: numbers are not consecutive", valueString(at.Call.Args[1])))
					}
				}
			}
			if srcs == 0 {
				p1 = append(p1, fmt.Sprintf("the extension written at %s does not derive from the result of an atomic fetch-and-add", p.instrPos(se)))
			}
			// no plain load of the counter field flows into the extension
			plain := p.backwardReaches(payload, func(v ssa.Value) bool {
				u, ok := v.(*ssa.UnOp)
				if !ok || u.Op != token.MUL {
					return false
				}
				fa, ok := u.X.(*ssa.FieldAddr)
				if !ok {
					return false
				}
				for _, a := range allocs {
					if afa, ok := atomicOf[a].Call.Args[0].(*ssa.FieldAddr); ok && fieldKeyAddr(afa) == fieldKeyAddr(fa) {
						return true
					}
				}
				return false
			})
			if plain {
				p1 = append(p1, fmt.Sprintf("the extension written at %s uses a second, plain read of the counter instead of the fetch-and-add result", p.instrPos(se)))
			}
		}
		// one counter for the whole transport: the address handed to the fetch-and-add is a field of the interceptor
		// itself — not an element of a table selected by something of the stream (its extension ID, its SSRC), and not a
		// field of a per-stream object: two streams of one connection would each start from zero
		for _, a := range allocs {
			at := atomicOf[a]
			if len(at.Call.Args) == 0 {
				continue
			}
			addr := at.Call.Args[0]
			if fv, isFV := addr.(*ssa.FreeVar); isFV {
				addr = resolveFreeVar(fv)
			}
			switch x := p.origin(addr).(type) {
			case *ssa.FieldAddr:
				_ = x
			case *ssa.IndexAddr:
				p1 = append(p1, fmt.Sprintf("the counter advanced at %s is an element of a table (%s), selected per stream: streams of one transport draw from different counters and hand out the same numbers", p.instrPos(at), shortExpr(p, x.X)))
			}
		}
		// the counter only ever moves forward by one: nothing else in the repository stores to it (a reset on Unbind or
		// Close makes the numbers of a stream that is still sending repeat)
		counters := map[string]bool{}
		for _, a := range allocs {
			if afa, ok := atomicOf[a].Call.Args[0].(*ssa.FieldAddr); ok {
				counters[fieldKeyAddr(afa)] = true
			}
		}
		for _, f := range p.Funcs {
			instrsOf(f, func(in ssa.Instruction) {
				switch x := in.(type) {
				case *ssa.Call:
					name, ok := isAtomicCall(&x.Call)
					if !ok || len(x.Call.Args) == 0 {
						return
					}
					fa, ok := x.Call.Args[0].(*ssa.FieldAddr)
					if !ok || !counters[fieldKeyAddr(fa)] {
						return
					}
					if strings.HasPrefix(name, "Store") || strings.HasPrefix(name, "Swap") || strings.HasPrefix(name, "CompareAndSwap") {
						p1 = append(p1, fmt.Sprintf("the counter is overwritten by %s at %s (in %s): numbers already handed out are handed out again", name, p.instrPos(x), funcKey(f)))
					} else if strings.HasPrefix(name, "Add") && (len(x.Call.Args) < 2 || !isConstInt(x.Call.Args[1], 1)) {
						p1 = append(p1, fmt.Sprintf("the counter is moved by %s at %s (in %s), not by the constant 1", valueString(x.Call.Args[1]), p.instrPos(x), funcKey(f)))
					}
				case *ssa.Store:
					fa, ok := x.Addr.(*ssa.FieldAddr)
					if !ok || !counters[fieldKeyAddr(fa)] || freshlyBuilt(p, fa, f) {
						return
					}
					p1 = append(p1, fmt.Sprintf("the counter is assigned at %s (in %s): numbers already handed out are handed out again", p.instrPos(x), funcKey(f)))
				}
			})
		}
		if len(p1) > 0 {
			o.bad("I1", key, pos, strings.Join(dedupe(p1), "; "))
		} else {
			o.ok("I1", key, pos, fmt.Sprintf("%d SetExtension site(s): the value derives from the result of one atomic.Add*(…, 1)", len(setExt)))
		}
		// I2: at most one allocation per path
		isAlloc := func(in ssa.Instruction) bool {
			for _, a := range allocs {
				if in == ssa.Instruction(a) {
					return true
				}
			}
			return false
		}
		before, _ := pathCounts(c.Fn, isAlloc)
		for _, b := range c.Fn.Blocks {
			if ret, ok := b.Instrs[len(b.Instrs)-1].(*ssa.Return); ok && b != c.Fn.Recover {
				if before[ret]&4 != 0 {
					p2 = append(p2, fmt.Sprintf("a path to the return at %s allocates more than one number for one packet (gap)", p.instrPos(ret)))
				}
			}
		}
		// allocations inside loops
		for _, a := range allocs {
			if reachableFrom(a.Block())[a.Block()] {
				p2 = append(p2, fmt.Sprintf("the allocation at %s is inside a loop", p.instrPos(a)))
			}
		}
		if len(p2) > 0 {
			o.bad("I2", key, pos, strings.Join(dedupe(p2), "; "))
		} else {
			o.ok("I2", key, pos, "at most one allocation on every path, dominating SetExtension")
		}
		// I4: a number that was allocated leaves on the packet it was allocated for. From every allocation, every path to
		// a downstream write passes a SetExtension: a packet forwarded without the extension after the counter was
		// advanced (a pass-through test moved behind the allocation) leaves a gap in the run the receiver sees.
		{
			isSet := func(in ssa.Instruction) bool {
				for _, se := range setExt {
					if in == ssa.Instruction(se) {
						return true
					}
				}
				return false
			}
			var p4 []string
			nW := 0
			for _, a := range allocs {
				fnA := a.Parent()
				instrsOf(fnA, func(in ssa.Instruction) {
					w, ok := in.(*ssa.Call)
					if !ok || !isChainWrite(p, w) {
						return
					}
					nW++
					if pathAvoiding(a, w, isSet) {
						p4 = append(p4, fmt.Sprintf("the downstream write at %s can be reached from the allocation at %s without a SetExtension in between: the number is consumed but leaves on no packet (a gap)", p.instrPos(w), p.instrPos(a)))
					}
				})
			}
			// and no packet of the negotiated stream leaves without a number: every downstream write in the numbering
			// function is preceded by the SetExtension on every path from its entry (a per-packet pass-through — an SSRC
			// guard copied from another interceptor — lets repair packets of the stream out unnumbered)
			if len(setExt) > 0 {
				fnS := setExt[0].Parent()
				entry := fnS.Blocks[0].Instrs[0]
				instrsOf(fnS, func(in ssa.Instruction) {
					w, ok := in.(*ssa.Call)
					if !ok || !isChainWrite(p, w) {
						return
					}
					if isSet(entry) {
						return
					}
					if pathAvoiding(entry, w, isSet) || entry == ssa.Instruction(w) {
						p4 = append(p4, fmt.Sprintf("the downstream write at %s can be reached without the SetExtension: a packet written on the negotiated stream leaves without a transport-wide number", p.instrPos(w)))
					}
				})
			}
			if helperCall != nil && nW == 0 {
				// helper form: allocation and SetExtension live in the helper, the downstream write in the closure.
				// In the helper: a return reached from the allocation without a SetExtension, or reached with the
				// SetExtension's error possibly non-nil, hands back a non-nil error (the error itself, or a value known
				// non-nil there). In the closure: the downstream write runs only where the helper's error is nil.
				h := c.Fn
				errIdx := h.Signature.Results().Len() - 1
				if errIdx < 0 || !isErrorType(h.Signature.Results().At(errIdx).Type()) {
					p4 = append(p4, fmt.Sprintf("the numbering helper %s cannot report a failed SetExtension (no error result)", shortCallee(funcKey(h))))
				} else {
					for _, b := range h.Blocks {
						ret, ok := b.Instrs[len(b.Instrs)-1].(*ssa.Return)
						if !ok || b == h.Recover {
							continue
						}
						rv := returnedValue(ret, errIdx)
						nonNil := func() bool {
							if cst, isC := rv.(*ssa.Const); isC {
								return !cst.IsNil()
							}
							if u, isU := rv.(*ssa.UnOp); isU && u.Op == token.MUL {
								if _, isG := u.X.(*ssa.Global); isG {
									return true // a package-level error value (errHeaderIsNil)
								}
							}
							if _, isMI := rv.(*ssa.MakeInterface); isMI {
								return true // a freshly built error
							}
							if c2, isCall := rv.(*ssa.Call); isCall && c2.Call.StaticCallee() != nil && (c2.Call.StaticCallee().Name() == "Errorf" || c2.Call.StaticCallee().Name() == "New" || c2.Call.StaticCallee().Name() == "Join") {
								return true
							}
							return p.nilnessAt(rv, b) == 1
						}
						for _, a := range allocs {
							if a.Parent() == h && pathAvoiding(a, ret, isSet) && !nonNil() {
								p4 = append(p4, fmt.Sprintf("the helper's return at %s can be reached from the allocation at %s without a SetExtension and does not fail: the number is consumed but leaves on no packet (a gap)", p.instrPos(ret), p.instrPos(a)))
							}
						}
						for _, se := range setExt {
							if se.Parent() != h || !canReach(se, ret) {
								continue
							}
							var es ssa.Value = se
							if p.nilnessAt(es, b) == -1 || nonNil() {
								continue
							}
							carries := false
							seen := map[ssa.Value]bool{}
							var walk func(v ssa.Value)
							walk = func(v ssa.Value) {
								if seen[v] {
									return
								}
								seen[v] = true
								if v == es || p.origin(v) == es {
									carries = true
								}
								if ph, ok := v.(*ssa.Phi); ok {
									for _, e := range ph.Edges {
										walk(e)
									}
								}
							}
							walk(rv)
							if !carries {
								p4 = append(p4, fmt.Sprintf("the error of the SetExtension at %s does not reach the helper's return at %s (a shadowed variable, a dropped result): when the header refuses the extension the helper reports success and the packet leaves without its number", p.instrPos(se), p.instrPos(ret)))
							}
						}
					}
					var he ssa.Value
					if _, isTuple := helperCall.Type().(*types.Tuple); isTuple {
						if fe := errExtract(helperCall); fe != nil {
							he = fe
						}
					} else {
						he = helperCall
					}
					instrsOf(closureFn, func(in ssa.Instruction) {
						w, ok := in.(*ssa.Call)
						if !ok || !isChainWrite(p, w) || !canReach(helperCall, w) {
							return
						}
						nW++
						if he == nil || p.nilnessAt(he, w.Block()) != -1 {
							p4 = append(p4, fmt.Sprintf("the downstream write at %s runs although the numbering helper called at %s may have failed", p.instrPos(w), p.instrPos(helperCall)))
						}
					})
				}
			}
			if len(p4) > 0 {
				o.bad("I4", key, pos, strings.Join(dedupe(p4), "; "))
			} else if nW > 0 {
				o.ok("I4", key, pos, fmt.Sprintf("%d downstream write(s) reachable from an allocation, each behind a SetExtension", nW))
			}
		}
		// I3: the Bind method hands its writer back unwrapped only when the extension was not negotiated. Every return
		// of the writer parameter itself is control dependent on nothing but tests of the negotiated id against 0.
		if bind := c.Owner; bind != nil && c.nextSource() != nil {
			var p3 []string
			nPass := 0
			pdom := postDominators(bind)
			for _, b := range bind.Blocks {
				ret, ok := b.Instrs[len(b.Instrs)-1].(*ssa.Return)
				if !ok || len(ret.Results) != 1 || p.origin(ret.Results[0]) != ssa.Value(c.nextSource()) {
					continue
				}
				nPass++
				for cb := range transitiveControlDeps(bind, pdom, b) {
					cnd := ifCond(cb)
					if cnd == nil {
						continue
					}
					if !i3NotNegotiatedTest(p, cnd, bind) {
						p3 = append(p3, fmt.Sprintf("the writer is handed back unwrapped at %s under the condition at %s, which is not the test that the extension was not negotiated (id == 0): a stream that negotiated the extension can leave without it", p.instrPos(ret), p.instrPosV(cnd)))
					}
				}
			}
			if len(p3) > 0 {
				o.bad("I3", key, pos, strings.Join(dedupe(p3), "; "))
			} else {
				o.ok("I3", key, pos, fmt.Sprintf("%d pass-through return(s) of the Bind method, each only under the not-negotiated test", nPass))
			}
		}
	}
	if n == 0 {
		o.undecided("I1", "no-closure", "-", "anchor unresolved: no writer closure sets a header extension")
	}
}

// pathAvoiding: control can flow from just after `from` to `to` without executing an instruction for which stop holds.
func pathAvoiding(from, to ssa.Instruction, stop func(ssa.Instruction) bool) bool {
	fb := from.Block()
	scan := func(b *ssa.BasicBlock, start int) (reached, blocked bool) {
		for i := start; i < len(b.Instrs); i++ {
			if b.Instrs[i] == to {
				return true, false
			}
			if stop(b.Instrs[i]) {
				return false, true
			}
		}
		return false, false
	}
	if r, blk := scan(fb, instrIndex(from)+1); r {
		return true
	} else if blk {
		return false
	}
	seen := map[*ssa.BasicBlock]bool{}
	work := append([]*ssa.BasicBlock{}, fb.Succs...)
	for len(work) > 0 {
		b := work[len(work)-1]
		work = work[:len(work)-1]
		if seen[b] {
			continue
		}
		seen[b] = true
		r, blk := scan(b, 0)
		if r {
			return true
		}
		if blk {
			continue
		}
		work = append(work, b.Succs...)
	}
	return false
}

// i3NotNegotiatedTest: cond compares the negotiated extension id with the constant 0 (either polarity), or is part of
// the search for it (a comparison of a URI with the transport-wide-CC constant, the range over the extension list).
func i3NotNegotiatedTest(p *Prog, cond ssa.Value, bind *ssa.Function) bool {
	bo, ok := p.origin(cond).(*ssa.BinOp)
	if !ok {
		return false
	}
	if bo.Op == token.EQL || bo.Op == token.NEQ {
		for _, pair := range [][2]ssa.Value{{bo.X, bo.Y}, {bo.Y, bo.X}} {
			if isConstInt(pair[1], 0) && twccIDValue(p, pair[0], bind, twccIsIDField, twccUsesURI) {
				return true
			}
			if c, ok := pair[1].(*ssa.Const); ok && c.Value != nil && strings.Contains(c.Value.ExactString(), "transport-wide-cc-extensions") {
				return true
			}
		}
	}
	// the loop condition of the search over info.RTPHeaderExtensions
	if bo.Op == token.LSS {
		if c, ok := p.origin(bo.Y).(*ssa.Call); ok && builtinName(&c.Call) == "len" {
			return true
		}
	}
	return false
}

// ---- J ------------------------------------------------------------------------------------------------------------

type unwrapSpec struct {
	fn    string // function key
	param int    // index of the uint16 input among fn.Params
	state string // field key of the stored result
}

var unwrapSpecs = []unwrapSpec{
	{"internal/sequencenumber.(*Unwrapper).Unwrap", 1, "internal/sequencenumber.Unwrapper.lastUnwrapped"},
	{"fixtures/fx.(*GoodJ1).Unwrap", 1, "fixtures/fx.GoodJ1.last"},
	{"fixtures/fx.(*BadJ1).Unwrap", 1, "fixtures/fx.BadJ1.last"},
	{"fixtures/fx.(*GoodJ2).Unwrap", 1, "fixtures/fx.GoodJ2.last"},
	{"fixtures/fx.(*BadJ2).Unwrap", 1, "fixtures/fx.BadJ2.last"},
}

// aff is a·i + b·L + c modulo 2^16, or ⊤.
type aff struct {
	a, b, c int64
	top     bool
}

const mod16 = 65536

func norm(x int64) int64 { return ((x % mod16) + mod16) % mod16 }

func (x aff) String() string {
	if x.top {
		return "⊤"
	}
	return fmt.Sprintf("%d·i + %d·L + %d (mod 2^16)", x.a, x.b, x.c)
}

func affJoin(x, y aff) aff {
	if x.top || y.top || x != y {
		return aff{top: true}
	}
	return x
}

func runEngineJ(p *Prog, o *obls) {
	for _, spec := range unwrapSpecs {
		if p.Fixture != strings.HasPrefix(spec.fn, "fixtures/") {
			continue
		}
		fn := p.FuncByKey(spec.fn)
		if fn == nil {
			o.undecided("J1", spec.fn, "-", "anchor unresolved: function not found")
			continue
		}
		j1(p, o, fn, spec)
		j2(p, o, fn, spec)
	}
}

func j1(p *Prog, o *obls, fn *ssa.Function, spec unwrapSpec) {
	input := fn.Params[spec.param]
	isState := func(addr ssa.Value) bool {
		fa, ok := addr.(*ssa.FieldAddr)
		return ok && fieldKeyAddr(fa) == spec.state
	}
	// cell state on entry to each block; values of instructions
	cellIn := map[*ssa.BasicBlock]aff{}
	have := map[*ssa.BasicBlock]bool{}
	cellOut := map[*ssa.BasicBlock]aff{}
	val := map[ssa.Value]aff{}
	var eval func(v ssa.Value) aff
	eval = func(v ssa.Value) aff {
		if a, ok := val[v]; ok {
			return a
		}
		switch x := v.(type) {
		case *ssa.Parameter:
			if x == input {
				return aff{a: 1}
			}
			return aff{top: true}
		case *ssa.Const:
			if c, ok := constInt(x); ok {
				return aff{c: norm(c)}
			}
			return aff{top: true}
		}
		return aff{top: true}
	}
	cellIn[fn.Blocks[0]] = aff{b: 1}
	have[fn.Blocks[0]] = true
	for iter := 0; iter < 20; iter++ {
		changed := false
		for _, b := range fn.Blocks {
			if b != fn.Blocks[0] {
				var m aff
				got := false
				for _, pr := range b.Preds {
					if !have[pr] {
						continue
					}
					if !got {
						m, got = cellOut[pr], true
					} else {
						m = affJoin(m, cellOut[pr])
					}
				}
				if !got {
					continue
				}
				if !have[b] || cellIn[b] != m {
					cellIn[b], have[b] = m, true
					changed = true
				}
			}
			cell := cellIn[b]
			for _, in := range b.Instrs {
				var nv aff
				set := false
				switch x := in.(type) {
				case *ssa.UnOp:
					if x.Op == token.MUL && isState(x.X) {
						nv, set = cell, true
					} else if x.Op == token.SUB {
						a := eval(x.X)
						if a.top {
							nv = a
						} else {
							nv = aff{a: norm(-a.a), b: norm(-a.b), c: norm(-a.c)}
						}
						set = true
					} else {
						nv, set = aff{top: true}, true
					}
				case *ssa.Convert:
					// integer conversions between widths ≥ 16 bits preserve the class modulo 2^16
					if bt, ok := x.Type().Underlying().(*types.Basic); ok && bt.Info()&types.IsInteger != 0 && bt.Kind() != types.Uint8 && bt.Kind() != types.Int8 {
						nv, set = eval(x.X), true
					} else {
						nv, set = aff{top: true}, true
					}
				case *ssa.BinOp:
					l, r := eval(x.X), eval(x.Y)
					switch {
					case l.top || r.top:
						nv = aff{top: true}
					case x.Op == token.ADD:
						nv = aff{a: norm(l.a + r.a), b: norm(l.b + r.b), c: norm(l.c + r.c)}
					case x.Op == token.SUB:
						nv = aff{a: norm(l.a - r.a), b: norm(l.b - r.b), c: norm(l.c - r.c)}
					case x.Op == token.MUL && l.a == 0 && l.b == 0:
						nv = aff{a: norm(l.c * r.a), b: norm(l.c * r.b), c: norm(l.c * r.c)}
					case x.Op == token.MUL && r.a == 0 && r.b == 0:
						nv = aff{a: norm(r.c * l.a), b: norm(r.c * l.b), c: norm(r.c * l.c)}
					default:
						nv = aff{top: true}
					}
					set = true
				case *ssa.Phi:
					first := true
					for i, e := range x.Edges {
						if !have[b.Preds[i]] {
							continue
						}
						ev := eval(e)
						if _, known := val[e]; !known {
							if _, isInstr := e.(ssa.Instruction); isInstr {
								continue // not yet evaluated (back edge)
							}
						}
						if first {
							nv, first = ev, false
						} else {
							nv = affJoin(nv, ev)
						}
					}
					set = !first
				case *ssa.Store:
					if isState(x.Addr) {
						cell = eval(x.Val)
					}
				case *ssa.Call:
					if v, ok := in.(ssa.Value); ok {
						_ = v
						nv, set = aff{top: true}, true
					}
				}
				if set {
					if v, ok := in.(ssa.Value); ok {
						if old, had := val[v]; !had || old != nv {
							val[v] = nv
							changed = true
						}
					}
				}
			}
			if cellOut[b] != cell {
				cellOut[b] = cell
				changed = true
			}
		}
		if !changed {
			break
		}
	}
	var problems []string
	nRet := 0
	for _, b := range fn.Blocks {
		ret, ok := b.Instrs[len(b.Instrs)-1].(*ssa.Return)
		if !ok || b == fn.Recover {
			continue
		}
		nRet++
		rv := eval(ret.Results[0])
		want := aff{a: 1}
		if rv != want {
			problems = append(problems, fmt.Sprintf("the value returned at %s is %s, not congruent to the input for every input and state", p.instrPos(ret), rv))
		}
		if cellOut[b] != want {
			problems = append(problems, fmt.Sprintf("the state stored when returning at %s is %s, not congruent to the input", p.instrPos(ret), cellOut[b]))
		}
	}
	key := funcKey(fn)
	if nRet == 0 {
		problems = append(problems, "no return found")
	}
	if len(problems) > 0 {
		o.bad("J1", key, p.Pos(fn.Pos()), strings.Join(problems, "; "))
	} else {
		o.ok("J1", key, p.Pos(fn.Pos()), fmt.Sprintf("abstract interpretation over ℤ/2^16 with symbols i (input) and L (previous result): on all %d returns the result and the stored state are 1·i + 0·L + 0", nRet))
	}
}

// ---- L ------------------------------------------------------------------------------------------------------------

type gateSpec struct {
	typ        string // buffer type
	stateField string
	queueField string
	headField  string
	prefix     string // gated methods
}

var gateSpecs = []gateSpec{
	{"pkg/jitterbuffer.JitterBuffer", "state", "packets", "playoutHead", "Pop"},
	{"fixtures/fx.GoodLbuf", "state", "q", "head", "Pop"},
	{"fixtures/fx.BadLbuf", "state", "q", "head", "Pop"},
}

// clearSpec: in T.Clear the listed root fields (from which queries traverse) are reset.
type clearSpec struct {
	typ   string
	roots []string
}

var clearSpecs = []clearSpec{
	{"pkg/jitterbuffer.PriorityQueue", []string{"next"}},
	{"pkg/jitterbuffer.JitterBuffer", []string{"packets"}},
	{"internal/rtpbuffer.RTPBuffer", []string{"packets"}},
	{"fixtures/fx.GoodL3list", []string{"head"}},
	{"fixtures/fx.BadL3list", []string{"head"}},
}

func runEngineL(p *Prog, o *obls) {
	l4ListInsert(p, o)
	l5ListUnlink(p, o)
	for _, gs := range gateSpecs {
		if p.Fixture != strings.HasPrefix(gs.typ, "fixtures/") {
			continue
		}
		t := p.namedByKey(gs.typ)
		if t == nil {
			o.undecided("L1", gs.typ, "-", "anchor unresolved: type not found")
			continue
		}
		found := 0
		for i := 0; i < t.NumMethods(); i++ {
			m := t.Method(i)
			if !strings.HasPrefix(m.Name(), gs.prefix) || !m.Exported() {
				continue
			}
			fn := p.SSA.FuncValue(m)
			if fn == nil || fn.Blocks == nil {
				continue
			}
			found++
			l1l2(p, o, fn, gs)
		}
		if found == 0 {
			o.undecided("L1", gs.typ, "-", "anchor unresolved: no gated method found")
		}
		l2StartsAtFirst(p, o, gs)
		l1PlaybackStart(p, o, gs)
		// wherever the pop bookkeeping ended up (a shared helper taking a closure, a helper taking the error): no method of
		// the buffer's type modifies the queue on a branch on which an error is known non-nil
		queueKey := gs.typ + "." + gs.queueField
		fmemo := map[*ssa.Function]int{}
		for _, fn := range p.Funcs {
			top := fn
			for top.Parent() != nil {
				top = top.Parent()
			}
			if top.Signature.Recv() == nil || typeKey(deref(top.Signature.Recv().Type())) != gs.typ {
				continue
			}
			instrsOf(fn, func(in ssa.Instruction) {
				c2, ok := in.(*ssa.Call)
				if !ok || len(c2.Call.Args) == 0 {
					return
				}
				sc := c2.Call.StaticCallee()
				if sc == nil || !p.InUniverse(sc) || sc.Signature.Recv() == nil {
					return
				}
				u, ok := p.origin(c2.Call.Args[0]).(*ssa.UnOp)
				if !ok || u.Op != token.MUL {
					return
				}
				fa, ok := u.X.(*ssa.FieldAddr)
				if !ok || fieldKeyAddr(fa) != queueKey || !mutatesReceiver(p, sc, 0, fmemo) {
					return
				}
				for _, f := range dominatingFactsInstr(c2) {
					f = normFact(f)
					bo, ok := f.cond.(*ssa.BinOp)
					if !ok || (bo.Op != token.NEQ && bo.Op != token.EQL) || (bo.Op == token.NEQ) != f.truth {
						continue
					}
					var other ssa.Value
					if isNilConst(bo.Y) {
						other = bo.X
					} else if isNilConst(bo.X) {
						other = bo.Y
					}
					if other != nil && isErrorType(other.Type()) {
						o.bad("L2", funcKey(fn)+":failure-branch", p.instrPos(c2), fmt.Sprintf("%s, which modifies the queue, is called at %s on a branch on which the error tested at %s is non-nil: a pop that fails disturbs the buffer", shortCallee(funcKey(sc)), p.instrPos(c2), p.instrPosV(bo)))
					}
				}
			})
		}
	}
	for _, cs := range clearSpecs {
		if p.Fixture != strings.HasPrefix(cs.typ, "fixtures/") {
			continue
		}
		t := p.namedByKey(cs.typ)
		if t == nil {
			o.undecided("L3", cs.typ, "-", "anchor unresolved: type not found")
			continue
		}
		fn := p.DeclaredMethod(t, "Clear")
		if fn == nil {
			o.undecided("L3", cs.typ+".Clear", "-", "anchor unresolved: no Clear method")
			continue
		}
		// besides the listed roots, every field that points into a linked structure (pointer to a struct that points
		// to itself) keeps old nodes reachable: a cached tail or cursor must be reset as well
		var roots []string
		if st, ok := t.Underlying().(*types.Struct); ok {
			have := map[string]bool{}
			for i := 0; i < st.NumFields(); i++ {
				have[cFieldName(st.Field(i))] = true
			}
			for _, r := range cs.roots {
				if have[r] {
					roots = append(roots, r)
				} else {
					o.note("L3", cs.typ+".Clear:"+r, p.Pos(fn.Pos()), "the listed root field no longer exists (the container was replaced); the roots derived from the type's fields are checked instead")
				}
			}
			// a slice or map of the cleared type holds the buffered elements just as a list head does
			for i := 0; i < st.NumFields(); i++ {
				switch st.Field(i).Type().Underlying().(type) {
				case *types.Slice, *types.Map:
					name := cFieldName(st.Field(i))
					dup := false
					for _, r := range roots {
						if r == name {
							dup = true
						}
					}
					if !dup && len(cs.roots) > 0 && !have[cs.roots[0]] {
						roots = append(roots, name)
					}
				}
			}
			// a map of the cleared type that is filled by a method that also fills a root (an index of what is buffered:
			// `buffered[seq] = struct{}{}` beside `packets.Push`) describes the same elements and is emptied with them
			vm := map[*ssa.Function]int{}
			for i := 0; i < st.NumFields(); i++ {
				if _, isMap := st.Field(i).Type().Underlying().(*types.Map); !isMap {
					continue
				}
				name := cFieldName(st.Field(i))
				fkM := cs.typ + "." + name
				shadow := false
				for _, m := range p.Funcs {
					if m.Blocks == nil || m.Signature.Recv() == nil || typeKey(deref(m.Signature.Recv().Type())) != cs.typ || isConstructor(p, m) {
						continue
					}
					fills, touchesRoot := false, false
					instrsOf(m, func(in ssa.Instruction) {
						switch x := in.(type) {
						case *ssa.MapUpdate:
							if loadsFieldKey(p, x.Map, fkM) {
								fills = true
							}
						case *ssa.Call:
							sc := x.Call.StaticCallee()
							if sc == nil || len(x.Call.Args) == 0 || sc.Signature.Recv() == nil {
								return
							}
							for _, r := range roots {
								if loadsFieldKey(p, x.Call.Args[0], cs.typ+"."+r) && mutatesReceiver(p, sc, 0, vm) {
									touchesRoot = true
								}
							}
						}
					})
					if fills && touchesRoot {
						shadow = true
					}
				}
				dup := false
				for _, r := range roots {
					if r == name {
						dup = true
					}
				}
				if shadow && !dup {
					roots = append(roots, name)
				}
			}
			for i := 0; i < st.NumFields(); i++ {
				pt, ok := st.Field(i).Type().(*types.Pointer)
				if !ok {
					continue
				}
				nn := namedOf(pt.Elem())
				if nn == nil {
					continue
				}
				ns, ok := nn.Underlying().(*types.Struct)
				if !ok {
					continue
				}
				self := false
				for j := 0; j < ns.NumFields(); j++ {
					if p2, ok := ns.Field(j).Type().(*types.Pointer); ok && types.Identical(p2.Elem(), nn) {
						self = true
					}
				}
				name := cFieldName(st.Field(i))
				dup := false
				for _, r := range roots {
					if r == name {
						dup = true
					}
				}
				if self && !dup {
					if onlyWipedEnter(p, cs.typ+"."+name) {
						o.note("L3", cs.typ+".Clear:"+name, p.Pos(fn.Pos()), "a free list: every node stored into this field was zeroed first (`*n = node{}`) or comes from the field's own chain, so it keeps no packet reachable; Clear need not reset it")
						continue
					}
					roots = append(roots, name)
				}
			}
		}
		for _, root := range roots {
			key := cs.typ + ".Clear:" + root
			if w := rootReset(p, fn, cs.typ+"."+root); w != "" {
				o.ok("L3", key, p.Pos(fn.Pos()), w)
			} else {
				o.bad("L3", key, p.Pos(fn.Pos()), fmt.Sprintf("Clear does not reset %s.%s (not assigned nil/fresh, not element-cleared over its whole range, not delegated to its own Clear): what was buffered before Clear stays reachable and can still be found or popped", cs.typ, root))
			}
		}
	}
}

// l1l2: every call on the queue is on the Emitting branch of a state test whose other branch returns an error (L1);
// the head only moves where the queue call's error is known nil (L2).
func l1l2(p *Prog, o *obls, fn *ssa.Function, gs gateSpec) {
	key := funcKey(fn)
	pos := p.Pos(fn.Pos())
	stateKey, queueKey, headKey := gs.typ+"."+gs.stateField, gs.typ+"."+gs.queueField, gs.typ+"."+gs.headField
	directQ := func(c *ssa.Call) bool {
		if len(c.Call.Args) == 0 || c.Call.StaticCallee() == nil {
			return false
		}
		if u, ok := c.Call.Args[0].(*ssa.UnOp); ok && u.Op == token.MUL {
			if fa, ok := u.X.(*ssa.FieldAddr); ok && fieldKeyAddr(fa) == queueKey {
				return true
			}
		}
		return false
	}
	qcallsOf := func(g *ssa.Function) []*ssa.Call {
		var out []*ssa.Call
		instrsOf(g, func(in ssa.Instruction) {
			c, ok := in.(*ssa.Call)
			if !ok {
				return
			}
			if directQ(c) {
				out = append(out, c)
				return
			}
			// a call of a function parameter (template method: popLocked(take func() (*rtp.Packet, error), …)) whose
			// every argument is a literal that performs the queue call
			if _, isPar := p.origin(c.Call.Value).(*ssa.Parameter); isPar && !c.Call.IsInvoke() && c.Call.StaticCallee() == nil {
				cs := p.Callees(c)
				all := len(cs) > 0
				for _, lit := range cs {
					has := false
					if p.InUniverse(lit) {
						instrsOf(lit, func(in2 ssa.Instruction) {
							if c2, ok := in2.(*ssa.Call); ok && directQ(c2) {
								has = true
							}
						})
					}
					if !has {
						all = false
					}
				}
				if all {
					out = append(out, c)
				}
			}
		})
		return out
	}
	qcalls := qcallsOf(fn)
	var orig *ssa.Function   // the gated method, when the work was delegated to a helper
	var helperCall *ssa.Call // its call of the helper
	if len(qcalls) == 0 {
		// the gated work moved into one helper on the same object (popLocked): analyse the helper
		var helpers []*ssa.Function
		instrsOf(fn, func(in ssa.Instruction) {
			c, ok := in.(*ssa.Call)
			if !ok {
				return
			}
			h := c.Call.StaticCallee()
			if h == nil || !p.InUniverse(h) || h.Blocks == nil || h == fn || len(c.Call.Args) == 0 || len(fn.Params) == 0 || p.origin(c.Call.Args[0]) != ssa.Value(fn.Params[0]) {
				return
			}
			if len(qcallsOf(h)) > 0 {
				helpers = append(helpers, h)
			}
		})
		if len(helpers) == 1 {
			orig = fn
			fn = helpers[0]
			qcalls = qcallsOf(fn)
			instrsOf(orig, func(in ssa.Instruction) {
				if c, ok := in.(*ssa.Call); ok && c.Call.StaticCallee() == fn {
					helperCall = c
				}
			})
		}
	}
	if len(qcalls) == 0 {
		o.undecided("L1", key, pos, "no call on the queue found")
		return
	}
	var problems []string
	for _, qc := range qcalls {
		gated := false
		facts := dominatingFactsInstr(qc)
		if helperCall != nil {
			// the state test may have stayed in the gated method, in front of the call of the helper
			facts = append(facts, dominatingFactsInstr(helperCall)...)
		}
		for _, f := range facts {
			f = normFact(f)
			bo, ok := f.cond.(*ssa.BinOp)
			if !ok || (bo.Op != token.NEQ && bo.Op != token.EQL) {
				continue
			}
			u, ok := bo.X.(*ssa.UnOp)
			if !ok || u.Op != token.MUL {
				continue
			}
			fa, ok := u.X.(*ssa.FieldAddr)
			if !ok || fieldKeyAddr(fa) != stateKey {
				continue
			}
			if _, isConst := bo.Y.(*ssa.Const); !isConst {
				continue
			}
			// state != Emitting is false (or state == Emitting is true) here
			if (bo.Op == token.NEQ) != f.truth {
				// the other branch must return a non-nil error
				iff := u.Block()
				_ = iff
				gated = true
			}
		}
		if !gated {
			problems = append(problems, fmt.Sprintf("the queue call at %s is not guarded by the playback-state test: a pop before playback has started is not refused", p.instrPos(qc)))
		}
	}
	// the refusing branch returns an error
	refuses := false
	refFns := []*ssa.Function{fn}
	if orig != nil {
		refFns = append(refFns, orig)
	}
	for _, rf := range refFns {
		for _, b := range rf.Blocks {
			ret, ok := b.Instrs[len(b.Instrs)-1].(*ssa.Return)
			if !ok || len(ret.Results) < 2 {
				continue
			}
			for _, f := range dominatingFacts(b) {
				f = normFact(f)
				if bo, ok := f.cond.(*ssa.BinOp); ok {
					if u, ok := bo.X.(*ssa.UnOp); ok && u.Op == token.MUL {
						if fa, ok := u.X.(*ssa.FieldAddr); ok && fieldKeyAddr(fa) == stateKey && (bo.Op == token.NEQ) == f.truth {
							if p.nonNilError(ret.Results[len(ret.Results)-1], b) {
								refuses = true
							}
						}
					}
				}
			}
		}
	}
	if !refuses && len(problems) == 0 {
		problems = append(problems, "the not-playing branch does not return an error")
	}
	if len(problems) > 0 {
		o.bad("L1", key, pos, strings.Join(problems, "; "))
	} else {
		o.ok("L1", key, pos, fmt.Sprintf("%d queue call(s), all on the playing branch of the state test; the other branch returns an error", len(qcalls)))
	}
	// L2
	var headStores []*ssa.Store
	instrsOf(fn, func(in ssa.Instruction) {
		if st, ok := in.(*ssa.Store); ok {
			if fa, ok := st.Addr.(*ssa.FieldAddr); ok && fieldKeyAddr(fa) == headKey {
				headStores = append(headStores, st)
			}
		}
	})
	var p2 []string
	nDelegated := 0
	// head stores in a helper of the same object that receives the queue call's error (`popped(pkt, err, advance)`)
	instrsOf(fn, func(in ssa.Instruction) {
		call, ok := in.(*ssa.Call)
		if !ok {
			return
		}
		h := call.Call.StaticCallee()
		if h == nil || !p.InUniverse(h) || h.Blocks == nil || h == fn || len(call.Call.Args) == 0 || len(fn.Params) == 0 || p.origin(call.Call.Args[0]) != ssa.Value(fn.Params[0]) {
			return
		}
		instrsOf(h, func(in2 ssa.Instruction) {
			st, ok := in2.(*ssa.Store)
			if !ok {
				return
			}
			fa, ok := st.Addr.(*ssa.FieldAddr)
			if !ok || fieldKeyAddr(fa) != headKey {
				return
			}
			nDelegated++
			guarded := false
			for i, q := range h.Params {
				if !isErrorType(q.Type()) || p.nilnessAt(q, st.Block()) != -1 || i >= len(call.Call.Args) {
					continue
				}
				for _, qc := range qcalls {
					if fe := errExtract(qc); fe != nil && p.origin(call.Call.Args[i]) == ssa.Value(fe) && canReach(qc, call) {
						guarded = true
					}
				}
			}
			if !guarded {
				p2 = append(p2, fmt.Sprintf("the playout head is advanced at %s (in %s, called at %s) without the queue call's error being known nil there", p.instrPos(st), funcKey(h), p.instrPos(call)))
			}
		})
		// the same helper must not modify the queue where the error it was handed is known non-nil
		hmemo := map[*ssa.Function]int{}
		instrsOf(h, func(in2 ssa.Instruction) {
			c2, ok := in2.(*ssa.Call)
			if !ok || len(c2.Call.Args) == 0 {
				return
			}
			sc := c2.Call.StaticCallee()
			if sc == nil || !p.InUniverse(sc) || sc.Signature.Recv() == nil {
				return
			}
			u, ok := p.origin(c2.Call.Args[0]).(*ssa.UnOp)
			if !ok || u.Op != token.MUL {
				return
			}
			fa, ok := u.X.(*ssa.FieldAddr)
			if !ok || fieldKeyAddr(fa) != queueKey || !mutatesReceiver(p, sc, 0, hmemo) {
				return
			}
			for i, q := range h.Params {
				if !isErrorType(q.Type()) || p.nilnessAt(q, c2.Block()) != 1 || i >= len(call.Call.Args) {
					continue
				}
				for _, qc := range qcalls {
					if fe := errExtract(qc); fe != nil && p.origin(call.Call.Args[i]) == ssa.Value(fe) {
						p2 = append(p2, fmt.Sprintf("%s, which modifies the queue, is called at %s (in %s) where the error of the pop at %s is known non-nil: a pop for a number that is not buffered disturbs the buffer", shortCallee(funcKey(sc)), p.instrPos(c2), funcKey(h), p.instrPos(qc)))
					}
				}
			}
		})
	})
	// a failed pop leaves the queue as it was: where the queue call's error is known non-nil, nothing calls a method
	// of the queue that writes through its receiver ("fails without disturbing the buffer")
	vmemo := map[*ssa.Function]int{}
	for _, qc := range qcalls {
		fe := errExtract(qc)
		if fe == nil || len(qc.Call.Args) == 0 {
			continue
		}
		qk := p.pureKey(qc.Call.Args[0])
		instrsOf(fn, func(in ssa.Instruction) {
			c2, ok := in.(*ssa.Call)
			if !ok || c2 == qc || len(c2.Call.Args) == 0 || !canReach(qc, c2) {
				return
			}
			sc := c2.Call.StaticCallee()
			if sc == nil || !p.InUniverse(sc) || sc.Signature.Recv() == nil || p.pureKey(c2.Call.Args[0]) != qk {
				return
			}
			if p.nilnessAt(fe, c2.Block()) != 1 || !mutatesReceiver(p, sc, 0, vmemo) {
				return
			}
			p2 = append(p2, fmt.Sprintf("%s, which modifies the queue, is called at %s where the pop at %s is known to have failed: a pop for a number that is not buffered disturbs the buffer", shortCallee(funcKey(sc)), p.instrPos(c2), p.instrPos(qc)))
		})
	}
	if len(headStores) == 0 && nDelegated == 0 && len(p2) == 0 {
		return
	}
	for _, st := range headStores {
		ok := false
		for _, qc := range qcalls {
			if fe := errExtract(qc); fe != nil && canReach(qc, st) && p.nilnessAt(fe, st.Block()) == -1 {
				ok = true
			}
		}
		if !ok {
			p2 = append(p2, fmt.Sprintf("the playout head is advanced at %s on a path where the queue call may have failed: a pop for a number that is not buffered disturbs the buffer", p.instrPos(st)))
		}
		// a pop moves the head by one: what is stored is the head's previous value plus the constant 1 (consecutive
		// numbers). A head set from the popped packet's own number jumps over everything buffered in between.
		step := false
		if bo, isBin := p.origin(st.Val).(*ssa.BinOp); isBin && bo.Op == token.ADD {
			for _, pair := range [][2]ssa.Value{{bo.X, bo.Y}, {bo.Y, bo.X}} {
				if ld, isLd := p.origin(pair[0]).(*ssa.UnOp); isLd && ld.Op == token.MUL && isConstInt(pair[1], 1) {
					if fa, isFa := ld.X.(*ssa.FieldAddr); isFa && fieldKeyAddr(fa) == headKey {
						step = true
					}
				}
			}
		}
		if !step {
			p2 = append(p2, fmt.Sprintf("the playout head is set at %s to something other than its previous value plus one: the next pop does not continue with the consecutive number", p.instrPos(st)))
		}
	}
	if len(p2) > 0 {
		o.bad("L2", key, pos, strings.Join(p2, "; "))
	} else {
		o.ok("L2", key, pos, fmt.Sprintf("%d store(s) to the playout head, all on the success branch of the queue call", len(headStores)+nDelegated))
	}
}

// rootReset: how Clear resets the root field ("" if it does not).
func rootReset(p *Prog, fn *ssa.Function, rootKey string) string {
	res := ""
	loops := findRangeLoops(fn)
	instrsOf(fn, func(in ssa.Instruction) {
		switch x := in.(type) {
		case *ssa.Store:
			if fa, ok := x.Addr.(*ssa.FieldAddr); ok && fieldKeyAddr(fa) == rootKey {
				// unconditional? must be in a block that every return passes
				switch p.origin(x.Val).(type) {
				case *ssa.Const, *ssa.MakeSlice, *ssa.MakeMap, *ssa.Alloc, *ssa.Call:
					if onEveryPath(fn, x) {
						res = "root assigned nil / a fresh value at " + p.instrPos(x)
					}
				}
			}
			// element cleared inside a range loop over the whole root slice
			if ia, ok := x.Addr.(*ssa.IndexAddr); ok && isNilConst(x.Val) {
				for _, l := range loops {
					if l.Index == ia.Index && loadsFieldKey(p, l.Slice, rootKey) && loadsFieldKey(p, ia.X, rootKey) && len(l.Exits) == 0 {
						res = "every element of the root slice is set to nil in an exhaustive range loop"
					}
				}
			}
		case *ssa.Call:
			// the clear builtin zeroes every element of a slice / removes every key of a map
			if b, ok := x.Call.Value.(*ssa.Builtin); ok && b.Name() == "clear" && len(x.Call.Args) == 1 && loadsFieldKey(p, x.Call.Args[0], rootKey) && onEveryPath(fn, x) {
				res = "every element of the root is cleared by the clear builtin at " + p.instrPos(x)
			}
			if sc := x.Call.StaticCallee(); sc != nil && sc.Name() == "Clear" && len(x.Call.Args) > 0 && loadsFieldKey(p, x.Call.Args[0], rootKey) && onEveryPath(fn, x) {
				res = "delegated to the root object's own Clear at " + p.instrPos(x)
			}
			// a helper method on the same receiver (reset(), resetLocked()) that resets the root on every path
			if sc := x.Call.StaticCallee(); sc != nil && p.InUniverse(sc) && sc != fn && sc.Blocks != nil && sc.Signature.Recv() != nil &&
				len(x.Call.Args) > 0 && len(fn.Params) > 0 && p.origin(x.Call.Args[0]) == ssa.Value(fn.Params[0]) && onEveryPath(fn, x) && !resetVisiting[sc] {
				resetVisiting[sc] = true
				if w := rootReset(p, sc, rootKey); w != "" {
					res = w + " (in the helper " + sc.Name() + " called at " + p.instrPos(x) + ")"
				}
				delete(resetVisiting, sc)
			}
		}
	})
	return res
}

var resetVisiting = map[*ssa.Function]bool{}

func loadsFieldKey(p *Prog, v ssa.Value, fk string) bool {
	if u, ok := p.origin(v).(*ssa.UnOp); ok && u.Op == token.MUL {
		if fa, ok := u.X.(*ssa.FieldAddr); ok {
			return fieldKeyAddr(fa) == fk
		}
	}
	return false
}

// onEveryPath: the instruction's block dominates every returning block.
func onEveryPath(fn *ssa.Function, in ssa.Instruction) bool {
	for _, b := range fn.Blocks {
		if _, isRet := b.Instrs[len(b.Instrs)-1].(*ssa.Return); isRet && b != fn.Recover {
			if !(in.Block() == b || in.Block().Dominates(b)) {
				return false
			}
		}
	}
	return true
}

// ---- J2: non-negativity of the unwrapped value by induction --------------------------------------------------------

// linForm is Σ coef·atom + c over the integers (no wrap-around: the quantities are 64-bit sums of values below 2^17
// plus the state, far from overflow — stated as an assumption). Atoms are either the previous state L (≥ 0 by the
// induction hypothesis) or values of unsigned type (≥ 0).
type linForm struct {
	coef map[string]int64
	c    int64
}

func (a linForm) add(b linForm, sign int64) linForm {
	r := linForm{coef: map[string]int64{}, c: a.c + sign*b.c}
	for k, v := range a.coef {
		r.coef[k] += v
	}
	for k, v := range b.coef {
		r.coef[k] += sign * v
	}
	for k, v := range r.coef {
		if v == 0 {
			delete(r.coef, k)
		}
	}
	return r
}

func (a linForm) equal(b linForm) bool {
	if a.c != b.c || len(a.coef) != len(b.coef) {
		return false
	}
	for k, v := range a.coef {
		if b.coef[k] != v {
			return false
		}
	}
	return true
}

func (a linForm) String() string {
	var parts []string
	for _, k := range sortedKeys(a.coef) {
		parts = append(parts, fmt.Sprintf("%d·%s", a.coef[k], k))
	}
	parts = append(parts, fmt.Sprintf("%d", a.c))
	return strings.Join(parts, " + ")
}

type altForm struct {
	f   linForm
	ctx *ssa.BasicBlock // block whose dominating facts apply to this alternative
	ok  bool
}

type j2ctx struct {
	p       *Prog
	fn      *ssa.Function
	isState func(ssa.Value) bool
}

func isUnsigned(t types.Type) bool {
	b, ok := t.Underlying().(*types.Basic)
	return ok && b.Info()&types.IsUnsigned != 0
}

// forms expands v into its alternatives (one per φ path), each a linear form with the block whose facts apply.
func (j *j2ctx) forms(v ssa.Value, ctx *ssa.BasicBlock, depth int) []altForm {
	bad := []altForm{{ok: false, ctx: ctx}}
	if depth > 12 {
		return bad
	}
	if isUnsigned(v.Type()) {
		// any value of unsigned type is a non-negative integer
		return []altForm{{f: linForm{coef: map[string]int64{"u:" + v.Name(): 1}}, ctx: ctx, ok: true}}
	}
	switch x := v.(type) {
	case *ssa.Const:
		if c, ok := constInt(x); ok {
			return []altForm{{f: linForm{coef: map[string]int64{}, c: c}, ctx: ctx, ok: true}}
		}
	case *ssa.Convert:
		if isUnsigned(x.X.Type()) {
			return []altForm{{f: linForm{coef: map[string]int64{"u:" + x.X.Name(): 1}}, ctx: ctx, ok: true}}
		}
		return j.forms(x.X, ctx, depth+1)
	case *ssa.UnOp:
		if x.Op == token.MUL && j.isState(x.X) {
			// the value last stored in this block, else the state on entry (if no store can reach this load)
			b := x.Block()
			for i := instrIndex(x) - 1; i >= 0; i-- {
				if st, ok := b.Instrs[i].(*ssa.Store); ok && j.isState(st.Addr) {
					return j.forms(st.Val, ctx, depth+1)
				}
			}
			reached := false
			instrsOf(j.fn, func(in ssa.Instruction) {
				if st, ok := in.(*ssa.Store); ok && j.isState(st.Addr) && canReach(st, x) {
					reached = true
				}
			})
			if reached {
				return bad
			}
			return []altForm{{f: linForm{coef: map[string]int64{"L": 1}}, ctx: ctx, ok: true}}
		}
	case *ssa.BinOp:
		if x.Op != token.ADD && x.Op != token.SUB {
			return bad
		}
		sign := int64(1)
		if x.Op == token.SUB {
			sign = -1
		}
		var out []altForm
		for _, l := range j.forms(x.X, ctx, depth+1) {
			for _, r := range j.forms(x.Y, ctx, depth+1) {
				if !l.ok || !r.ok {
					out = append(out, altForm{ok: false, ctx: ctx})
					continue
				}
				// the more specific context (a φ edge's predecessor) wins
				c := l.ctx
				if r.ctx != ctx {
					c = r.ctx
				}
				out = append(out, altForm{f: l.f.add(r.f, sign), ctx: c, ok: true})
			}
		}
		return out
	case *ssa.Phi:
		var out []altForm
		for i, e := range x.Edges {
			out = append(out, j.forms(e, x.Block().Preds[i], depth+1)...)
		}
		return out
	}
	return bad
}

// nonNegative: the form is a non-negative combination of non-negative atoms, or a dominating branch says so.
func (j *j2ctx) nonNegative(a altForm) (bool, string) {
	if !a.ok {
		return false, "not a linear expression over the input and the previous state"
	}
	pos := a.f.c >= 0
	for _, v := range a.f.coef {
		if v < 0 {
			pos = false
		}
	}
	if pos {
		return true, ""
	}
	for _, f := range dominatingFacts(a.ctx) {
		f = normFact(f)
		bo, ok := f.cond.(*ssa.BinOp)
		if !ok {
			continue
		}
		// E >= 0 true, or E < 0 false
		if !((bo.Op == token.GEQ && f.truth) || (bo.Op == token.LSS && !f.truth)) || !isConstInt(bo.Y, 0) {
			continue
		}
		for _, g := range j.forms(bo.X, a.ctx, 0) {
			if g.ok && g.f.equal(a.f) {
				return true, ""
			}
		}
	}
	return false, "can be negative: " + a.f.String() + " with no dominating test that it is ≥ 0"
}

func j2(p *Prog, o *obls, fn *ssa.Function, spec unwrapSpec) {
	j := &j2ctx{p: p, fn: fn, isState: func(addr ssa.Value) bool {
		fa, ok := addr.(*ssa.FieldAddr)
		return ok && fieldKeyAddr(fa) == spec.state
	}}
	var problems []string
	n := 0
	// the induction needs the state to be written by this function only
	for _, f2 := range p.Funcs {
		if f2 == fn || isConstructor(p, f2) {
			continue
		}
		instrsOf(f2, func(in ssa.Instruction) {
			if st, ok := in.(*ssa.Store); ok && j.isState(st.Addr) && sharedBase(p, f2, st.Addr.(*ssa.FieldAddr).X) {
				problems = append(problems, fmt.Sprintf("the state is also written at %s (in %s): the induction hypothesis does not hold", p.instrPos(st), funcKey(f2)))
			}
		})
	}
	check := func(v ssa.Value, at ssa.Instruction, what string) {
		for _, a := range j.forms(v, at.Block(), 0) {
			n++
			if ok, why := j.nonNegative(a); !ok {
				problems = append(problems, fmt.Sprintf("%s at %s %s", what, p.instrPos(at), why))
			}
		}
	}
	instrsOf(fn, func(in ssa.Instruction) {
		switch x := in.(type) {
		case *ssa.Store:
			if j.isState(x.Addr) {
				check(x.Val, x, "the state stored")
			}
		case *ssa.Return:
			if x.Block() != fn.Recover && len(x.Results) > 0 {
				check(x.Results[0], x, "the value returned")
			}
		}
	})
	key := funcKey(fn)
	if len(problems) > 0 {
		o.bad("J2", key, p.Pos(fn.Pos()), strings.Join(dedupe(problems), "; "))
	} else {
		o.ok("J2", key, p.Pos(fn.Pos()), fmt.Sprintf("induction on the state: assuming the previous result L ≥ 0, all %d path alternatives of the stored state and of the returned value are non-negative (sum of non-negative terms, or guarded by a dominating `… >= 0` test of exactly that linear expression)", n))
	}
}

// ---- L4: a node inserted into a linked list is linked between two different neighbours ---------------------------------

// l4ListInsert: for every self-referential node type of the universe (a struct with a field of type pointer-to-itself)
// and every function that links a freshly created node N with `N.f = B` and `A.f = N` (insertion between A and B), A
// and B cannot be the same node. They can when both are loop variables that start from the same value and the stores
// can be reached without another iteration (the classic "prev := head" initialisation): N.f = X; X.f = N is a cycle
// of length two, every later traversal that does not find its key spins forever. The zero-iteration path is excluded
// when one of the conditions needed to reach the stores, specialised to the initial values, contradicts a fact that
// holds before the loop.
func l4ListInsert(p *Prog, o *obls) {
	selfField := func(t types.Type) map[int]bool {
		n := namedOf(t)
		if n == nil {
			return nil
		}
		st, ok := n.Underlying().(*types.Struct)
		if !ok {
			return nil
		}
		out := map[int]bool{}
		for i := 0; i < st.NumFields(); i++ {
			if pt, ok := st.Field(i).Type().(*types.Pointer); ok && types.Identical(pt.Elem(), n) {
				out[i] = true
			}
		}
		return out
	}
	for _, fn := range p.Funcs {
		type link struct {
			st   *ssa.Store
			base ssa.Value // X in X.f = V
			val  ssa.Value
			fld  int
		}
		var links []link
		instrsOf(fn, func(in ssa.Instruction) {
			st, ok := in.(*ssa.Store)
			if !ok {
				return
			}
			fa, ok := st.Addr.(*ssa.FieldAddr)
			if !ok || !selfField(fa.X.Type())[fa.Field] {
				return
			}
			links = append(links, link{st, fa.X, st.Val, fa.Field})
		})
		if len(links) < 2 {
			continue
		}
		fresh := func(v ssa.Value) bool {
			switch x := p.origin(v).(type) {
			case *ssa.Alloc:
				return x.Heap
			case *ssa.Call:
				sc := x.Call.StaticCallee()
				return sc != nil && isConstructor(p, sc)
			}
			return false
		}
		n := 0
		var bad []string
		for _, l1 := range links { // N.f = B
			if !fresh(l1.base) || isNilConst(p.origin(l1.val)) {
				continue
			}
			N := p.origin(l1.base)
			for _, l2 := range links { // A.f = N
				if l2.fld != l1.fld || p.origin(l2.val) != N || fresh(l2.base) {
					continue
				}
				if !canReach(l1.st, l2.st) && !canReach(l2.st, l1.st) {
					continue // the two stores lie on different branches
				}
				A, B := p.origin(l2.base), p.origin(l1.val)
				n++
				if A == B {
					bad = append(bad, fmt.Sprintf("%s is stored into the new node's link at %s and is itself linked to the new node at %s: a cycle of length two", valueString(B), p.instrPos(l1.st), p.instrPos(l2.st)))
					continue
				}
				pa, okA := A.(*ssa.Phi)
				pb, okB := B.(*ssa.Phi)
				if !okA || !okB || pa.Block() != pb.Block() {
					continue
				}
				h := pa.Block()
				for i := range pa.Edges {
					ea, eb := pa.Edges[i], pb.Edges[i]
					ka := p.pureKey(ea)
					if ka != p.pureKey(eb) || strings.Contains(ka, "@0x") && p.origin(ea) != p.origin(eb) {
						continue
					}
					// zero-iteration path from this edge: are the conditions for reaching the stores consistent with
					// what is known before the loop?
					var known []condFact
					for _, f := range dominatingFacts(h.Preds[i]) {
						known = append(known, f)
					}
					// the branch out of the predecessor into the header
					if c := ifCond(h.Preds[i]); c != nil {
						for si, sc := range h.Preds[i].Succs {
							if sc == h {
								known = append(known, condFact{c, si == 0})
							}
						}
					}
					knownKeys := map[string]bool{}
					for _, g := range known {
						k, t := p.canonCondKey(g)
						knownKeys[k] = t
					}
					// enumerate the paths from the header to the later store that do not come back to the header (the
					// loop variables still hold the values of this edge); a path is infeasible if one of its branch
					// conditions, specialised to those values, contradicts a known fact or another condition of the path
					later := l2.st.Block()
					if l2.st.Block().Dominates(l1.st.Block()) {
						later = l1.st.Block()
					}
					p.keySubst = map[ssa.Value]ssa.Value{pa: ea, pb: eb}
					infeasible := true
					var dfs func(b *ssa.BasicBlock, facts map[string]bool, onPath map[*ssa.BasicBlock]bool, depth int)
					dfs = func(b *ssa.BasicBlock, facts map[string]bool, onPath map[*ssa.BasicBlock]bool, depth int) {
						if !infeasible || depth > 40 {
							return
						}
						if b == later {
							infeasible = false // a consistent path reaches the stores
							return
						}
						c := ifCond(b)
						for si, sc := range b.Succs {
							if sc == h || onPath[sc] {
								continue
							}
							nf := facts
							if c != nil {
								k, t := p.canonCondKey(condFact{c, si == 0})
								if old, ok := facts[k]; ok && old != t {
									continue // contradicts a known fact or an earlier branch of this path
								}
								nf = map[string]bool{}
								for kk, vv := range facts {
									nf[kk] = vv
								}
								nf[k] = t
							}
							onPath[sc] = true
							dfs(sc, nf, onPath, depth+1)
							delete(onPath, sc)
						}
					}
					if !reachableFrom(h)[later] {
						infeasible = true
					} else {
						dfs(h, knownKeys, map[*ssa.BasicBlock]bool{h: true}, 0)
					}
					p.keySubst = nil
					if !infeasible {
						bad = append(bad, fmt.Sprintf("the new node is inserted between %s and %s (stores at %s and %s), two loop variables that both start as %s: when the loop stops before its first step they are the same node and the list gets a cycle of length two (a later traversal for a missing key never ends)", pa.Comment, pb.Comment, p.instrPos(l2.st), p.instrPos(l1.st), valueString(ea)))
					}
				}
			}
		}
		if n == 0 {
			continue
		}
		key := funcKey(fn) + ":insert"
		if len(bad) > 0 {
			o.bad("L4", key, p.Pos(fn.Pos()), strings.Join(dedupe(bad), "; "))
		} else {
			o.ok("L4", key, p.Pos(fn.Pos()), fmt.Sprintf("%d insertion(s) of a new node between two neighbours that cannot be the same node", n))
		}
	}
}

// firstIterationReaches: with the loop variables of header h still holding the values they have on entry edge i (subst),
// is there a path from h to target that does not come back to h and whose branch conditions, specialised to those
// values and canonicalised, contradict neither each other nor what is known before the loop?
func (p *Prog) firstIterationReaches(h *ssa.BasicBlock, i int, subst map[ssa.Value]ssa.Value, target *ssa.BasicBlock) bool {
	var known []condFact
	known = append(known, dominatingFacts(h.Preds[i])...)
	if c := ifCond(h.Preds[i]); c != nil {
		for si, sc := range h.Preds[i].Succs {
			if sc == h {
				known = append(known, condFact{c, si == 0})
			}
		}
	}
	p.keySubst = subst
	defer func() { p.keySubst = nil }()
	knownKeys := map[string]bool{}
	for _, g := range known {
		k, t := p.canonCondKey(g)
		knownKeys[k] = t
	}
	if !reachableFrom(h)[target] && h != target {
		return false
	}
	reached := false
	var dfs func(b *ssa.BasicBlock, facts map[string]bool, onPath map[*ssa.BasicBlock]bool, depth int)
	dfs = func(b *ssa.BasicBlock, facts map[string]bool, onPath map[*ssa.BasicBlock]bool, depth int) {
		if reached || depth > 40 {
			return
		}
		if b == target {
			reached = true
			return
		}
		c := ifCond(b)
		for si, sc := range b.Succs {
			if sc == h || onPath[sc] {
				continue
			}
			nf := facts
			if c != nil {
				k, t := p.canonCondKey(condFact{c, si == 0})
				if old, ok := facts[k]; ok && old != t {
					continue
				}
				nf = map[string]bool{}
				for kk, vv := range facts {
					nf[kk] = vv
				}
				nf[k] = t
			}
			onPath[sc] = true
			dfs(sc, nf, onPath, depth+1)
			delete(onPath, sc)
		}
	}
	dfs(h, knownKeys, map[*ssa.BasicBlock]bool{h: true}, 0)
	return reached
}

// l5Pair: the trailing/current pair (pa, pb) of one loop: back edges advance it as (pa := pb; pb := pb.f), and on entry
// pb is pa.f or the unlink at block `at` is unreachable in the first iteration.
func l5Pair(p *Prog, pa, pb *ssa.Phi, field int, fname string, at *ssa.BasicBlock, where string, guardNonNil bool, bad, notes *[]string) {
	h := pa.Block()
	for i := range pa.Edges {
		ea, eb := pa.Edges[i], pb.Edges[i]
		if h.Dominates(h.Preds[i]) {
			adv := false
			if u, ok := p.origin(eb).(*ssa.UnOp); ok && u.Op == token.MUL {
				if fx, ok := u.X.(*ssa.FieldAddr); ok && fx.Field == field && p.origin(fx.X) == ssa.Value(pb) {
					adv = true
				}
			}
			if p.origin(ea) != ssa.Value(pb) || !adv {
				*notes = append(*notes, fmt.Sprintf("the loop at %s does not advance the pair as (trailing := current; current := current.%s): not decided", p.instrPosV(pa), fname))
			}
			continue
		}
		if p.pureKey(eb) == "*("+p.pureKey(ea)+"."+fname+")" {
			continue
		}
		// the trailing pointer starts as nil and the unlink through it is behind a test that it is not nil (`if prev ==
		// nil { head = pos.next } else { prev.next = pos.next }`): the first iteration takes the other branch
		if isNilConst(ea) && guardNonNil {
			continue
		}
		if p.firstIterationReaches(h, i, map[ssa.Value]ssa.Value{pa: ea, pb: eb}, at) {
			*bad = append(*bad, fmt.Sprintf("the unlink %s.%s = %s.%s at %s can run in the first iteration, when %s is %s and %s is %s — not its predecessor: another node is re-linked, the matched node stays in the list with its packet taken out", pa.Comment, fname, pb.Comment, fname, where, pa.Comment, shortExpr(p, ea), pb.Comment, shortExpr(p, eb)))
		}
	}
}

// l5ListUnlink (rule L5): a node is unlinked through its true predecessor. For every store `A.f = B.f` on a
// self-referential struct (f a pointer to the struct's own type: prev.next = pos.next) where A and B are the trailing
// and the current pointer of one loop — on every back edge A takes B's value and B advances along f, so A.f == B from
// the second iteration on — the first iteration must be safe too: either B starts as A.f, or the unlink cannot be
// reached while the loop variables still hold their initial values (its guard, specialised to them, contradicts a test
// that failed before the loop: the head was compared first). Otherwise the node is "removed" by re-linking some other
// node: it stays in the list, emptied, and is found again. Unlinking through the node's own back pointer
// (B.prev.f = B.f) rests on the consistency of the back pointers, a heap invariant that is noted and not decided.
func l5ListUnlink(p *Prog, o *obls) {
	selfField := func(t types.Type) map[int]bool {
		n := namedOf(t)
		if n == nil {
			return nil
		}
		st, ok := n.Underlying().(*types.Struct)
		if !ok {
			return nil
		}
		out := map[int]bool{}
		for i := 0; i < st.NumFields(); i++ {
			if pt, ok := st.Field(i).Type().(*types.Pointer); ok && types.Identical(pt.Elem(), n) {
				out[i] = true
			}
		}
		return out
	}
	for _, fn := range p.Funcs {
		n := 0
		var bad, notes []string
		instrsOf(fn, func(in ssa.Instruction) {
			st, ok := in.(*ssa.Store)
			if !ok {
				return
			}
			fa, ok := st.Addr.(*ssa.FieldAddr)
			if !ok || !selfField(fa.X.Type())[fa.Field] {
				return
			}
			ld, ok := p.origin(st.Val).(*ssa.UnOp)
			if !ok || ld.Op != token.MUL {
				return
			}
			fb, ok := ld.X.(*ssa.FieldAddr)
			if !ok || fb.Field != fa.Field || !types.Identical(fb.X.Type(), fa.X.Type()) {
				return
			}
			A, B := p.origin(fa.X), p.origin(fb.X)
			if A == B {
				return
			}
			// through the node's own back pointer
			if u, ok := A.(*ssa.UnOp); ok && u.Op == token.MUL {
				if fp, ok := u.X.(*ssa.FieldAddr); ok && p.origin(fp.X) == B && selfField(fp.X.Type())[fp.Field] {
					n++
					notes = append(notes, fmt.Sprintf("the unlink at %s goes through the node's own back pointer: rests on the back pointers being consistent (heap invariant, not decided)", p.instrPos(st)))
					return
				}
			}
			fname := "?"
			if fv := fieldOfAddr(fa); fv != nil {
				fname = fv.Name()
			}
			// the unlink sits in a helper that is handed the pair (popAfter(prev, pos)): judged at every call
			if parA, isPA := A.(*ssa.Parameter); isPA {
				if parB, isPB := B.(*ssa.Parameter); isPB {
					ia, ib := -1, -1
					for i, q := range fn.Params {
						if q == parA {
							ia = i
						}
						if q == parB {
							ib = i
						}
					}
					sites, closed := p.staticCallSites(fn)
					if ia < 0 || ib < 0 || !closed {
						return
					}
					for _, cs := range sites {
						args := cs.Common().Args
						if ia >= len(args) || ib >= len(args) {
							continue
						}
						ca, okA := p.origin(args[ia]).(*ssa.Phi)
						cb, okB := p.origin(args[ib]).(*ssa.Phi)
						if !okA || !okB || ca.Block() != cb.Block() {
							continue
						}
						n++
						l5Pair(p, ca, cb, fa.Field, fname, cs.Block(), p.instrPos(cs)+" (through "+funcKey(fn)+")", p.nilnessAt(parA, st.Block()) == 1, &bad, &notes)
					}
					return
				}
			}
			pa, okA := A.(*ssa.Phi)
			pb, okB := B.(*ssa.Phi)
			if !okA || !okB || pa.Block() != pb.Block() {
				return
			}
			n++
			l5Pair(p, pa, pb, fa.Field, fname, st.Block(), p.instrPos(st), p.nilnessAt(pa, st.Block()) == 1, &bad, &notes)
		})
		if n == 0 {
			continue
		}
		key := funcKey(fn) + ":unlink"
		switch {
		case len(bad) > 0:
			o.bad("L5", key, p.Pos(fn.Pos()), strings.Join(dedupe(bad), "; "))
		case len(notes) > 0:
			o.note("L5", key, p.Pos(fn.Pos()), strings.Join(dedupe(notes), "; "))
		default:
			o.ok("L5", key, p.Pos(fn.Pos()), fmt.Sprintf("%d unlink(s) through a trailing pointer that is the current node's predecessor in every iteration, the first included", n))
		}
	}
}

// canonCondKey renders a branch fact canonically under the current key substitution: negations are folded into the
// truth value, x != y becomes x == y with the truth flipped, and > / >= are turned into < / <= with swapped operands.
func (p *Prog) canonCondKey(f condFact) (string, bool) {
	f = normFact(f)
	bo, ok := f.cond.(*ssa.BinOp)
	if !ok {
		return p.pureKey(f.cond), f.truth
	}
	x, y, op, t := bo.X, bo.Y, bo.Op, f.truth
	switch op {
	case token.NEQ:
		op, t = token.EQL, !t
	case token.GTR: // x > y  ≡  !(x <= y)
		op, t = token.LEQ, !t
	case token.GEQ: // x >= y ≡  !(x < y)
		op, t = token.LSS, !t
	}
	kx, ky := p.pureKey(x), p.pureKey(y)
	if op == token.EQL && ky < kx {
		kx, ky = ky, kx
	}
	return "(" + kx + op.String() + ky + ")", t
}

// onlyWipedEnter: every store to the field (a pointer into a linked structure) stores nil, a node taken from the
// field's own chain (`q.free = recycled.next` with recycled loaded from q.free), or a node that the same function
// zeroed as a whole before (`*n = node{}` dominating the store): a stack of wiped nodes kept for reuse.
func onlyWipedEnter(p *Prog, fk string) bool {
	n, nWiped := 0, 0
	ok := true
	for _, fn := range p.Funcs {
		instrsOf(fn, func(in ssa.Instruction) {
			st, isSt := in.(*ssa.Store)
			if !isSt || !ok {
				return
			}
			fa, isFA := st.Addr.(*ssa.FieldAddr)
			if !isFA || fieldKeyAddr(fa) != fk || freshlyBuilt(p, fa, fn) {
				return
			}
			n++
			if isNilConst(st.Val) {
				return
			}
			v := p.origin(st.Val)
			// from the field's own chain
			if u, isU := v.(*ssa.UnOp); isU && u.Op == token.MUL {
				if lfa, isF := u.X.(*ssa.FieldAddr); isF {
					if fieldKeyAddr(lfa) == fk {
						return
					}
					if bu, isBU := p.origin(lfa.X).(*ssa.UnOp); isBU && bu.Op == token.MUL {
						if bfa, isBF := bu.X.(*ssa.FieldAddr); isBF && fieldKeyAddr(bfa) == fk {
							return
						}
					}
				}
			}
			// zeroed as a whole before
			wiped := false
			instrsOf(fn, func(in2 ssa.Instruction) {
				z, isZ := in2.(*ssa.Store)
				if !isZ || p.origin(z.Addr) != v || !instrDominates(z, st) {
					return
				}
				if c, isC := z.Val.(*ssa.Const); isC && c.Value == nil {
					wiped = true
				}
				if u, isU := z.Val.(*ssa.UnOp); isU && u.Op == token.MUL {
					if al, isAl := u.X.(*ssa.Alloc); isAl && len(p.storesInto(al)) == 0 {
						wiped = true
					}
				}
			})
			if !wiped {
				ok = false
			} else {
				nWiped++
			}
		})
	}
	return ok && n > 0 && nWiped > 0
}

// l2StartsAtFirst (rule L2, accepting side): playback starts at the first packet buffered. Outside the pop functions,
// a store that sets the playout head from a packet handed in (a value read out of a parameter, `packet.SequenceNumber`
// — not the parameter itself, which is the explicit setter) is dominated by the fact that the queue is empty
// (`queue.Length() == 0`, or a helper of the queue compared so): only the very first packet defines where playout
// starts; a later, older packet that pulled the head back would make the first pop return it and every pop after
// that wait for numbers that never arrive.
func l2StartsAtFirst(p *Prog, o *obls, gs gateSpec) {
	queueKey, headKey := gs.typ+"."+gs.queueField, gs.typ+"."+gs.headField
	for _, fn := range p.Funcs {
		if fn.Blocks == nil || fn.Signature.Recv() == nil || typeKey(deref(fn.Signature.Recv().Type())) != gs.typ || strings.HasPrefix(fn.Name(), gs.prefix) {
			continue
		}
		var bad []string
		n := 0
		instrsOf(fn, func(in ssa.Instruction) {
			st, ok := in.(*ssa.Store)
			if !ok {
				return
			}
			fa, ok := st.Addr.(*ssa.FieldAddr)
			if !ok || fieldKeyAddr(fa) != headKey {
				return
			}
			// read out of a parameter (other than the receiver)?
			fromPacket := false
			if ld, isLd := p.origin(st.Val).(*ssa.UnOp); isLd && ld.Op == token.MUL {
				if par, isPar := p.origin(addrRoot(ld.X)).(*ssa.Parameter); isPar && par != fn.Params[0] {
					fromPacket = true
				}
			}
			if !fromPacket {
				return
			}
			n++
			empty := false
			for _, f := range dominatingFactsInstr(st) {
				bo, ok := normFact(f).cond.(*ssa.BinOp)
				if !ok || !(bo.Op == token.EQL && f.truth || bo.Op == token.NEQ && !f.truth) {
					continue
				}
				for _, pair := range [][2]ssa.Value{{bo.X, bo.Y}, {bo.Y, bo.X}} {
					c, isCall := p.origin(pair[0]).(*ssa.Call)
					if !isCall || !isConstInt(pair[1], 0) || len(c.Call.Args) == 0 {
						continue
					}
					if u, isU := p.origin(c.Call.Args[0]).(*ssa.UnOp); isU && u.Op == token.MUL {
						if qfa, isQ := u.X.(*ssa.FieldAddr); isQ && fieldKeyAddr(qfa) == queueKey {
							empty = true
						}
					}
				}
			}
			if !empty {
				bad = append(bad, fmt.Sprintf("the playout head is set from the packet handed in at %s on a path where the queue is not known to be empty", p.instrPos(st)))
			}
		})
		if n == 0 {
			continue
		}
		key := funcKey(fn) + ":starts-at-first"
		if len(bad) > 0 {
			o.bad("L2", key, p.Pos(fn.Pos()), strings.Join(dedupe(bad), "; ")+": playback starts at the first packet buffered, and a later packet that moves the head back strands every pop behind a number that never arrives")
		} else {
			o.ok("L2", key, p.Pos(fn.Pos()), fmt.Sprintf("%d store(s) of a pushed packet's number to the playout head, each only while the queue is empty", n))
		}
	}
}

// l1PlaybackStart (rule L1, where playback starts): popping is refused until the minimum packet count is reached. The
// state the gated methods test for ("playing": the constant the state field is compared with where they refuse) is
// entered only where the queue's length has been compared with a configured field of the buffer and found to have
// reached it: every store of that constant to the state field is dominated by such a comparison. An extra way into
// the playing state (the queue is past its overflow mark, a timer fired) lets Pop succeed before the minimum count.
func l1PlaybackStart(p *Prog, o *obls, gs gateSpec) {
	stateKey, queueKey := gs.typ+"."+gs.stateField, gs.typ+"."+gs.queueField
	// the playing constant: what gated methods compare the state with
	var playing *ssa.Const
	for _, fn := range p.Funcs {
		if fn.Blocks == nil || fn.Signature.Recv() == nil || typeKey(deref(fn.Signature.Recv().Type())) != gs.typ || !strings.HasPrefix(fn.Name(), gs.prefix) {
			continue
		}
		instrsOf(fn, func(in ssa.Instruction) {
			bo, ok := in.(*ssa.BinOp)
			if !ok || bo.Op != token.EQL && bo.Op != token.NEQ {
				return
			}
			for _, pair := range [][2]ssa.Value{{bo.X, bo.Y}, {bo.Y, bo.X}} {
				if c, isC := pair[1].(*ssa.Const); isC && loadOfField(p, pair[0], stateKey) {
					playing = c
				}
			}
		})
	}
	if playing == nil || playing.Value == nil {
		return
	}
	n := 0
	var bad []string
	var where string
	for _, fn := range p.Funcs {
		if fn.Blocks == nil || !p.InUniverse(fn) {
			continue
		}
		instrsOf(fn, func(in ssa.Instruction) {
			st, ok := in.(*ssa.Store)
			if !ok {
				return
			}
			fa, ok := st.Addr.(*ssa.FieldAddr)
			if !ok || fieldKeyAddr(fa) != stateKey {
				return
			}
			c, isC := st.Val.(*ssa.Const)
			if !isC || c.Value == nil || c.Value.ExactString() != playing.Value.ExactString() {
				return
			}
			n++
			where = p.instrPos(st)
			reached := false
			for _, f := range dominatingFactsInstr(st) {
				bo, ok := normFact(f).cond.(*ssa.BinOp)
				if !ok {
					continue
				}
				var lenSide, cfgSide ssa.Value
				ge := false
				switch {
				case (bo.Op == token.GEQ || bo.Op == token.GTR) && f.truth, (bo.Op == token.LSS || bo.Op == token.LEQ) && !f.truth:
					lenSide, cfgSide, ge = bo.X, bo.Y, true
				case (bo.Op == token.LEQ || bo.Op == token.LSS) && f.truth, (bo.Op == token.GTR || bo.Op == token.GEQ) && !f.truth:
					lenSide, cfgSide, ge = bo.Y, bo.X, true
				}
				if !ge {
					continue
				}
				call, isCall := p.origin(lenSide).(*ssa.Call)
				if !isCall || len(call.Call.Args) == 0 || !loadOfField(p, call.Call.Args[0], queueKey) {
					continue
				}
				if u, isU := p.origin(cfgSide).(*ssa.UnOp); isU && u.Op == token.MUL {
					if cfa, isF := u.X.(*ssa.FieldAddr); isF && strings.HasPrefix(fieldKeyAddr(cfa), gs.typ+".") {
						reached = true
					}
				}
			}
			if !reached {
				bad = append(bad, fmt.Sprintf("the playing state is entered at %s on a path on which the queue's length has not been found to have reached a configured count", p.instrPos(st)))
			}
		})
	}
	if n == 0 {
		return
	}
	key := gs.typ + ":playback-start"
	if len(bad) > 0 {
		o.bad("L1", key, where, strings.Join(dedupe(bad), "; ")+": a pop then succeeds before the minimum packet count is buffered")
	} else {
		o.ok("L1", key, where, fmt.Sprintf("%d store(s) of the playing state, each behind a comparison of the queue's length with a configured count", n))
	}
}
