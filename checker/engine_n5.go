package main

import (
	"fmt"
	"go/token"
	"go/types"
	"sort"
	"strings"

	"golang.org/x/tools/go/ssa"
)

// N5 — a callback that can be taken away is tested before it is called. A func-typed field that an exported method
// of the object assigns straight from its parameter after construction (OnTargetBitrateChange(f)) holds whatever the
// application passed last, nil included — passing nil is how a callback is unregistered. Every call of the field's
// value (plain, `go`, `defer`) is dominated by a test of that value against nil; a default no-op installed by the
// constructor does not survive the setter.
func init() {
	registerEngine("N5", []string{"N5"}, runEngineN5)
}

func runEngineN5(p *Prog, o *obls) {
	setBy := map[*types.Var]string{}
	keyOf := map[*types.Var]string{}
	for _, fn := range p.Funcs {
		if fn.Blocks == nil || !p.InUniverse(fn) || fn.Signature.Recv() == nil || fn.Parent() != nil || isOptionClosure(fn) || isConstructor(p, fn) {
			continue
		}
		if obj := fn.Object(); obj == nil || !obj.Exported() {
			continue
		}
		instrsOf(fn, func(in ssa.Instruction) {
			st, ok := in.(*ssa.Store)
			if !ok {
				return
			}
			fa, ok := st.Addr.(*ssa.FieldAddr)
			if !ok || p.origin(fa.X) != ssa.Value(fn.Params[0]) {
				return
			}
			if _, isFunc := st.Val.Type().Underlying().(*types.Signature); !isFunc {
				return
			}
			if par, isPar := p.origin(st.Val).(*ssa.Parameter); !isPar || par == fn.Params[0] {
				return
			}
			if fv := fieldOfAddr(fa); fv != nil {
				setBy[fv] = funcKey(fn)
				keyOf[fv] = fieldKeyAddr(fa)
			}
		})
	}
	bad := map[*types.Var][]string{}
	calls := map[*types.Var]int{}
	for _, fn := range p.Funcs {
		if fn.Blocks == nil || !p.InUniverse(fn) {
			continue
		}
		instrsOf(fn, func(in ssa.Instruction) {
			ci, ok := in.(ssa.CallInstruction)
			if !ok {
				return
			}
			cc := ci.Common()
			if cc.IsInvoke() || cc.StaticCallee() != nil {
				return
			}
			ld, ok := p.origin(cc.Value).(*ssa.UnOp)
			if !ok || ld.Op != token.MUL {
				return
			}
			fa, ok := ld.X.(*ssa.FieldAddr)
			if !ok {
				return
			}
			fv := fieldOfAddr(fa)
			if fv == nil || setBy[fv] == "" {
				return
			}
			calls[fv]++
			k := p.pureKey(ld)
			guarded := false
			for _, f := range dominatingFactsInstr(in) {
				bo, ok := normFact(f).cond.(*ssa.BinOp)
				if !ok || !(bo.Op == token.NEQ && f.truth || bo.Op == token.EQL && !f.truth) {
					continue
				}
				other := bo.X
				if isNilConst(bo.X) {
					other = bo.Y
				} else if !isNilConst(bo.Y) {
					continue
				}
				if p.origin(other) == ssa.Value(ld) || p.pureKey(other) == k || p.pureKey(p.origin(other)) == k {
					guarded = true
				}
			}
			if !guarded {
				bad[fv] = append(bad[fv], p.instrPos(in))
			}
		})
	}
	var fields []*types.Var
	for fv := range setBy {
		fields = append(fields, fv)
	}
	sort.Slice(fields, func(i, j int) bool { return keyOf[fields[i]] < keyOf[fields[j]] })
	for _, fv := range fields {
		if calls[fv] == 0 {
			continue
		}
		if b := bad[fv]; len(b) > 0 {
			sort.Strings(b)
			o.bad("N5", keyOf[fv], b[0], fmt.Sprintf("the callback is assigned from the parameter of %s (nil unregisters it) and called at %s without a test against nil: the call of a nil func is a panic, in a goroutine of its own an unrecoverable one", shortCallee(setBy[fv]), strings.Join(dedupe(b), ", ")))
		} else {
			o.ok("N5", keyOf[fv], "-", fmt.Sprintf("assigned from the parameter of %s; each of its %d call(s) is behind a test against nil", shortCallee(setBy[fv]), calls[fv]))
		}
	}
	o.ok("N5", "inspected", "-", fmt.Sprintf("%d callback field(s) that an exported method assigns after construction", len(fields)))
}
