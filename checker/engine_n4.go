package main

import (
	"fmt"
	"go/types"
	"sort"
	"strings"

	"golang.org/x/tools/go/ssa"
)

// N4 — what a map lookup returns for a missing key is nil. A pointer (or interface) read out of a map with `m[k]` is
// used — a field selected through it, a method called on it — only where it is known to be there: on the true branch
// of the lookup's own `ok`, behind a test of the value against nil, or in a function that stored that very key in the
// same map on the way (m[k] = v; … m[k].f). An Unbind for a stream the interceptor turned away at Bind, a second
// Unbind, an Unbind after Close: all of them look up an SSRC that is not in the table.
func init() {
	registerEngine("N4", []string{"N4"}, runEngineN4)
}

func runEngineN4(p *Prog, o *obls) {
	n := 0
	for _, fn := range p.Funcs {
		if fn.Blocks == nil || !p.InUniverse(fn) {
			continue
		}
		var bad []string
		sites := 0
		instrsOf(fn, func(in ssa.Instruction) {
			lk, ok := in.(*ssa.Lookup)
			if !ok {
				return
			}
			if _, isMap := lk.X.Type().Underlying().(*types.Map); !isMap {
				return
			}
			var val ssa.Value = lk
			var okv ssa.Value
			if lk.CommaOk {
				val = nil
				if lk.Referrers() != nil {
					for _, r := range *lk.Referrers() {
						if ex, isEx := r.(*ssa.Extract); isEx {
							if ex.Index == 0 {
								val = ex
							} else {
								okv = ex
							}
						}
					}
				}
				if val == nil {
					return
				}
			}
			if !isPointerLike(val.Type()) || val.Referrers() == nil {
				return
			}
			// the same key stored into the same map earlier in this function: known present
			mk, kk := p.pureKey(lk.X), p.pureKey(lk.Index)
			stored := false
			instrsOf(fn, func(in2 ssa.Instruction) {
				if mu, ok := in2.(*ssa.MapUpdate); ok && p.pureKey(mu.Map) == mk && p.pureKey(mu.Key) == kk && canReach(mu, lk) {
					stored = true
				}
			})
			// the key comes from a range over the same map: present by construction
			if ex, ok := p.origin(lk.Index).(*ssa.Extract); ok && ex.Index == 1 {
				if nx, ok := ex.Tuple.(*ssa.Next); ok {
					if rg, ok := nx.Iter.(*ssa.Range); ok && p.pureKey(rg.X) == mk {
						stored = true
					}
				}
			}
			counted := false
			var visit func(v ssa.Value, d int)
			seen := map[ssa.Value]bool{}
			visit = func(v ssa.Value, d int) {
				if seen[v] || v.Referrers() == nil || d > 3 {
					return
				}
				seen[v] = true
				for _, r := range *v.Referrers() {
					var what string
					switch x := r.(type) {
					case *ssa.FieldAddr:
						if x.X == v {
							what = "a field is selected through it"
						}
					case *ssa.ChangeType:
						visit(x, d+1)
						continue
					case ssa.CallInstruction:
						cc := x.Common()
						if cc.IsInvoke() && cc.Value == v {
							what = "method " + cc.Method.Name() + " is called on it"
						} else if sc := cc.StaticCallee(); sc != nil && sc.Signature.Recv() != nil && len(cc.Args) > 0 && cc.Args[0] == v && sc.Blocks != nil && derefsReceiver(sc) {
							what = "method " + sc.Name() + ", which uses its receiver, is called on it"
						}
					}
					if what == "" {
						continue
					}
					if !counted {
						counted = true
						sites++
					}
					if stored || p.nilnessAt(val, r.Block()) == 1 {
						continue
					}
					if okv != nil && boolKnownAt(p, okv, r.Block()) == 1 {
						continue
					}
					bad = append(bad, fmt.Sprintf("the value looked up at %s is used at %s (%s) without a test that the key was there", p.instrPos(lk), p.instrPos(r), what))
				}
			}
			visit(val, 0)
		})
		if sites == 0 {
			continue
		}
		n++
		key := funcKey(fn) + ":lookup-present"
		if len(bad) > 0 {
			sort.Strings(bad)
			o.bad("N4", key, strings.Fields(strings.SplitN(bad[0], " is used at ", 2)[1])[0], strings.Join(dedupe(bad), "; ")+": a lookup of a key that is not in the map yields nil, and the use is a nil dereference")
		} else {
			o.ok("N4", key, p.Pos(fn.Pos()), fmt.Sprintf("%d map lookup(s) of pointers that are used, each behind its ok / a nil test / a store of the same key", sites))
		}
	}
	o.ok("N4", "inspected", "-", fmt.Sprintf("%d function(s) that use pointers looked up in maps", n))
}

// derefsReceiver: the method selects a field through its receiver, or hands it to something that may.
func derefsReceiver(fn *ssa.Function) bool {
	if len(fn.Params) == 0 {
		return false
	}
	recv := ssa.Value(fn.Params[0])
	if recv.Referrers() == nil {
		return false
	}
	for _, r := range *recv.Referrers() {
		switch x := r.(type) {
		case *ssa.FieldAddr:
			return true
		case *ssa.UnOp:
			return true
		case ssa.CallInstruction:
			_ = x
			return true
		case *ssa.BinOp:
			// compared with nil only
		default:
			return true
		}
	}
	return false
}

// boolKnownAt: 1 when the boolean v is known true at block b through a dominating branch on it, -1 known false.
func boolKnownAt(p *Prog, v ssa.Value, b *ssa.BasicBlock) int {
	for _, f := range dominatingFacts(b) {
		f = normFact(f)
		if f.cond == v || p.origin(f.cond) == p.origin(v) {
			if f.truth {
				return 1
			}
			return -1
		}
	}
	return 0
}

func isPointerLike(t types.Type) bool {
	switch t.Underlying().(type) {
	case *types.Pointer, *types.Interface:
		return true
	}
	return false
}
