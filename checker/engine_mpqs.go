package main

import (
	"fmt"
	"go/token"
	"go/types"
	"sort"
	"strings"

	"golang.org/x/tools/go/ssa"
)

// Small agreement rules (DESIGN.md §3 M, P, Q, S): M1 (C14), P1 (C07), P2 (C14), Q1–Q3 (C17), S1–S2 (C19).

func init() {
	registerEngine("MP", []string{"M1", "P1", "P2", "P3", "P4"}, runEngineMP)
	registerEngine("Q", []string{"Q1", "Q2", "Q3", "Q4"}, runEngineQ)
	registerEngine("S", []string{"S1", "S2", "S3", "S4", "S5", "S6", "S7"}, runEngineS)
}

// ---- M1 / P2 ------------------------------------------------------------------------------------------------------

type encoderSpec struct {
	fn       string // function that builds one repair packet
	table    string // field holding the coverage table
	counter  string // repair sequence number field
	okResult int    // index of the bool result that says "a packet was produced"
}

var encoderSpecs = []encoderSpec{
	{"pkg/flexfec.(*FlexEncoder03).encodeFlexFecPacket", "pkg/flexfec.FlexEncoder03.coverage", "pkg/flexfec.FlexEncoder03.fecBaseSn", 1},
	{"fixtures/fx.(*GoodM1enc).build", "fixtures/fx.GoodM1enc.cov", "fixtures/fx.GoodM1enc.sn", 1},
	{"fixtures/fx.(*BadM1enc).build", "fixtures/fx.BadM1enc.cov", "fixtures/fx.BadM1enc.sn", 1},
}

// countSpec: a per-packet accounting function called from a writer closure.
type countSpec struct {
	closureOwner string // interceptor type whose writer closure must call the function
	fn           string // accounting function
	plusOne      string // field incremented by one per packet
	plusLen      string // field incremented by len(payload)
	payloadParam int    // index of the payload parameter of fn
}

var countSpecs = []countSpec{
	{"pkg/report.SenderInterceptor", "pkg/report.(*senderStream).processRTP", "pkg/report.senderStream.packetCount", "pkg/report.senderStream.octetCount", 3},
	{"fixtures/fx.GoodP1", "fixtures/fx.(*p1Stream).GoodP1count", "fixtures/fx.p1Stream.packets", "fixtures/fx.p1Stream.octets", 1},
	{"fixtures/fx.BadP1", "fixtures/fx.(*p1StreamBadP1).count", "fixtures/fx.p1StreamBadP1.packets", "fixtures/fx.p1StreamBadP1.octets", 1},
}

// identityForwards splits the downstream Write calls of a writer closure into identity forwards and injections.
func identityForwards(p *Prog, c *PktClosure) (id, inj []*ssa.Call) {
	params := packetParams(c)
	for _, call := range nextCalls(p, c) {
		all := true
		for i, pp := range params {
			if p.originFullSlice(call.Call.Args[i]) != ssa.Value(pp) {
				all = false
			}
		}
		if all {
			id = append(id, call)
		} else {
			inj = append(inj, call)
		}
	}
	return
}

// highWaterFields: fields that track "the newest / highest seen so far" of a stream of sequence numbers that can
// arrive out of order. Taken from the properties' state tables (C04 ring head, C07 newest sent, C09 highest
// acknowledged, C19 highest received).
var highWaterFields = []string{
	"pkg/report.senderStream.lastRTPSN",
	"pkg/rtpfb.history.highestAcked",
	"internal/rtpbuffer.RTPBuffer.highestAdded",
	"pkg/stats.internalStats.inboundHighestSequenceNumber",
	"fixtures/fx.p3Mark.GoodP3hi",
	"fixtures/fx.p3Mark.BadP3hi",
}

// p3HighWater (rule P3): a high-water-mark field is never overwritten blindly. Every store to it outside the
// constructors either stores a value computed from the field's previous value (max(old, x)), or is control dependent
// on a test that reads the state of the same object (the comparison with the previous value, or the
// first-packet / not-initialised test). A store that depends on neither lets an out-of-order packet move the mark
// backwards.
func p3HighWater(p *Prog, o *obls) {
	for _, fk := range highWaterFields {
		if p.Fixture != strings.HasPrefix(fk, "fixtures/") {
			continue
		}
		owner := fk[:strings.LastIndex(fk, ".")]
		n := 0
		for _, fn := range p.Funcs {
			if isOptionClosure(fn) || isConstructor(p, fn) {
				continue
			}
			var pdom map[*ssa.BasicBlock]map[*ssa.BasicBlock]bool
			instrsOf(fn, func(in ssa.Instruction) {
				st, ok := in.(*ssa.Store)
				if !ok {
					return
				}
				fa, ok := st.Addr.(*ssa.FieldAddr)
				if !ok || fieldKeyAddr(fa) != fk {
					return
				}
				// a store into a freshly allocated object is initialisation
				if al, ok := p.origin(addrRoot(fa)).(*ssa.Alloc); ok && al.Heap && len(fn.Params) > 0 && p.origin(addrRoot(fa)) != ssa.Value(fn.Params[0]) {
					if _, spilled := cellAddr(addrRoot(fa)).(*ssa.Alloc); spilled && !isParamCell(p, al) {
						return
					}
				}
				n++
				key := fmt.Sprintf("%s@%s", fk, funcKey(fn))
				readsState := func(v ssa.Value) bool {
					u, ok := v.(*ssa.UnOp)
					if !ok || u.Op != token.MUL {
						return false
					}
					f2, ok := u.X.(*ssa.FieldAddr)
					return ok && strings.HasPrefix(fieldKeyAddr(f2), owner+".")
				}
				readsSelf := func(v ssa.Value) bool { return loadOfField(p, v, fk) }
				if p.backwardReaches(st.Val, readsSelf) {
					o.ok("P3", key, p.instrPos(st), "the stored value is computed from the field's previous value")
					return
				}
				if pdom == nil {
					pdom = postDominators(fn)
				}
				guarded := ""
				for cb := range transitiveControlDeps(fn, pdom, st.Block()) {
					c := ifCond(cb)
					if c == nil {
						continue
					}
					if p.backwardReaches(c, readsSelf) {
						guarded = "a comparison with the field's previous value"
						continue
					}
					// an initialisation branch: the test reads another state field of the object (started, count) and
					// the branch that contains the store also sets that field
					tested := map[string]bool{}
					p.backwardReaches(c, func(v ssa.Value) bool {
						if readsState(v) {
							tested[fieldKeyAddr(v.(*ssa.UnOp).X.(*ssa.FieldAddr))] = true
						}
						return false
					})
					if len(tested) == 0 {
						continue
					}
					for _, sc := range cb.Succs {
						if len(sc.Preds) != 1 || !sc.Dominates(st.Block()) {
							continue
						}
						instrsOf(fn, func(in2 ssa.Instruction) {
							s2, ok := in2.(*ssa.Store)
							if !ok || !sc.Dominates(s2.Block()) {
								return
							}
							if f2, ok := s2.Addr.(*ssa.FieldAddr); ok && tested[fieldKeyAddr(f2)] && guarded == "" {
								guarded = "the first-packet branch (the tested state field is set in the same branch)"
							}
						})
					}
				}
				if guarded == "" {
					// the store sits in a helper (noteLatest): every call of the helper is guarded in the same way
					if p.allCallersSatisfy(fn, func(site ssa.CallInstruction) bool {
						sin, _ := site.(ssa.Instruction)
						cf := sin.Parent()
						cpd := postDominators(cf)
						for cb := range transitiveControlDeps(cf, cpd, sin.Block()) {
							if c := ifCond(cb); c != nil && p.backwardReaches(c, readsSelf) {
								return true
							}
						}
						return false
					}, ipDepth) {
						guarded = "a comparison with the field's previous value at every call of this helper"
					}
				}
				// every test that decides the store is of a known kind: a comparison with the field's previous value, a
				// configuration or first-packet test (a state field read directly and compared with a constant, or a
				// boolean field), or a test that reads no state of the object at all. A test of something *computed* from
				// other mutable state (the age of the time reference, a counter difference) is a second way in: it moves
				// the mark for a packet that the comparison would have turned away.
				foreign := ""
				if guarded != "" {
					direct := func(v ssa.Value) bool {
						for {
							switch c := v.(type) {
							case *ssa.Convert:
								v = c.X
								continue
							case *ssa.ChangeType:
								v = c.X
								continue
							}
							break
						}
						return readsState(v)
					}
					for cb := range transitiveControlDeps(fn, pdom, st.Block()) {
						c := ifCond(cb)
						if c == nil || p.backwardReaches(c, readsSelf) {
							continue
						}
						c = normFact(condFact{c, true}).cond
						if direct(c) {
							continue
						}
						if bo, ok := c.(*ssa.BinOp); ok {
							_, cx := bo.X.(*ssa.Const)
							_, cy := bo.Y.(*ssa.Const)
							if cx && direct(bo.Y) || cy && direct(bo.X) || cx && cy {
								continue
							}
						}
						var through []string
						p.backwardReaches(c, func(v ssa.Value) bool {
							if readsState(v) {
								fk2 := fieldKeyAddr(v.(*ssa.UnOp).X.(*ssa.FieldAddr))
								if fv := fieldOfAddr(v.(*ssa.UnOp).X.(*ssa.FieldAddr)); fv != nil && !isSyncType(fv.Type()) && p.writtenOutsideConstruction(fk2) {
									through = append(through, fieldName(fk2))
								}
							}
							return false
						})
						if len(through) > 0 {
							sort.Strings(through)
							foreign = fmt.Sprintf("the test at %s, computed from %s, also decides the store and is no comparison with the mark's previous value: a packet the comparison turns away moves the mark all the same", p.instrPosV(c), strings.Join(dedupe(through), ", "))
						}
					}
				}
				if foreign != "" {
					o.bad("P3", key, p.instrPos(st), foreign)
				} else if guarded != "" {
					o.ok("P3", key, p.instrPos(st), "the store is control dependent on "+guarded)
				} else {
					o.bad("P3", key, p.instrPos(st), "the high-water mark is overwritten without a comparison with its previous value and outside a first-packet branch: an out-of-order packet moves it backwards")
				}
			})
		}
		if n == 0 {
			o.undecided("P3", fk, "-", "anchor unresolved: no store to the high-water-mark field outside constructors")
		}
	}
}

// isParamCell: the alloc is the cell a by-value parameter was spilled into.
func isParamCell(p *Prog, al *ssa.Alloc) bool {
	for _, st := range p.storesToCell(al) {
		if _, ok := st.Val.(*ssa.Parameter); ok {
			return true
		}
	}
	return false
}

func runEngineMP(p *Prog, o *obls) {
	p3HighWater(p, o)
	p2RepairLoop(p, o)
	// ---- M1 ----
	for _, es := range encoderSpecs {
		if p.Fixture != strings.HasPrefix(es.fn, "fixtures/") {
			continue
		}
		fn := p.FuncByKey(es.fn)
		if fn == nil {
			o.undecided("M1", es.fn, "-", "anchor unresolved: function not found")
			continue
		}
		var idxArgs []ssa.Value
		var sites []string
		instrsOf(fn, func(in ssa.Instruction) {
			c, ok := in.(*ssa.Call)
			if !ok || len(c.Call.Args) < 2 || c.Call.StaticCallee() == nil {
				return
			}
			if !loadOfField(p, c.Call.Args[0], es.table) {
				return
			}
			if b, ok := c.Call.Args[1].Type().Underlying().(*types.Basic); ok && b.Info()&types.IsInteger != 0 {
				idxArgs = append(idxArgs, c.Call.Args[1])
				sites = append(sites, c.Call.StaticCallee().Name()+"@"+p.instrPos(c))
			}
		})
		var problems []string
		if len(idxArgs) < 2 {
			problems = append(problems, "fewer than two coverage-table accesses found (anchor)")
		}
		for i := 1; i < len(idxArgs); i++ {
			if p.origin(idxArgs[i]) != p.origin(idxArgs[0]) {
				problems = append(problems, fmt.Sprintf("%s indexes the coverage table with %s while %s uses %s: the mask written to the repair packet does not name the packets that were combined", sites[i], valueString(idxArgs[i]), sites[0], valueString(idxArgs[0])))
			}
		}
		// the repair sequence number advances exactly once per produced packet
		isInc := func(in ssa.Instruction) bool {
			st, ok := in.(*ssa.Store)
			if !ok {
				return false
			}
			fa, ok := st.Addr.(*ssa.FieldAddr)
			return ok && p.fieldIs(fa, es.counter)
		}
		// the increment may sit in a helper of the encoder (nextFecPacket()): count through same-package helpers
		incCtr := p.newIPCounter(isInc, func(g *ssa.Function) bool { return g.Pkg == fn.Pkg })
		before := p.pathCountsW(fn, nil, incCtr.weight)
		for _, b := range fn.Blocks {
			ret, ok := b.Instrs[len(b.Instrs)-1].(*ssa.Return)
			if !ok || b == fn.Recover || len(ret.Results) <= es.okResult {
				continue
			}
			m := before[ret]
			// the packet may be built by a helper called in the return statement itself (return f.next(p), true)
			for _, r := range ret.Results {
				if c, ok := p.origin(r).(*ssa.Call); ok && c.Block() == b {
					_ = c
				}
			}
			okV := p.origin(ret.Results[es.okResult])
			produced := -1
			if c, isC := okV.(*ssa.Const); isC && c.Value != nil {
				if c.Value.String() == "true" {
					produced = 1
				} else {
					produced = 0
				}
			}
			switch {
			case produced == 1 && m != 2:
				problems = append(problems, fmt.Sprintf("the return at %s produces a repair packet but the repair sequence number was advanced %s times on the way", p.instrPos(ret), m))
			case produced == 0 && m != 1:
				problems = append(problems, fmt.Sprintf("the return at %s produces no packet but the repair sequence number was advanced (%s)", p.instrPos(ret), m))
			}
		}
		if len(problems) > 0 {
			o.bad("M1", es.fn, p.Pos(fn.Pos()), strings.Join(problems, "; "))
		} else {
			o.ok("M1", es.fn, p.Pos(fn.Pos()), fmt.Sprintf("%d coverage-table accesses share one index value; the repair sequence number advances exactly once per produced packet", len(idxArgs)))
		}
	}
	closures, _ := p.PktClosures()
	// ---- P2: injections only after the identity forward ----
	for _, c := range closures {
		if !c.Kind.isWriter() {
			continue
		}
		id, inj := identityForwards(p, c)
		if len(inj) == 0 {
			continue
		}
		isID := func(in ssa.Instruction) bool {
			for _, x := range id {
				if in == ssa.Instruction(x) {
					return true
				}
			}
			return false
		}
		before, _ := pathCounts(c.Fn, isID)
		var bad []string
		for _, j := range inj {
			if before[j]&1 != 0 {
				bad = append(bad, fmt.Sprintf("the injected write at %s can be issued before the application's packet has been forwarded", p.instrPos(j)))
			}
		}
		key := closureKey(c)
		if len(bad) > 0 {
			o.bad("P2", key, p.Pos(c.Fn.Pos()), strings.Join(bad, "; "))
		} else {
			o.ok("P2", key, p.Pos(c.Fn.Pos()), fmt.Sprintf("%d injected write site(s), each only reachable after the identity forward", len(inj)))
		}
	}
	// ---- P4: what a protecting writer forwards, it has buffered. A writer closure that injects packets of its own
	// (repair packets computed over a batch of the application's packets) keeps a copy of every packet of the protected
	// stream it forwards: the batch the encoder is given is the run of packets that left. A pass-through added in front
	// of the buffering — "padding-only packets need no protection" — leaves a hole in the batch: the encoder refuses a
	// batch whose sequence numbers are not consecutive, and a whole group of real media packets goes out without repair
	// packets. Every identity forward of such a closure is preceded, on every path from its entry, by a statement that
	// keeps something derived from the header or payload in memory that outlives the call (or hands them to a
	// repository function), unless it lies behind a test that the packet is not the stream's (header.SSRC differs).
	for _, c := range closures {
		if c.Kind != RTPWriter {
			continue
		}
		id, inj := identityForwards(p, c)
		if len(inj) == 0 || len(id) == 0 || len(c.Fn.Params) < 2 {
			continue
		}
		fn := c.Fn
		pp := packetParams(c)
		if len(pp) < 2 {
			continue
		}
		hdr, pay := ssa.Value(pp[0]), ssa.Value(pp[1])
		fromPacket := func(v ssa.Value) bool {
			return p.backwardReaches(v, func(w ssa.Value) bool { return w == hdr || w == pay })
		}
		isKeep := func(in ssa.Instruction) bool {
			switch x := in.(type) {
			case *ssa.Store:
				root := p.origin(addrRoot(x.Addr))
				if al, ok := cellAddr(addrRoot(x.Addr)).(*ssa.Alloc); ok && al.Parent() == fn {
					return false
				}
				if al, ok := root.(*ssa.Alloc); ok && al.Parent() == fn {
					return false
				}
				return fromPacket(x.Val)
			case *ssa.Call:
				if isChainWrite(p, x) {
					return false
				}
				sc := x.Call.StaticCallee()
				if sc == nil || !p.InUniverse(sc) || sc.Blocks == nil {
					return false
				}
				for _, a := range x.Call.Args {
					if o := p.origin(a); o == hdr || o == pay {
						return true
					}
				}
			}
			return false
		}
		keeps := 0
		instrsOf(fn, func(in ssa.Instruction) {
			if isKeep(in) {
				keeps++
			}
		})
		if keeps == 0 {
			continue
		}
		entry := fn.Blocks[0].Instrs[0]
		var bad []string
		for _, w := range id {
			foreign := false
			for _, f := range dominatingFactsInstr(w) {
				f = normFact(f)
				bo, ok := f.cond.(*ssa.BinOp)
				if !ok || !(bo.Op == token.NEQ && f.truth || bo.Op == token.EQL && !f.truth) {
					continue
				}
				for _, side := range []ssa.Value{bo.X, bo.Y} {
					if u, ok := p.origin(side).(*ssa.UnOp); ok && u.Op == token.MUL {
						if fa, ok := u.X.(*ssa.FieldAddr); ok && p.origin(addrRoot(fa)) == hdr && fieldName(fieldKeyAddr(fa)) == "SSRC" {
							foreign = true
						}
					}
				}
			}
			if foreign {
				continue
			}
			if !isKeep(entry) && pathAvoiding(entry, w, isKeep) {
				bad = append(bad, fmt.Sprintf("the forward at %s can be reached without the packet having been kept for the batch", p.instrPos(w)))
			}
		}
		key := closureKey(c) + ":kept"
		if len(bad) > 0 {
			o.bad("P4", key, p.Pos(fn.Pos()), strings.Join(dedupe(bad), "; ")+": the batch handed to the encoder then has a hole, is refused as non-consecutive, and a whole group of media packets leaves unprotected")
		} else {
			o.ok("P4", key, p.Pos(fn.Pos()), fmt.Sprintf("%d forward(s) of the protected stream's packets, each after the packet was kept (%d keeping statement(s))", len(id), keeps))
		}
	}
	// ---- P1 ----
	for _, cs := range countSpecs {
		if p.Fixture != strings.HasPrefix(cs.fn, "fixtures/") {
			continue
		}
		fn := p.FuncByKey(cs.fn)
		if fn == nil {
			o.undecided("P1", cs.fn, "-", "anchor unresolved: accounting function not found")
			continue
		}
		var problems []string
		// (a) the writer closure of the owner calls fn exactly once before the forward, with its own header/payload
		found := false
		for _, c := range closures {
			if c.Kind != RTPWriter || closureOwnerType(c.ownerFn()) != cs.closureOwner {
				continue
			}
			found = true
			isCall := func(in ssa.Instruction) bool {
				cl, ok := in.(*ssa.Call)
				return ok && cl.Call.StaticCallee() == fn
			}
			before, _ := pathCounts(c.Fn, isCall)
			id, _ := identityForwards(p, c)
			for _, f := range id {
				if before[f] != 2 {
					problems = append(problems, fmt.Sprintf("the forward at %s is reached after %s calls of the accounting function (must be exactly one): forwarded packets are not counted exactly once", p.instrPos(f), before[f]))
				}
			}
			instrsOf(c.Fn, func(in ssa.Instruction) {
				if cl, ok := in.(*ssa.Call); ok && cl.Call.StaticCallee() == fn {
					okArgs := false
					for _, a := range cl.Call.Args {
						if pp := packetParams(c); len(pp) > 1 && p.originFullSlice(a) == ssa.Value(pp[1]) {
							okArgs = true
						}
					}
					if !okArgs {
						problems = append(problems, fmt.Sprintf("the accounting call at %s is not given the caller's payload", p.instrPos(cl)))
					}
				}
			})
		}
		if !found {
			problems = append(problems, "no writer closure of "+cs.closureOwner+" found (anchor)")
		}
		// (b) inside fn both counters are updated exactly once on every path, by +1 and +len(payload)
		for _, fld := range []string{cs.plusOne, cs.plusLen} {
			isSt := func(in ssa.Instruction) bool {
				st, ok := in.(*ssa.Store)
				if !ok {
					return false
				}
				fa, ok := st.Addr.(*ssa.FieldAddr)
				return ok && p.fieldIs(fa, fld)
			}
			before, _ := pathCounts(fn, isSt)
			for _, b := range fn.Blocks {
				if ret, ok := b.Instrs[len(b.Instrs)-1].(*ssa.Return); ok && b != fn.Recover {
					if before[ret] != 2 {
						problems = append(problems, fmt.Sprintf("%s is updated %s times on a path to the return at %s (must be exactly once per packet)", fld, before[ret], p.instrPos(ret)))
					}
				}
			}
			// a test of the counter against zero ("is this the first packet?") must read the counter before this
			// packet is counted: after the increment it can never be zero
			instrsOf(fn, func(in ssa.Instruction) {
				bo, ok := in.(*ssa.BinOp)
				if !ok || (bo.Op != token.EQL && bo.Op != token.NEQ) || !isConstInt(bo.Y, 0) {
					return
				}
				u, ok := bo.X.(*ssa.UnOp)
				if !ok || u.Op != token.MUL {
					return
				}
				fa, ok := u.X.(*ssa.FieldAddr)
				if !ok || fieldKeyAddr(fa) != fld {
					return
				}
				instrsOf(fn, func(in2 ssa.Instruction) {
					if isSt(in2) && instrDominates(in2, u) {
						problems = append(problems, fmt.Sprintf("%s is compared with 0 at %s after it was incremented at %s: the first-packet test can never be true", fld, p.instrPos(bo), p.instrPos(in2)))
					}
				})
			})
			instrsOf(fn, func(in ssa.Instruction) {
				if !isSt(in) {
					return
				}
				st := in.(*ssa.Store)
				bo, ok := p.origin(st.Val).(*ssa.BinOp)
				if !ok || bo.Op != token.ADD || !loadOfField(p, bo.X, fld) {
					problems = append(problems, fmt.Sprintf("%s is assigned %s at %s, not its previous value plus an increment", fld, valueString(st.Val), p.instrPos(st)))
					return
				}
				if fld == cs.plusOne {
					if !isConstInt(bo.Y, 1) {
						problems = append(problems, fmt.Sprintf("%s is advanced by %s instead of 1", fld, valueString(bo.Y)))
					}
				} else {
					lenOK := p.mentions(bo.Y, func(v ssa.Value) bool {
						c, ok := v.(*ssa.Call)
						return ok && builtinName(&c.Call) == "len" && p.origin(c.Call.Args[0]) == ssa.Value(fn.Params[cs.payloadParam])
					})
					if !lenOK {
						problems = append(problems, fmt.Sprintf("%s is advanced by %s, not by len(payload)", fld, valueString(bo.Y)))
					}
				}
			})
		}
		// (c) what the report says is the counter: the value stored into a SenderReport's PacketCount / OctetCount is the
		// counter field itself, conversions aside (a conversion to uint32 is the modulo 2^32 of RFC 3550) — not the
		// result of a helper or a choice between values (a clamp saturates where the protocol wraps)
		if fn.Pkg != nil && !p.Fixture {
			for _, g := range p.Funcs {
				if g.Blocks == nil || g.Pkg != fn.Pkg {
					continue
				}
				instrsOf(g, func(in ssa.Instruction) {
					st, ok := in.(*ssa.Store)
					if !ok {
						return
					}
					fa, ok := st.Addr.(*ssa.FieldAddr)
					if !ok || !strings.HasSuffix(typeKey(deref(fa.X.Type())), "pion/rtcp.SenderReport") {
						return
					}
					want := ""
					switch fieldName(fieldKeyAddr(fa)) {
					case "PacketCount":
						want = cs.plusOne
					case "OctetCount":
						want = cs.plusLen
					default:
						return
					}
					v := st.Val
					for {
						if cv, ok := v.(*ssa.Convert); ok {
							v = cv.X
							continue
						}
						break
					}
					okVal := loadOfField(p, v, want)
					// handed to a builder helper as a parameter: judged at the helper's call sites
					if par, isPar := p.origin(v).(*ssa.Parameter); isPar && !okVal {
						idx := -1
						for i, q := range g.Params {
							if q == par {
								idx = i
							}
						}
						if sites, closed := p.staticCallSites(g); idx >= 0 && closed && len(sites) > 0 {
							okVal = true
							for _, site := range sites {
								a := site.Common().Args
								if idx >= len(a) {
									okVal = false
									continue
								}
								av := a[idx]
								for {
									if cv, ok := av.(*ssa.Convert); ok {
										av = cv.X
										continue
									}
									break
								}
								if !loadOfField(p, av, want) {
									okVal = false
								}
							}
						}
					}
					if !okVal {
						problems = append(problems, fmt.Sprintf("the report's %s is set at %s to something other than the counter %s itself (a conversion aside): the report no longer says what was counted, modulo 2^32", fieldName(fieldKeyAddr(fa)), p.instrPos(st), fieldName(want)))
					}
				})
			}
		}
		if len(problems) > 0 {
			o.bad("P1", cs.fn, p.Pos(fn.Pos()), strings.Join(dedupe(problems), "; "))
		} else {
			o.ok("P1", cs.fn, p.Pos(fn.Pos()), "called exactly once before each forward with the caller's payload; packet count +1 and octet count +len(payload) exactly once on every path")
		}
	}
}

// ---- Q ------------------------------------------------------------------------------------------------------------

type queueSpec struct {
	typ      string // pacer type
	listFld  string // container/list queue field ("" if the queue is a goroutine-local slice)
	consumer string // function that dequeues and writes
	enqueue  string // function that accepts a packet
	limiter  string // field of the rate limiter ("" if none)
}

var queueSpecs = []queueSpec{
	{"pkg/gcc.LeakyBucketPacer", "pkg/gcc.LeakyBucketPacer.queue", "pkg/gcc.(*LeakyBucketPacer).Run", "pkg/gcc.(*LeakyBucketPacer).Write", ""},
	{"pkg/pacing.Interceptor", "", "pkg/pacing.(*Interceptor).loop", "pkg/pacing.(*Interceptor).BindLocalStream$RTPWriter", "pkg/pacing.Interceptor.limit"},
	{"fixtures/fx.GoodQ", "fixtures/fx.GoodQ.q", "fixtures/fx.(*GoodQ).run", "fixtures/fx.(*GoodQ).Write", ""},
	{"fixtures/fx.BadQ", "fixtures/fx.BadQ.q", "fixtures/fx.(*BadQ).run", "fixtures/fx.(*BadQ).Write", ""},
	{"fixtures/fx.GoodQ3", "", "fixtures/fx.(*GoodQ3).loop", "", "fixtures/fx.GoodQ3.limit"},
	{"fixtures/fx.BadQ3", "", "fixtures/fx.(*BadQ3).loop", "", "fixtures/fx.BadQ3.limit"},
}

// customEnq: insert methods of the current spec's repository queue type (set by runEngineQ per spec).
var customEnq map[*ssa.Function]bool

func funcNames(m map[*ssa.Function]bool) []string {
	var out []string
	for f := range m {
		out = append(out, f.Name())
	}
	sort.Strings(out)
	return out
}

func addrOfField(p *Prog, v ssa.Value, fk string) bool {
	fa, ok := p.origin(v).(*ssa.FieldAddr)
	return ok && fieldKeyAddr(fa) == fk
}

// repoQueueTypeOfField: the named struct type of the repository that the queue field holds (by value or pointer), or nil
// (container/list, a slice, a channel).
func repoQueueTypeOfField(p *Prog, fk string) *types.Named {
	if fk == "" {
		return nil
	}
	i := strings.LastIndex(fk, ".")
	owner := p.namedByKey(fk[:i])
	if owner == nil {
		return nil
	}
	st, ok := owner.Underlying().(*types.Struct)
	if !ok {
		return nil
	}
	for j := 0; j < st.NumFields(); j++ {
		if cFieldName(st.Field(j)) != fk[i+1:] {
			continue
		}
		n := namedOf(deref(st.Field(j).Type()))
		if n == nil || n.Obj().Pkg() == nil {
			return nil
		}
		if _, isStruct := n.Underlying().(*types.Struct); !isStruct {
			return nil
		}
		if !strings.HasPrefix(n.Obj().Pkg().Path(), modPath) && !strings.HasPrefix(n.Obj().Pkg().Path(), "fixtures") {
			return nil
		}
		return n
	}
	return nil
}

// queueTypeMethods classifies the methods of a repository container type: insert methods store (something computed
// from) a parameter into the receiver; remove methods return something loaded from the receiver and also store to it.
func queueTypeMethods(p *Prog, t *types.Named) (enq, deq map[*ssa.Function]bool) {
	enq, deq = map[*ssa.Function]bool{}, map[*ssa.Function]bool{}
	for i := 0; i < t.NumMethods(); i++ {
		fn := p.SSA.FuncValue(t.Method(i))
		if fn == nil || fn.Blocks == nil || len(fn.Params) == 0 {
			continue
		}
		recv := ssa.Value(fn.Params[0])
		storesRecv, storesParam := false, false
		instrsOf(fn, func(in ssa.Instruction) {
			st, ok := in.(*ssa.Store)
			if !ok {
				return
			}
			root := p.origin(addrRoot(st.Addr))
			if u, ok := root.(*ssa.UnOp); ok && u.Op == token.MUL {
				root = p.origin(addrRoot(u.X)) // element of a slice held by the receiver
			}
			if root != recv {
				return
			}
			storesRecv = true
			for _, par := range fn.Params[1:] {
				if isRefType(par.Type()) || containsRefs(par.Type()) {
					if p.backwardReaches(st.Val, func(v ssa.Value) bool { return v == ssa.Value(par) }) {
						storesParam = true
					}
				}
			}
		})
		if storesParam {
			enq[fn] = true
			continue
		}
		if !storesRecv || fn.Signature.Results().Len() == 0 {
			continue
		}
		returnsLoaded := false
		for _, b := range fn.Blocks {
			ret, ok := b.Instrs[len(b.Instrs)-1].(*ssa.Return)
			if !ok {
				continue
			}
			for _, r := range ret.Results {
				if !isRefType(r.Type()) && !containsRefs(r.Type()) {
					continue
				}
				if u, ok := p.origin(r).(*ssa.UnOp); ok && u.Op == token.MUL {
					returnsLoaded = true
				}
				if _, ok := p.origin(r).(*ssa.Phi); ok {
					returnsLoaded = true
				}
			}
		}
		if returnsLoaded {
			deq[fn] = true
		}
	}
	return enq, deq
}

// localQueueType: the consumer (or its helpers) calls both an insert and a remove method of one repository container
// type on a local variable: that variable is the goroutine-local queue.
func localQueueType(p *Prog, cons *ssa.Function) *types.Named {
	_, group := groupWrites(p, cons)
	cand := map[*types.Named][2]bool{}
	for _, f := range append([]*ssa.Function{cons}, group...) {
		instrsOf(f, func(in ssa.Instruction) {
			c, ok := in.(*ssa.Call)
			if !ok || c.Call.StaticCallee() == nil || len(c.Call.Args) == 0 || c.Call.StaticCallee().Signature.Recv() == nil {
				return
			}
			n := namedOf(deref(c.Call.StaticCallee().Signature.Recv().Type()))
			if n == nil || n.Obj().Pkg() == nil || !p.InUniverse(c.Call.StaticCallee()) {
				return
			}
			// a local container: a variable, the result of a constructor call, or a helper's parameter — not a field
			switch r := p.origin(c.Call.Args[0]).(type) {
			case *ssa.Alloc, *ssa.Call, *ssa.Parameter, *ssa.Phi:
			case *ssa.UnOp:
				if _, isField := r.X.(*ssa.FieldAddr); isField {
					return
				}
			case *ssa.FieldAddr:
				if _, isAlloc := cellAddr(addrRoot(r)).(*ssa.Alloc); !isAlloc {
					return
				}
			default:
				return
			}
			enq, deq := queueTypeMethods(p, n)
			v := cand[n]
			if enq[c.Call.StaticCallee()] {
				v[0] = true
			}
			if deq[c.Call.StaticCallee()] {
				v[1] = true
			}
			cand[n] = v
		})
	}
	for n, v := range cand {
		if v[0] && v[1] {
			return n
		}
	}
	return nil
}

func runEngineQ(p *Prog, o *obls) {
	for _, qs := range queueSpecs {
		if p.Fixture != strings.HasPrefix(qs.typ, "fixtures/") {
			continue
		}
		cons := p.FuncByKey(qs.consumer)
		if cons == nil {
			o.undecided("Q1", qs.typ, "-", "anchor unresolved: consumer function not found")
			continue
		}
		// ---- Q1: FIFO discipline of the queue API
		customEnq = nil
		if qt := repoQueueTypeOfField(p, qs.listFld); qs.listFld != "" && qt != nil {
			// the queue is a container type of the repository (a hand-written ring, a slice wrapper): its insert and
			// remove methods are the enqueue/dequeue events of Q2; that they keep FIFO order (index arithmetic of the
			// ring) is not decided
			enq, deq := queueTypeMethods(p, qt)
			customEnq = enq
			if len(enq) == 0 || len(deq) == 0 {
				o.undecided("Q1", qs.typ, p.Pos(cons.Pos()), "anchor unresolved: the queue's type "+typeKey(qt)+" has no recognisable insert and remove methods")
			} else {
				o.note("Q1", qs.typ, p.Pos(cons.Pos()), "the queue is the repository type "+typeKey(qt)+" (insert: "+strings.Join(funcNames(enq), ", ")+"; remove: "+strings.Join(funcNames(deq), ", ")+"); that these keep FIFO order is index arithmetic and not decided")
			}
		} else if qs.listFld != "" {
			used := map[string]bool{}
			var removeArgsOK = true
			pushIn, removeIn := map[*ssa.Function]string{}, map[*ssa.Function]bool{}
			for _, fn := range p.Funcs {
				instrsOf(fn, func(in ssa.Instruction) {
					c, ok := in.(*ssa.Call)
					if !ok || c.Call.StaticCallee() == nil || len(c.Call.Args) == 0 {
						return
					}
					if !loadOfField(p, c.Call.Args[0], qs.listFld) {
						return
					}
					n := c.Call.StaticCallee().Name()
					used[n] = true
					if n == "PushBack" {
						pushIn[fn] = p.instrPos(c)
					}
					if n == "Remove" {
						removeIn[fn] = true
						fc, ok := p.origin(c.Call.Args[1]).(*ssa.Call)
						if !ok || fc.Call.StaticCallee() == nil || fc.Call.StaticCallee().Name() != "Front" || !loadOfField(p, fc.Call.Args[0], qs.listFld) {
							removeArgsOK = false
						}
					}
				})
			}
			var bad []string
			for _, n := range sortedKeys(used) {
				switch n {
				case "PushBack", "Front", "Remove", "Len", "Init":
				default:
					bad = append(bad, fmt.Sprintf("the queue is also used through %s: not a FIFO (packets can overtake each other)", n))
				}
			}
			if !used["PushBack"] || !used["Remove"] {
				bad = append(bad, "the queue is not filled with PushBack and drained with Remove(Front())")
			}
			if !removeArgsOK {
				bad = append(bad, "Remove is given something other than Front(): the element taken is not the oldest one")
			}
			// the side that takes packets out never puts one back: a packet re-queued at the back is behind every packet
			// accepted since, those of its own stream included
			for fn, at := range pushIn {
				if removeIn[fn] {
					bad = append(bad, fmt.Sprintf("%s both removes from the queue and inserts at its back (%s): a packet taken out and re-queued is overtaken by the packets accepted after it", fn.String(), at))
				}
			}
			sort.Strings(bad)
			if len(bad) > 0 {
				o.bad("Q1", qs.typ, p.Pos(cons.Pos()), strings.Join(bad, "; "))
			} else {
				o.ok("Q1", qs.typ, p.Pos(cons.Pos()), "queue API use: "+strings.Join(sortedKeys(used), ", ")+" — insert at the back, remove the front")
			}
		} else if qs.listFld == "" && qs.limiter != "" && qs.enqueue != "" || (qs.listFld == "" && strings.Contains(qs.consumer, "pacing")) {
			// goroutine-local slice queue: append at the tail, take element 0, cut [1:]
			if qt := localQueueType(p, cons); qt != nil {
				enq, deq := queueTypeMethods(p, qt)
				o.note("Q1", qs.typ, p.Pos(cons.Pos()), "the consumer's local queue is the repository type "+typeKey(qt)+" (insert: "+strings.Join(funcNames(enq), ", ")+"; remove: "+strings.Join(funcNames(deq), ", ")+"); that these keep FIFO order is not decided")
			} else {
				q1LocalSlice(p, o, cons, qs)
			}
		}
		// ---- Q2: exactly-once hand-off per dequeued item
		if qs.listFld != "" || strings.Contains(qs.consumer, "pacing") {
			q2Handoff(p, o, cons, qs)
		}
		q2SingleConsumer(p, o, cons)
		// accept-implies-enqueued
		if qs.enqueue != "" {
			if enq := p.resolveEnqueue(qs.enqueue); enq != nil {
				q2Accept(p, o, enq, qs)
				// ---- Q4: no bypass — the accepting side never writes downstream itself; every packet goes through the queue
				bw, _ := groupWrites(p, enq)
				k4 := funcKey(enq) + ":no-bypass"
				if len(bw) > 0 {
					o.bad("Q4", k4, p.Pos(enq.Pos()), fmt.Sprintf("the accepting side writes downstream itself at %s: such a packet overtakes the packets of its stream that are still queued (order of acceptance is lost)", p.instrPos(bw[0])))
				} else {
					o.ok("Q4", k4, p.Pos(enq.Pos()), "the accepting side performs no downstream write: every packet leaves through the queue's consumer")
				}
			} else {
				o.undecided("Q2", qs.enqueue, "-", "anchor unresolved: enqueue function not found")
			}
		}
		// ---- Q3: charge before send
		if qs.limiter != "" {
			q3Charge(p, o, cons, qs)
		}
	}
}

// resolveEnqueue: a function key, or "F$RTPWriter" = the per-packet RTP writer closure created in F (robust against
// the numbering of literals).
func (p *Prog) resolveEnqueue(key string) *ssa.Function {
	if strings.HasSuffix(key, "$RTPWriter") {
		parent := p.FuncByKey(strings.TrimSuffix(key, "$RTPWriter"))
		cl, _ := p.PktClosures()
		for _, c := range cl {
			if c.Kind != RTPWriter || parent == nil {
				continue
			}
			if c.Fn.Parent() == parent || (c.Method && c.Owner == parent) {
				return c.Fn
			}
		}
		return nil
	}
	return p.FuncByKey(key)
}

func chainWrites(p *Prog, fn *ssa.Function) []*ssa.Call {
	var out []*ssa.Call
	instrsOf(fn, func(in ssa.Instruction) {
		if c, ok := in.(*ssa.Call); ok && isChainWrite(p, c) {
			out = append(out, c)
		}
	})
	return out
}

func isChainWrite(p *Prog, c *ssa.Call) bool {
	return c.Call.IsInvoke() && c.Call.Method.Name() == "Write" && types.Identical(c.Call.Value.Type(), p.rootNamed("RTPWriter"))
}

// groupWrites: the downstream writes of the consumer and of the helpers it delegates to.
func groupWrites(p *Prog, cons *ssa.Function) (writes []*ssa.Call, group []*ssa.Function) {
	group = p.calleeGroup(cons)
	for _, f := range group {
		writes = append(writes, chainWrites(p, f)...)
	}
	return
}

// reachesIP: backwardReaches that continues from a parameter into the arguments of every caller.
func (p *Prog) reachesIP(v ssa.Value, target func(ssa.Value) bool, depth int) bool {
	return p.backwardReaches(v, func(x ssa.Value) bool {
		if target(x) {
			return true
		}
		if par, ok := x.(*ssa.Parameter); ok && depth > 0 {
			args, _, closed := p.argsForParam(par)
			if !closed || len(args) == 0 {
				return false
			}
			for _, a := range args {
				if !p.reachesIP(a, target, depth-1) {
					return false
				}
			}
			return true
		}
		return false
	})
}

func q1LocalSlice(p *Prog, o *obls, cons *ssa.Function, qs queueSpec) {
	var bad []string
	writes, group := groupWrites(p, cons)
	if len(writes) == 0 {
		o.undecided("Q1", qs.typ, p.Pos(cons.Pos()), "anchor unresolved: no downstream write in the consumer")
		return
	}
	for _, w := range writes {
		// the header/payload written derive from element 0 of a slice
		fromFront := p.reachesIP(w.Call.Args[0], func(v ssa.Value) bool {
			if u, ok := v.(*ssa.UnOp); ok && u.Op == token.MUL {
				v = u.X
			}
			ia, ok := v.(*ssa.IndexAddr)
			return ok && isConstInt(ia.Index, 0)
		}, ipDepth)
		if !fromFront {
			bad = append(bad, fmt.Sprintf("the packet written at %s is not element 0 of the queue", p.instrPos(w)))
		}
	}
	cut := false
	for _, f := range group {
		instrsOf(f, func(in ssa.Instruction) {
			if sl, ok := in.(*ssa.Slice); ok && sl.Low != nil && isConstInt(sl.Low, 1) && sl.High == nil {
				if _, isSlice := sl.X.Type().Underlying().(*types.Slice); isSlice {
					cut = true
				}
			}
		})
	}
	if !cut {
		bad = append(bad, "the queue is not cut with queue[1:] after taking its first element")
	}
	// the element written leaves the queue in the same iteration: the cut dominates the write, or no path from the
	// write back to the head of the dequeue loop goes around a cut (a `continue` on a failed write would hand the same
	// packet over again on the next round, and charge for it again)
	isCut := func(in ssa.Instruction) bool {
		sl, ok := in.(*ssa.Slice)
		if !ok || sl.Low == nil || !isConstInt(sl.Low, 1) || sl.High != nil {
			return false
		}
		_, isSlice := sl.X.Type().Underlying().(*types.Slice)
		return isSlice
	}
	for _, w := range writes {
		F := w.Parent()
		var cuts []ssa.Instruction
		instrsOf(F, func(in ssa.Instruction) {
			if isCut(in) {
				cuts = append(cuts, in)
			}
		})
		if len(cuts) == 0 {
			continue // the cut is in another function of the group: not judged here
		}
		dominated := false
		for _, c := range cuts {
			if instrDominates(c, w) {
				dominated = true
			}
		}
		if dominated {
			continue
		}
		var inner map[*ssa.BasicBlock]bool
		var hdr *ssa.BasicBlock
		for h, body := range naturalLoops(F) {
			if body[w.Block()] && (inner == nil || len(body) < len(inner)) {
				inner, hdr = body, h
			}
		}
		if hdr == nil {
			continue
		}
		if pathAvoiding(w, hdr.Instrs[0], isCut) {
			bad = append(bad, fmt.Sprintf("after the write at %s the loop can start its next round without the written element having been cut from the queue: the same packet is handed over (and charged) again", p.instrPos(w)))
		}
	}
	if len(bad) > 0 {
		o.bad("Q1", qs.typ, p.Pos(cons.Pos()), strings.Join(bad, "; "))
	} else {
		o.ok("Q1", qs.typ, p.Pos(cons.Pos()), "slice queue: append at the tail, send element 0, cut [1:]")
	}
}

// q2Handoff: between two dequeues at most one downstream Write, and exactly one when a writer was found. The dequeue
// loop is the innermost loop around a write — in the consumer or in a helper it delegates to; a helper that writes
// outside any loop of its own counts as an event of the caller's loop.
func q2Handoff(p *Prog, o *obls, cons *ssa.Function, qs queueSpec) {
	writes, group := groupWrites(p, cons)
	key := funcKey(cons) + ":handoff"
	if len(writes) == 0 {
		o.bad("Q2", key, p.Pos(cons.Pos()), "the consumer never writes a dequeued packet")
		return
	}
	inGroup := map[*ssa.Function]bool{}
	for _, f := range group {
		inGroup[f] = true
	}
	ctr := p.newIPCounter(func(in ssa.Instruction) bool {
		c, ok := in.(*ssa.Call)
		return ok && isChainWrite(p, c)
	}, func(f *ssa.Function) bool { return inGroup[f] })
	var bad []string
	nLoops := 0
	for _, F := range group {
		loops := naturalLoops(F)
		type lp struct {
			hdr  *ssa.BasicBlock
			body map[*ssa.BasicBlock]bool
		}
		var found []lp
		seenHdr := map[*ssa.BasicBlock]bool{}
		instrsOf(F, func(in ssa.Instruction) {
			w := ctr.weight(in)
			if w.none() {
				return
			}
			if c, ok := in.(*ssa.Call); ok && !isChainWrite(p, c) {
				if s := ctr.summary(c.Call.StaticCallee()); s != nil && s.hasLoopEvent {
					return // the dequeue loop is inside the helper
				}
			}
			var inner map[*ssa.BasicBlock]bool
			var hdr *ssa.BasicBlock
			for h, body := range loops {
				if body[in.Block()] && (inner == nil || len(body) < len(inner)) {
					inner, hdr = body, h
				}
			}
			if inner == nil {
				if F == cons {
					bad = append(bad, "the downstream write is not inside the dequeue loop")
				}
				return
			}
			if !seenHdr[hdr] {
				seenHdr[hdr] = true
				found = append(found, lp{hdr, inner})
			}
		})
		for _, l := range found {
			nLoops++
			hdr, inner := l.hdr, l.body
			isEv := func(in ssa.Instruction) bool { return !ctr.weight(in).none() }
			for _, s := range hdr.Succs {
				if !inner[s] {
					continue
				}
				before := p.pathCountsW(F, s, ctr.weight)
				for _, pr := range hdr.Preds {
					if !inner[pr] {
						continue
					}
					last := pr.Instrs[len(pr.Instrs)-1]
					m := before[last]
					if m&4 != 0 {
						bad = append(bad, fmt.Sprintf("one iteration of the dequeue loop can write twice (path ending at %s): a packet is duplicated", p.instrPos(last)))
					}
					if m&1 != 0 {
						// permitted only when the iteration found no writer for the stream (comma-ok lookup false) or a failed cast
						okSkip := false
						for _, f := range dominatingFacts(pr) {
							f = normFact(f)
							if ex, ok := f.cond.(*ssa.Extract); ok && ex.Index == 1 && !f.truth {
								okSkip = true
							}
						}
						// the back edge itself may be the failed-lookup edge (if !ok { continue } without a block of its own)
						if c := ifCond(pr); c != nil {
							for i, sc := range pr.Succs {
								if sc == hdr {
									f := normFact(condFact{c, i == 0})
									if ex, ok := f.cond.(*ssa.Extract); ok && ex.Index == 1 && !f.truth {
										okSkip = true
									}
								}
							}
						}
						if !okSkip && pr != hdr {
							// is there any path with zero writes that does not go through a failed lookup?
							if !zeroWriteOnlyViaFailedLookup(F, s, pr, isEv) {
								bad = append(bad, fmt.Sprintf("one iteration of the dequeue loop can end (at %s) without writing the dequeued packet although a writer was found: the packet is lost", p.instrPos(last)))
							}
						}
					}
				}
			}
		}
	}
	if nLoops == 0 && len(bad) == 0 {
		bad = append(bad, "the downstream write is not inside a dequeue loop")
	}
	// the writer must be the one looked up for this packet, not a value carried over from an earlier iteration
	for _, w := range writes {
		for h, body := range naturalLoops(w.Parent()) {
			if !body[w.Block()] {
				continue
			}
			for _, in := range h.Instrs {
				if phi, ok := in.(*ssa.Phi); ok && types.Identical(phi.Type(), p.rootNamed("RTPWriter")) && viaPhisOnly(p, w.Call.Value, phi) {
					bad = append(bad, fmt.Sprintf("the writer used at %s can be a value carried over from a previous loop iteration (%s) instead of the writer currently registered for the packet's stream", p.instrPos(w), phi.Comment))
				}
			}
		}
	}
	if len(bad) > 0 {
		o.bad("Q2", key, p.Pos(cons.Pos()), strings.Join(dedupe(bad), "; "))
	} else {
		o.ok("Q2", key, p.Pos(cons.Pos()), fmt.Sprintf("%d write site(s) in %d dequeue loop(s): at most one write per dequeued packet, none skipped except on the logged no-writer branch, writer looked up per packet", len(writes), nLoops))
	}
}

// zeroWriteOnlyViaFailedLookup: every zero-write path from start to end passes the false edge of a comma-ok test.
func zeroWriteOnlyViaFailedLookup(fn *ssa.Function, start, end *ssa.BasicBlock, isWrite func(ssa.Instruction) bool) bool {
	// DFS over blocks without a write and without taking a failed-lookup edge; if end is reachable → false
	seen := map[*ssa.BasicBlock]bool{}
	var walk func(b *ssa.BasicBlock) bool
	walk = func(b *ssa.BasicBlock) bool {
		if seen[b] {
			return false
		}
		seen[b] = true
		for _, in := range b.Instrs {
			if isWrite(in) {
				return false
			}
		}
		if b == end {
			return true
		}
		c := ifCond(b)
		for i, s := range b.Succs {
			if c != nil {
				f := normFact(condFact{c, i == 0})
				if ex, ok := f.cond.(*ssa.Extract); ok && ex.Index == 1 && !f.truth {
					continue // failed lookup / cast edge
				}
			}
			if walk(s) {
				return true
			}
		}
		return false
	}
	return !walk(start)
}

// q2Accept: the pacer's Write returns a nil error only on paths that performed the enqueue (itself or through a
// helper whose nil return implies the enqueue).
func q2Accept(p *Prog, o *obls, enq *ssa.Function, qs queueSpec) {
	key := funcKey(enq) + ":accept"
	isEnq := func(in ssa.Instruction) bool {
		switch x := in.(type) {
		case *ssa.Call:
			if qs.listFld != "" && x.Call.StaticCallee() != nil && x.Call.StaticCallee().Name() == "PushBack" && len(x.Call.Args) > 0 && loadOfField(p, x.Call.Args[0], qs.listFld) {
				return true
			}
			if qs.listFld != "" && customEnq[x.Call.StaticCallee()] && len(x.Call.Args) > 0 && (loadOfField(p, x.Call.Args[0], qs.listFld) || addrOfField(p, x.Call.Args[0], qs.listFld)) {
				return true
			}
		case *ssa.Send:
			return true
		}
		return false
	}
	top := enq
	for top.Parent() != nil {
		top = top.Parent()
	}
	ctr := p.newIPCounter(isEnq, func(f *ssa.Function) bool { return f.Pkg == top.Pkg })
	// select-based enqueue: a return on the branch of the send case has enqueued once
	ctr.retAdjust = func(fn *ssa.Function, ret *ssa.Return, m countMask) countMask {
		if m == 1 && selectSendBranch(fn, ret.Block()) {
			return 2
		}
		return m
	}
	var bad []string
	before := p.pathCountsW(enq, nil, ctr.weight)
	for _, b := range enq.Blocks {
		ret, ok := b.Instrs[len(b.Instrs)-1].(*ssa.Return)
		if !ok || b == enq.Recover {
			continue
		}
		errV := ret.Results[len(ret.Results)-1]
		if !isNilConst(p.origin(errV)) {
			continue
		}
		m := ctr.retAdjust(enq, ret, before[ret])
		if m == 2 {
			continue
		}
		bad = append(bad, fmt.Sprintf("the return at %s reports success but the packet was enqueued %s times on the way: an accepted packet is never (or twice) delivered", p.instrPos(ret), m))
	}
	if len(bad) > 0 {
		o.bad("Q2", key, p.Pos(enq.Pos()), strings.Join(bad, "; "))
	} else {
		o.ok("Q2", key, p.Pos(enq.Pos()), "a nil error is returned only after the packet was enqueued exactly once")
	}
}

// selectSendBranch: block b is dominated by the branch `select index == k` where state k is a send.
func selectSendBranch(fn *ssa.Function, b *ssa.BasicBlock) bool {
	for _, f := range dominatingFacts(b) {
		f = normFact(f)
		bo, ok := f.cond.(*ssa.BinOp)
		if !ok || bo.Op != token.EQL || !f.truth {
			continue
		}
		ex, ok := bo.X.(*ssa.Extract)
		if !ok || ex.Index != 0 {
			continue
		}
		sel, ok := ex.Tuple.(*ssa.Select)
		if !ok {
			continue
		}
		if k, ok := constInt(bo.Y); ok && int(k) < len(sel.States) && sel.States[k].Dir == types.SendOnly {
			return true
		}
	}
	return false
}

// q3Charge: every downstream write in the pacing loop is dominated by a budget test and a token charge — in the
// function of the write, or at every call site of the helper that contains it.
func q3Charge(p *Prog, o *obls, cons *ssa.Function, qs queueSpec) {
	key := funcKey(cons) + ":charge"
	writes, _ := groupWrites(p, cons)
	if len(writes) == 0 {
		o.undecided("Q3", key, p.Pos(cons.Pos()), "anchor unresolved: no downstream write")
		return
	}
	isLimiterCall := func(v ssa.Value, names ...string) bool {
		c, ok := v.(*ssa.Call)
		if !ok {
			return false
		}
		var recv ssa.Value
		name := ""
		if c.Call.IsInvoke() {
			recv, name = c.Call.Value, c.Call.Method.Name()
		} else if sc := c.Call.StaticCallee(); sc != nil && len(c.Call.Args) > 0 {
			recv, name = c.Call.Args[0], sc.Name()
		}
		if recv == nil || !loadOfField(p, recv, qs.limiter) {
			return false
		}
		for _, n := range names {
			if n == name {
				return true
			}
		}
		return false
	}
	chargedAt := func(at ssa.Instruction) bool {
		ok := false
		instrsOf(at.Parent(), func(in ssa.Instruction) {
			if v, isV := in.(ssa.Value); isV && isLimiterCall(v, "AllowN", "Allow", "ReserveN", "WaitN") && instrDominates(in, at) {
				ok = true
			}
		})
		return ok
	}
	testedAt := func(at ssa.Instruction) bool {
		// the budget must be re-read from the limiter for every packet: the Budget call lies inside the innermost loop
		// around the write (a value read once before the loop goes stale when the rate is changed concurrently)
		var inner map[*ssa.BasicBlock]bool
		for _, body := range naturalLoops(at.Parent()) {
			if body[at.Block()] && (inner == nil || len(body) < len(inner)) {
				inner = body
			}
		}
		for _, f := range dominatingFactsInstr(at) {
			condIn, _ := f.cond.(ssa.Instruction)
			if p.backwardReaches(f.cond, func(v ssa.Value) bool {
				if !isLimiterCall(v, "Budget", "Tokens", "TokensAt") {
					return false
				}
				c := v.(*ssa.Call)
				if c.Parent() != at.Parent() {
					// the budget is read inside a predicate helper (affordable(now, pkt)): the helper is called where
					// the condition is evaluated, which must be inside the per-packet loop
					return inner == nil || (condIn != nil && inner[condIn.Block()])
				}
				return inner == nil || inner[c.Block()]
			}) {
				return true
			}
		}
		return false
	}
	var bad []string
	for _, w := range writes {
		charged := chargedAt(w) || p.allCallersSatisfy(w.Parent(), func(s ssa.CallInstruction) bool { return chargedAt(s) }, ipDepth)
		tested := testedAt(w) || p.allCallersSatisfy(w.Parent(), func(s ssa.CallInstruction) bool { return testedAt(s) }, ipDepth)
		if !tested {
			bad = append(bad, fmt.Sprintf("the write at %s is not guarded by a test of the limiter's budget read for this packet (inside the per-packet loop): bits can be released against a stale budget", p.instrPos(w)))
		}
		if !charged {
			bad = append(bad, fmt.Sprintf("the write at %s is not preceded by a charge of the limiter (AllowN): bits are released without being accounted, the rate bound does not hold", p.instrPos(w)))
		}
	}
	// test and charge refer to the same instant: a budget read at a later time than the charge is evaluated for can
	// see tokens the charge does not — the charge then fails, deducts nothing (its result is not looked at, the test
	// having passed) and the packet leaves unaccounted; with nothing deducted the test keeps passing
	timeArg := func(c *ssa.Call) ssa.Value {
		args := c.Call.Args
		if !c.Call.IsInvoke() && len(args) > 0 {
			args = args[1:]
		}
		for _, a := range args {
			if typeKey(a.Type()) == "time.Time" {
				return a
			}
		}
		return nil
	}
	for _, w := range writes {
		F := w.Parent()
		var budgets, charges []*ssa.Call
		instrsOf(F, func(in ssa.Instruction) {
			c, ok := in.(*ssa.Call)
			if !ok {
				return
			}
			if isLimiterCall(c, "Budget", "TokensAt") && timeArg(c) != nil {
				budgets = append(budgets, c)
			}
			if isLimiterCall(c, "AllowN", "ReserveN") && timeArg(c) != nil && instrDominates(c, w) {
				charges = append(charges, c)
			}
		})
		for _, b := range budgets {
			for _, c := range charges {
				tb, tc := timeArg(b), timeArg(c)
				if p.origin(tb) != p.origin(tc) && p.pureKey(tb) != p.pureKey(tc) {
					bad = append(bad, fmt.Sprintf("the budget is read for one instant (%s at %s) and the charge made for another (%s at %s): when the bucket refills in between, the charge fails without deducting anything and the packet leaves unaccounted", shortExpr(p, tb), p.instrPos(b), shortExpr(p, tc), p.instrPos(c)))
				}
			}
		}
	}
	// what is tested is what is charged: the amount the budget is compared with and the amount of the charge are the
	// same quantity (the same non-constant sources under the same constant factor, conversions aside). A test against
	// a capped or otherwise different cost than the one charged lets a packet pass a test the charge then fails — the
	// limiter refuses a request above its burst without deducting anything, the result is not looked at, and the
	// packet leaves for free.
	// tokens are only ever taken: a charge with a negated amount gives tokens *back* — a refund for a packet whose
	// downstream write failed lets the drain loop go on in the same tick with the budget restored, and everything
	// handed to a failing writer leaves uncharged
	for _, w := range writes {
		instrsOf(w.Parent(), func(in ssa.Instruction) {
			c, ok := in.(*ssa.Call)
			if !ok || !isLimiterCall(c, "AllowN", "ReserveN") {
				return
			}
			args := c.Call.Args
			if !c.Call.IsInvoke() && len(args) > 0 {
				args = args[1:]
			}
			for _, a := range args {
				if _, _, isInt := intInfo(a.Type()); !isInt {
					continue
				}
				neg := false
				switch x := p.origin(a).(type) {
				case *ssa.UnOp:
					neg = x.Op == token.SUB
				case *ssa.BinOp:
					neg = x.Op == token.SUB && isConstInt(x.X, 0)
				case *ssa.Const:
					if v, ok := constInt64(x); ok && v < 0 {
						neg = true
					}
				}
				if neg {
					bad = append(bad, fmt.Sprintf("the charge at %s is made with a negated amount: tokens are handed back to the limiter, and what was released against them leaves unaccounted", p.instrPos(c)))
				}
			}
		})
	}
	var quantity func(v ssa.Value, leaves map[string]bool, consts *[]string, d int)
	quantity = func(v ssa.Value, leaves map[string]bool, consts *[]string, d int) {
		v = p.origin(v)
		if d > 6 {
			leaves["…"] = true
			return
		}
		switch x := v.(type) {
		case *ssa.Const:
			if x.Value != nil {
				*consts = append(*consts, x.Value.String())
			}
		case *ssa.Convert:
			quantity(x.X, leaves, consts, d+1)
		case *ssa.ChangeType:
			quantity(x.X, leaves, consts, d+1)
		case *ssa.BinOp:
			if x.Op == token.MUL || x.Op == token.ADD || x.Op == token.SHL {
				quantity(x.X, leaves, consts, d+1)
				quantity(x.Y, leaves, consts, d+1)
				return
			}
			leaves[x.Op.String()+"("+p.pureKey(x.X)+","+p.pureKey(x.Y)+")"] = true
		case *ssa.Call:
			// the same measure of "the packet" — by callee, not by which copy of the head packet it is applied to (the
			// test looks at queue[0], the charge at the local it was popped into)
			k := calleeName(&x.Call) + "("
			if b := builtinName(&x.Call); b != "" {
				k = b + "(" + x.Call.Args[0].Type().String()
			}
			leaves[k+")"] = true
		default:
			if k := p.pureKey(v); k != "" {
				leaves[k] = true
			} else {
				leaves[fmt.Sprintf("%T@%s", v, p.instrPosV(v))] = true
			}
		}
	}
	for _, w := range writes {
		F := w.Parent()
		instrsOf(F, func(in ssa.Instruction) {
			bo, ok := in.(*ssa.BinOp)
			if !ok || !isComparison(bo.Op) {
				return
			}
			var tested ssa.Value
			if isLimiterCall(p.origin(bo.X), "Budget", "Tokens", "TokensAt") {
				tested = bo.Y
			} else if isLimiterCall(p.origin(bo.Y), "Budget", "Tokens", "TokensAt") {
				tested = bo.X
			}
			if tested == nil {
				return
			}
			instrsOf(F, func(in2 ssa.Instruction) {
				c, ok := in2.(*ssa.Call)
				if !ok || !isLimiterCall(c, "AllowN", "ReserveN") || !instrDominates(c, w) {
					return
				}
				args := c.Call.Args
				if !c.Call.IsInvoke() && len(args) > 0 {
					args = args[1:]
				}
				var amount ssa.Value
				for _, a := range args {
					if _, _, isInt := intInfo(a.Type()); isInt {
						amount = a
					}
				}
				if amount == nil {
					return
				}
				lt, lc := map[string]bool{}, map[string]bool{}
				var ct, cc []string
				quantity(tested, lt, &ct, 0)
				quantity(amount, lc, &cc, 0)
				sort.Strings(ct)
				sort.Strings(cc)
				same := len(lt) == len(lc) && strings.Join(ct, "*") == strings.Join(cc, "*")
				for k := range lt {
					if !lc[k] {
						same = false
					}
				}
				if !same {
					bad = append(bad, fmt.Sprintf("the budget is tested against %s (at %s) but the charge at %s is for %s: a packet that passes the test can fail the charge, which then deducts nothing — its result is not looked at — and the packet leaves unaccounted", shortExpr(p, tested), p.instrPos(bo), p.instrPos(c), shortExpr(p, amount)))
				}
			})
		})
	}
	if len(bad) > 0 {
		o.bad("Q3", key, p.Pos(cons.Pos()), strings.Join(dedupe(bad), "; "))
	} else {
		o.ok("Q3", key, p.Pos(cons.Pos()), "every write is dominated by a budget test and by a token charge on the limiter")
	}
}

// ---- S ------------------------------------------------------------------------------------------------------------

type statsSpec struct {
	recorder string // recorder type
	ssrc     string // field holding the recorder's SSRC
	pkgPath  string // package whose *StreamStats types are the counters
	registry []string // map field(s) of the interceptor(s) holding one recorder per bound SSRC
	state    string   // the recorder's per-stream state struct (embeds the exported stats structs)
}

var statsStateTypes = map[string]bool{}

var statsSpecs = []statsSpec{
	{"pkg/stats.recorder", "pkg/stats.recorder.ssrc", "pkg/stats", []string{"pkg/stats.Interceptor.recorders"}, "pkg/stats.internalStats"},
	{"fixtures/fx.sRec", "fixtures/fx.sRec.ssrc", "fixtures/fx", []string{"fixtures/fx.GoodS5fan.recs", "fixtures/fx.BadS5fan.recs"}, "fixtures/fx.sStats"},
}

func runEngineS(p *Prog, o *obls) {
	for _, ss := range statsSpecs {
		statsStateTypes[ss.state] = true
	}
	for _, ss := range statsSpecs {
		if p.Fixture != strings.HasPrefix(ss.recorder, "fixtures/") {
			continue
		}
		t := p.namedByKey(ss.recorder)
		if t == nil {
			o.undecided("S1", ss.recorder, "-", "anchor unresolved: recorder type not found")
			continue
		}
		var fns []*ssa.Function
		// every method of the recorder, and every function of its package (by-value helpers such as
		// addReceived(stats, …) stats), that updates a counter of the stats structs
		var cand []*ssa.Function
		for i := 0; i < t.NumMethods(); i++ {
			cand = append(cand, p.SSA.FuncValue(t.Method(i)))
		}
		for _, f := range p.Funcs {
			if f.Parent() == nil && f.Signature.Recv() == nil && f.Pkg != nil && relPkg(f.Pkg.Pkg.Path()) == ss.pkgPath {
				cand = append(cand, f)
			}
		}
		for _, f := range cand {
			if f == nil || f.Blocks == nil {
				continue
			}
			has := false
			instrsOf(f, func(in ssa.Instruction) {
				if st, ok := in.(*ssa.Store); ok && throughStatsStruct(st.Addr, ss.pkgPath) && !freshlyBuilt(p, st.Addr, f) {
					has = true
				}
			})
			if has {
				fns = append(fns, f)
			}
		}
		sort.Slice(fns, func(i, j int) bool { return funcKey(fns[i]) < funcKey(fns[j]) })
		if len(fns) == 0 {
			o.undecided("S1", ss.recorder, "-", "anchor unresolved: no method of the recorder updates a stats counter")
			continue
		}
		for _, reg := range ss.registry {
			s5FanOut(p, o, reg)
		}
		// callers' guards: a helper called only under an SSRC test inherits it
		for _, fn := range fns {
			// ---- S1
			var bad []string
			n := 0
			instrsOf(fn, func(in ssa.Instruction) {
				st, ok := in.(*ssa.Store)
				if !ok || !throughStatsStruct(st.Addr, ss.pkgPath) {
					return
				}
				if freshlyBuilt(p, st.Addr, fn) {
					return // initialising a state object this function has just allocated records no traffic
				}
				n++
				ssrcGuardedAt := func(at ssa.Instruction) bool {
					for _, f := range dominatingFactsInstr(at) {
						if p.backwardReaches(f.cond, func(v ssa.Value) bool { return loadOfField(p, v, ss.ssrc) }) {
							return true
						}
					}
					return false
				}
				// a helper inherits the test when every call of it is dominated by one
				guarded := ssrcGuardedAt(st) || p.allCallersSatisfy(fn, func(s ssa.CallInstruction) bool { return ssrcGuardedAt(s) }, ipDepth)
				if !guarded {
					bad = append(bad, fmt.Sprintf("%s is updated at %s without a dominating comparison of the packet's SSRC with the recorder's: traffic of another stream is counted", describeAddr(p, st.Addr), p.instrPos(st)))
				}
			})
			if n > 0 {
				key := funcKey(fn)
				if len(bad) > 0 {
					if len(bad) > 3 {
						bad = append(bad[:3], fmt.Sprintf("… and %d more", len(bad)-3))
					}
					o.bad("S1", key, p.Pos(fn.Pos()), strings.Join(bad, "; "))
				} else {
					o.ok("S1", key, p.Pos(fn.Pos()), fmt.Sprintf("%d counter update(s), each dominated by a test against the recorder's SSRC", n))
				}
			}
			s4CoUpdate(p, o, fn, ss)
			s6CoAssign(p, o, fn, ss)
			s7OwnKey(p, o, fn, ss)
			// ---- S2: loops over the packets of a compound are exhaustive
			nBlk := 0
			for _, l := range findRangeLoops(fn) {
				st, ok := l.Slice.Type().Underlying().(*types.Slice)
				if !ok {
					continue
				}
				ek := types.TypeString(st.Elem(), nil)
				// ---- S2 (blocks of one report): a report can name the same source in several blocks (an RR assembled by a
				// mixer, a DLRR with sub-blocks from several receivers); "the most recent matching report" is the last
				// of them, so the loop over a report's blocks is exhaustive as well — a `break` after the first match
				// freezes the figures at the first block and books one round-trip measurement instead of one per block
				if (strings.HasPrefix(ek, "github.com/pion/rtcp.") || strings.HasPrefix(ek, "fixtures/fx.sBlock")) && ek != "github.com/pion/rtcp.Packet" {
					if _, isStruct := st.Elem().Underlying().(*types.Struct); isStruct {
						nBlk++
						kb := fmt.Sprintf("%s:block-loop#%d", funcKey(fn), nBlk)
						if len(l.Exits) > 0 {
							o.bad("S2", kb, p.Pos(fn.Pos()), fmt.Sprintf("the loop over the blocks of one report (%s) can be left early (edge to the block at %s): a later block about the same source is never applied", ek, p.instrPos(l.Exits[0].To.Instrs[0])))
						} else {
							o.ok("S2", kb, p.Pos(fn.Pos()), "the loop over the report's blocks ("+ek+") has no early exit")
						}
					}
				}
				if ek != "github.com/pion/rtcp.Packet" && ek != "fixtures/fx.sPkt" {
					continue
				}
				// ---- S3: each packet of the compound is judged by itself — no branch on an SSRC decision carried over
				// from a previous iteration
				{
					var stale []string
					for _, in := range l.Header.Instrs {
						phi, ok := in.(*ssa.Phi)
						if !ok {
							continue
						}
						if b, ok := phi.Type().Underlying().(*types.Basic); !ok || b.Kind() != types.Bool {
							continue
						}
						fromSSRC := false
						isSSRC := func(v ssa.Value) bool { return loadOfField(p, v, ss.ssrc) }
						for i, e := range phi.Edges {
							if !l.Blocks[l.Header.Preds[i]] {
								continue
							}
							if p.backwardReaches(e, isSSRC) {
								fromSSRC = true
							}
							// a flag set to a constant under an SSRC test (control dependence)
							pdomS := postDominators(fn)
							seenP := map[ssa.Value]bool{}
							var web func(v ssa.Value)
							web = func(v ssa.Value) {
								if seenP[v] {
									return
								}
								seenP[v] = true
								ph, ok := v.(*ssa.Phi)
								if !ok || ph == phi {
									return
								}
								for k, e2 := range ph.Edges {
									if _, isC := e2.(*ssa.Const); isC {
										for cb := range transitiveControlDeps(fn, pdomS, ph.Block().Preds[k]) {
											if c := ifCond(cb); c != nil && l.Blocks[cb] && p.backwardReaches(c, isSSRC) {
												fromSSRC = true
											}
										}
									}
									web(e2)
								}
							}
							web(e)
						}
						if !fromSSRC {
							continue
						}
						for b := range l.Blocks {
							if c := ifCond(b); c != nil && viaPhisOnly(p, c, phi) {
								stale = append(stale, fmt.Sprintf("the branch at %s tests %s, an SSRC decision that may have been made for a previous packet of the compound", p.instrPos(b.Instrs[len(b.Instrs)-1]), phi.Comment))
							}
						}
					}
					k3 := funcKey(fn) + ":per-packet-decision"
					if len(stale) > 0 {
						o.bad("S3", k3, p.Pos(fn.Pos()), strings.Join(dedupe(stale), "; "))
					} else {
						o.ok("S3", k3, p.Pos(fn.Pos()), "no branch in the compound loop tests a loop-carried SSRC decision")
					}
				}
				key := funcKey(fn) + ":compound-loop"
				if len(l.Exits) > 0 {
					e := l.Exits[0]
					o.bad("S2", key, p.Pos(fn.Pos()), fmt.Sprintf("the loop over the packets of a compound RTCP can be left early (edge to the block at %s): packets that follow in the same compound are never counted", p.instrPos(e.To.Instrs[0])))
				} else {
					o.ok("S2", key, p.Pos(fn.Pos()), "the loop over the compound's packets has no early exit")
				}
			}
		}
	}
}

// throughExportedStats: the address selects a field inside one of the exported *StreamStats structs.
func throughExportedStats(addr ssa.Value, pkgRel string) bool {
	for i := 0; i < 8; i++ {
		fa, ok := addr.(*ssa.FieldAddr)
		if !ok {
			return false
		}
		tk := typeKey(fa.X.Type())
		if strings.HasPrefix(tk, pkgRel+".") && strings.HasSuffix(tk, "StreamStats") {
			return true
		}
		addr = fa.X
	}
	return false
}

// freshlyBuilt: the address lies in an object allocated by fn itself (a composite literal or new(T)) that no whole value
// was copied into — the fields are being given their initial values.
func freshlyBuilt(p *Prog, addr ssa.Value, fn *ssa.Function) bool {
	al, ok := cellAddr(addrRoot(addr)).(*ssa.Alloc)
	if !ok || al.Parent() != fn {
		return false
	}
	for _, st := range p.storesInto(al) {
		if st.Addr == ssa.Value(al) {
			return false // a copy of existing state (a by-value parameter, *old): not fresh
		}
	}
	return true
}

// statsExempt: per-stream state that is deliberately recorded without an SSRC test.
var statsExempt = map[string]string{
	"pkg/stats.internalStats.lastReceiverReferenceTimes": "receiver-reference-time report blocks carry no destination SSRC and are recorded for every stream (comment in recordOutgoingRTCP)",
}

// throughStatsStruct: the address selects a field inside one of the exported *StreamStats structs, or a field of the
// recorder's per-stream state struct that embeds them (the running state the figures are derived from).
func throughStatsStruct(addr ssa.Value, pkgRel string) bool {
	for i := 0; i < 8; i++ {
		fa, ok := addr.(*ssa.FieldAddr)
		if !ok {
			return false
		}
		tk := typeKey(fa.X.Type())
		if strings.HasPrefix(tk, pkgRel+".") && strings.HasSuffix(tk, "StreamStats") {
			return true
		}
		if statsStateTypes[tk] {
			if _, ex := statsExempt[fieldKeyAddr(fa)]; ex {
				return false
			}
			return true
		}
		addr = fa.X
	}
	return false
}


// viaPhisOnly: v is the loop-carried φ itself, or a φ merging it unchanged on some path (the variable was not
// re-assigned on that path of the current iteration).
func viaPhisOnly(p *Prog, v ssa.Value, target *ssa.Phi) bool {
	seen := map[ssa.Value]bool{}
	var walk func(v ssa.Value) bool
	walk = func(v ssa.Value) bool {
		v = p.origin(v)
		if v == ssa.Value(target) {
			return true
		}
		if seen[v] {
			return false
		}
		seen[v] = true
		if ph, ok := v.(*ssa.Phi); ok {
			for _, e := range ph.Edges {
				if walk(e) {
					return true
				}
			}
		}
		return false
	}
	return walk(v)
}

// statsFieldPath renders the field path of an address inside the stats struct ("InboundRTPStreamStats.PacketsReceived").
func statsFieldPath(addr ssa.Value) string {
	var parts []string
	for i := 0; i < 8; i++ {
		fa, ok := addr.(*ssa.FieldAddr)
		if !ok {
			break
		}
		if f := fieldOfAddr(fa); f != nil {
			parts = append([]string{cFieldName(f)}, parts...)
		}
		addr = fa.X
	}
	return strings.Join(parts, ".")
}

// s4CoUpdate (rule S4): in a loop-free record* function, the integer counters that are accumulated (x = x + …) are
// accumulated on the same paths: no path from the entry to a return adds to one of them and not to another. A recount
// of the traffic counts each packet in all of them (a packet has at least its header bytes) or in none.
// s4Accumulators: the integer counters of the exported stats structs that fn accumulates itself (x = x + …), by
// field path.
func s4Accumulators(fn *ssa.Function, ss statsSpec) map[*ssa.Store]string {
	out := map[*ssa.Store]string{}
	instrsOf(fn, func(in ssa.Instruction) {
		st, ok := in.(*ssa.Store)
		if !ok || !throughExportedStats(st.Addr, ss.pkgPath) {
			return
		}
		if b, ok := st.Val.Type().Underlying().(*types.Basic); !ok || b.Info()&types.IsInteger == 0 {
			return
		}
		bo, ok := st.Val.(*ssa.BinOp)
		if !ok || bo.Op != token.ADD {
			return
		}
		for _, op := range []ssa.Value{bo.X, bo.Y} {
			if u, ok := op.(*ssa.UnOp); ok && u.Op == token.MUL {
				if addrRoot(u.X) == addrRoot(st.Addr) && statsFieldPath(u.X) == statsFieldPath(st.Addr) {
					out[st] = statsFieldPath(st.Addr)
				}
			}
		}
	})
	return out
}

// s4HelperAccumulates: a loop-free helper that takes the stats value and returns it, accumulating the same counters
// on every path (addReceived(stats, hdr, payload) stats): the counters it always accumulates.
func s4HelperAccumulates(p *Prog, h *ssa.Function, ss statsSpec) []string {
	if h.Blocks == nil || len(naturalLoops(h)) > 0 {
		return nil
	}
	accs := s4Accumulators(h, ss)
	if len(accs) == 0 {
		return nil
	}
	var names []string
	seen := map[string]bool{}
	for _, k := range accs {
		if !seen[k] {
			seen[k] = true
			names = append(names, k)
		}
	}
	sort.Strings(names)
	for _, k := range names {
		before, _ := pathCounts(h, func(in ssa.Instruction) bool {
			st, ok := in.(*ssa.Store)
			return ok && accs[st] == k
		})
		for _, b := range h.Blocks {
			if ret, ok := b.Instrs[len(b.Instrs)-1].(*ssa.Return); ok && b != h.Recover && before[ret] != 2 {
				return nil
			}
		}
	}
	return names
}

func s4CoUpdate(p *Prog, o *obls, fn *ssa.Function, ss statsSpec) {
	// loop-free?
	for _, b := range fn.Blocks {
		for _, s := range b.Succs {
			if s.Dominates(b) {
				return
			}
		}
	}
	ids := map[string]int{}
	var names []string
	acc := map[ssa.Instruction][]int{}
	idOf := func(k string) (int, bool) {
		if id, ok := ids[k]; ok {
			return id, true
		}
		if len(names) >= 5 {
			return 0, false
		}
		ids[k] = len(names)
		names = append(names, k)
		return ids[k], true
	}
	for st, k := range s4Accumulators(fn, ss) {
		if id, ok := idOf(k); ok {
			acc[st] = append(acc[st], id)
		}
	}
	// calls of by-value helpers that always accumulate a fixed set of counters count as accumulating them here
	helperUsed := false
	instrsOf(fn, func(in ssa.Instruction) {
		c, ok := in.(*ssa.Call)
		if !ok {
			return
		}
		h := c.Call.StaticCallee()
		if h == nil || !p.InUniverse(h) || h == fn || h.Pkg != fn.Pkg {
			return
		}
		for _, k := range s4HelperAccumulates(p, h, ss) {
			if id, ok := idOf(k); ok {
				acc[c] = append(acc[c], id)
				helperUsed = true
			}
		}
	})
	if len(names) < 2 {
		return
	}
	_ = helperUsed
	full := uint32(1)<<uint(len(names)) - 1
	// state: set of subsets (bit i of the word = subset i is possible)
	in := map[*ssa.BasicBlock]uint64{fn.Blocks[0]: 1}
	var bad []string
	// blocks of a reducible loop-free CFG in reverse post-order
	var order []*ssa.BasicBlock
	seen := map[*ssa.BasicBlock]bool{}
	var dfs func(b *ssa.BasicBlock)
	dfs = func(b *ssa.BasicBlock) {
		seen[b] = true
		for _, s := range b.Succs {
			if !seen[s] {
				dfs(s)
			}
		}
		order = append(order, b)
	}
	dfs(fn.Blocks[0])
	for i := len(order) - 1; i >= 0; i-- {
		b := order[i]
		st := in[b]
		for _, ins := range b.Instrs {
			if idl, ok := acc[ins]; ok {
				var add uint32
				for _, id := range idl {
					add |= 1 << uint(id)
				}
				var nst uint64
				for sub := uint32(0); sub <= full; sub++ {
					if st&(1<<sub) != 0 {
						nst |= 1 << (sub | add)
					}
				}
				st = nst
			}
			if r, ok := ins.(*ssa.Return); ok {
				for sub := uint32(1); sub < full; sub++ {
					if st&(1<<sub) != 0 {
						var has, lacks []string
						for j, n := range names {
							if sub&(1<<uint(j)) != 0 {
								has = append(has, n)
							} else {
								lacks = append(lacks, n)
							}
						}
						bad = append(bad, fmt.Sprintf("a path to the return at %s adds to %s but not to %s", p.instrPos(r), strings.Join(has, ", "), strings.Join(lacks, ", ")))
					}
				}
			}
		}
		for _, s := range b.Succs {
			in[s] |= st
		}
	}
	key := funcKey(fn) + ":co-update"
	if len(bad) > 0 {
		o.bad("S4", key, p.Pos(fn.Pos()), strings.Join(dedupe(bad), "; ")+": the counters no longer describe the same set of packets")
	} else {
		o.ok("S4", key, p.Pos(fn.Pos()), fmt.Sprintf("the accumulated counters %s are updated on the same paths", strings.Join(names, ", ")))
	}
}

// s5FanOut (rule S5): RTCP is not addressed to one stream by the transport — every RTCP per-packet closure of the
// interceptor that owns the recorder registry hands each batch to every recorder: it ranges over the registry itself
// (not over a selection of it), calls the recorder once per iteration unconditionally and never leaves the loop early.
// Which reports concern a recorder is decided by the recorder (rules S1–S3), where the per-type exemptions live.
func s5FanOut(p *Prog, o *obls, registry string) {
	owner := registry[:strings.LastIndex(registry, ".")]
	cls, _ := p.PktClosures()
	n := 0
	for _, c := range cls {
		if c.Kind != RTCPReader && c.Kind != RTCPWriter || closureOwnerType(c.ownerFn()) != owner {
			continue
		}
		n++
		key := closureKey(c) + ":fan-out"
		var rng *ssa.Range
		var where *ssa.Function
		// the range may sit in a method of a registry type that wraps the map (`r.registry.each(func(rec) {…})`): it is
		// a range over the registry if every call of that method is made on the field that holds the wrapped map
		wrappedRange := func(r *ssa.Range, f *ssa.Function) bool {
			u, ok := p.origin(r.X).(*ssa.UnOp)
			if !ok || u.Op != token.MUL || f.Signature.Recv() == nil || len(f.Params) == 0 {
				return false
			}
			fa, ok := u.X.(*ssa.FieldAddr)
			if !ok || p.origin(fa.X) != ssa.Value(f.Params[0]) {
				return false
			}
			fv := fieldOfAddr(fa)
			if fv == nil {
				return false
			}
			sites, closed := p.staticCallSites(f)
			if !closed || len(sites) == 0 {
				return false
			}
			for _, s := range sites {
				outer := containerKey(p, s.Common().Args[0])
				if outer == "" {
					return false
				}
				if old := p.wrappedBaselineField(ownerOfFieldKey(outer), fv.Type()); old != "" {
					outer = ownerOfFieldKey(outer) + "." + old
				}
				if outer != registry {
					return false
				}
			}
			return true
		}
		for _, f := range p.calleeGroup(c.Fn) {
			instrsOf(f, func(in ssa.Instruction) {
				if r, ok := in.(*ssa.Range); ok && (loadOfField(p, r.X, registry) || wrappedRange(r, f)) {
					rng, where = r, f
				}
			})
		}
		if rng == nil {
			o.bad("S5", key, p.Pos(c.Fn.Pos()), "the closure does not range over "+registry+" itself: RTCP is handed to a selection of the recorders (or to none), so a report that concerns a stream the selection leaves out is never counted for it")
			continue
		}
		// the loop of this range: header = block of the Next on it
		var hdr *ssa.BasicBlock
		var next *ssa.Next
		for _, r := range *rng.Referrers() {
			if nx, ok := r.(*ssa.Next); ok {
				hdr, next = nx.Block(), nx
			}
		}
		body := naturalLoops(where)[hdr]
		if hdr == nil || body == nil {
			o.undecided("S5", key, p.instrPos(rng), "the loop of the range over the registry was not recognised")
			continue
		}
		var elem, keyV ssa.Value
		for _, r := range *next.Referrers() {
			if ex, ok := r.(*ssa.Extract); ok && ex.Index == 2 {
				elem = ex
			}
			if ex, ok := r.(*ssa.Extract); ok && ex.Index == 1 {
				keyV = ex
			}
		}
		var bad []string
		for b := range body {
			for _, s := range b.Succs {
				if !body[s] && b != hdr {
					bad = append(bad, fmt.Sprintf("the loop over the recorders can be left early at %s", p.instrPos(b.Instrs[len(b.Instrs)-1])))
				}
			}
		}
		isCall := func(in ssa.Instruction) bool {
			c, ok := in.(*ssa.Call)
			if !ok || (elem == nil && keyV == nil) {
				return false
			}
			if c.Call.IsInvoke() && elem != nil && p.origin(c.Call.Value) == elem {
				return true
			}
			// `for k := range m { m[k].Queue(…) }`: the receiver is the registry entry of the current key
			if c.Call.IsInvoke() && keyV != nil {
				if lk, ok := p.origin(c.Call.Value).(*ssa.Lookup); ok && !lk.CommaOk && p.origin(lk.Index) == keyV && loadOfField(p, lk.X, registry) {
					return true
				}
			}
			// a visitor helper: the loop calls a function parameter with the element, and every caller passes a
			// literal that hands the batch to its argument on every path
			if par, ok := p.origin(c.Call.Value).(*ssa.Parameter); ok && !c.Call.IsInvoke() {
				k := -1
				for i, a := range c.Call.Args {
					if p.origin(a) == elem {
						k = i
					}
				}
				if k < 0 {
					return false
				}
				args, _, closed := p.argsForParam(par)
				if !closed || len(args) == 0 {
					return false
				}
				for _, a := range args {
					var lit *ssa.Function
					switch x := p.origin(a).(type) {
					case *ssa.MakeClosure:
						lit = x.Fn.(*ssa.Function)
					case *ssa.Function:
						lit = x
					}
					if lit == nil || lit.Blocks == nil {
						return false
					}
					if k >= len(lit.Params) {
						return false
					}
					lp := lit.Params[k]
					before, _ := pathCounts(lit, func(in2 ssa.Instruction) bool {
						c2, ok := in2.(*ssa.Call)
						return ok && c2.Call.IsInvoke() && p.origin(c2.Call.Value) == ssa.Value(lp)
					})
					for _, b := range lit.Blocks {
						if ret, ok := b.Instrs[len(b.Instrs)-1].(*ssa.Return); ok && before[ret]&1 != 0 {
							return false
						}
					}
				}
				return true
			}
			return false
		}
		for _, s := range hdr.Succs {
			if !body[s] {
				continue
			}
			before := seededCounts(where, s, isCall)
			for _, pr := range hdr.Preds {
				if body[pr] && before[pr.Instrs[len(pr.Instrs)-1]]&1 != 0 {
					bad = append(bad, fmt.Sprintf("an iteration can end (at %s) without handing the batch to the recorder: recorders are skipped by a test made outside the recorder", p.instrPos(pr.Instrs[len(pr.Instrs)-1])))
				}
			}
		}
		if len(bad) > 0 {
			o.bad("S5", key, p.instrPos(rng), strings.Join(dedupe(bad), "; "))
		} else {
			o.ok("S5", key, p.instrPos(rng), "ranges over the whole registry, one unconditional hand-off per recorder, no early exit")
		}
	}
	if n == 0 {
		o.undecided("S5", owner, "-", "anchor unresolved: no RTCP closure of the registry's owner found")
	}
}

// s6CoAssign (rule S6): figures copied from one report are recorded together. In a recording function, the stats fields
// that are assigned a value computed from nothing but the fields of one source object (a reception report block, a
// sender report: `stats.PacketsLost = int64(report.TotalLost)`, `stats.Jitter = float64(report.Jitter)/clockRate`) —
// no state of the recorder, no clock, no call — describe that one report. On every path through one iteration over
// the reports (or through the function, if it has no such loop) either all of them are assigned or none: an early
// `continue` that skips one leaves a figure from an older report next to figures from the newest. Values that
// legitimately depend on more (the round-trip time needs a matching sender report) are not part of the group.
func s6CoAssign(p *Prog, o *obls, fn *ssa.Function, ss statsSpec) {
	var recv ssa.Value
	if fn.Signature.Recv() != nil && len(fn.Params) > 0 {
		recv = fn.Params[0]
	}
	// directSource: the single object whose fields v is computed from (nil, false if v uses anything else)
	directSource := func(v ssa.Value, statsRoot ssa.Value) (ssa.Value, bool) {
		var src ssa.Value
		ok := true
		seen := map[ssa.Value]bool{}
		var walk func(v ssa.Value, d int)
		walk = func(v ssa.Value, d int) {
			if !ok || v == nil || seen[v] || d > 12 {
				return
			}
			seen[v] = true
			switch x := v.(type) {
			case *ssa.Const:
			case *ssa.Convert:
				walk(x.X, d+1)
			case *ssa.ChangeType:
				walk(x.X, d+1)
			case *ssa.BinOp:
				walk(x.X, d+1)
				walk(x.Y, d+1)
			case *ssa.UnOp:
				if x.Op != token.MUL {
					walk(x.X, d+1)
					return
				}
				fa, isF := x.X.(*ssa.FieldAddr)
				if !isF {
					ok = false
					return
				}
				root := cellAddr(addrRoot(fa))
				if ia, isIA := root.(*ssa.IndexAddr); isIA {
					root = ia // element of a slice, addressed in place
				}
				root = p.origin(root)
				switch {
				case root == statsRoot:
					ok = false
				case recv != nil && root == recv:
					// configuration of the recorder (clock rate)
				default:
					if src == nil {
						src = root
					} else if src != root {
						ok = false
					}
				}
			case *ssa.Field:
				walk(x.X, d+1)
			default:
				ok = false
			}
		}
		walk(v, 0)
		return src, ok && src != nil
	}
	type grp struct {
		stores map[*ssa.Store]int
		names  []string
	}
	groups := map[ssa.Value]*grp{}
	instrsOf(fn, func(in ssa.Instruction) {
		st, isSt := in.(*ssa.Store)
		if !isSt || !throughStatsStruct(st.Addr, ss.pkgPath) || freshlyBuilt(p, st.Addr, fn) {
			return
		}
		statsRoot := p.origin(cellAddr(addrRoot(st.Addr)))
		src, ok := directSource(st.Val, statsRoot)
		if !ok {
			return
		}
		g := groups[src]
		if g == nil {
			g = &grp{stores: map[*ssa.Store]int{}}
			groups[src] = g
		}
		name := statsFieldPath(st.Addr)
		id := -1
		for i, n := range g.names {
			if n == name {
				id = i
			}
		}
		if id < 0 && len(g.names) < 5 {
			id = len(g.names)
			g.names = append(g.names, name)
		}
		if id >= 0 {
			g.stores[st] = id
		}
	})
	var srcs []ssa.Value
	for src, g := range groups {
		if len(g.names) >= 2 {
			srcs = append(srcs, src)
		}
	}
	sort.Slice(srcs, func(i, j int) bool { return srcs[i].Pos() < srcs[j].Pos() })
	loops := naturalLoops(fn)
	for gi, src := range srcs {
		g := groups[src]
		full := uint32(1)<<uint(len(g.names)) - 1
		// the smallest loop that contains every store of the group: one iteration handles one source object
		var header *ssa.BasicBlock
		var body map[*ssa.BasicBlock]bool
		for h, b := range loops {
			all := true
			for st := range g.stores {
				if !b[st.Block()] {
					all = false
				}
			}
			if all && (body == nil || len(b) < len(body)) {
				header, body = h, b
			}
		}
		in := map[*ssa.BasicBlock]uint64{}
		start := fn.Blocks[0]
		if header != nil {
			start = header
		}
		in[start] = 1
		var bad []string
		report := func(at string, st uint64) {
			for sub := uint32(1); sub < full; sub++ {
				if st&(1<<sub) != 0 {
					var has, lacks []string
					for j, n := range g.names {
						if sub&(1<<uint(j)) != 0 {
							has = append(has, n)
						} else {
							lacks = append(lacks, n)
						}
					}
					bad = append(bad, fmt.Sprintf("a path to %s assigns %s but not %s", at, strings.Join(has, ", "), strings.Join(lacks, ", ")))
				}
			}
		}
		out := map[*ssa.BasicBlock]uint64{}
		for iter := 0; iter < 40; iter++ {
			changed := false
			for _, b := range fn.Blocks {
				if header != nil && !body[b] {
					continue
				}
				st := in[b]
				if b != start {
					for _, pr := range b.Preds {
						if header == nil || body[pr] {
							st |= out[pr]
						}
					}
				}
				if st != in[b] {
					in[b] = st
					changed = true
				}
				for _, ins := range b.Instrs {
					if s, ok := ins.(*ssa.Store); ok {
						if id, ok := g.stores[s]; ok {
							var nst uint64
							for sub := uint32(0); sub <= full; sub++ {
								if st&(1<<sub) != 0 {
									nst |= 1 << (sub | 1<<uint(id))
								}
							}
							st = nst
						}
					}
				}
				if st != out[b] {
					out[b] = st
					changed = true
				}
			}
			if !changed {
				break
			}
		}
		for _, b := range fn.Blocks {
			if header != nil && !body[b] {
				continue
			}
			last := b.Instrs[len(b.Instrs)-1]
			if _, isRet := last.(*ssa.Return); isRet {
				report("the return at "+p.instrPos(last), out[b])
			}
			for _, sc := range b.Succs {
				if header != nil && sc == header {
					report("the end of the iteration at "+p.instrPos(last), out[b])
				} else if header != nil && !body[sc] {
					report("the loop exit at "+p.instrPos(last), out[b])
				}
			}
		}
		key := fmt.Sprintf("%s:co-assign", funcKey(fn))
		if gi > 0 {
			key = fmt.Sprintf("%s#%d", key, gi+1)
		}
		if len(bad) > 0 {
			o.bad("S6", key, p.Pos(fn.Pos()), strings.Join(dedupe(bad), "; ")+": figures of different reports end up side by side")
		} else {
			o.ok("S6", key, p.Pos(fn.Pos()), fmt.Sprintf("the figures copied from one report (%s) are assigned on the same paths", strings.Join(g.names, ", ")))
		}
	}
}


// s7OwnKey — figures copied out of a report are attributed by that report's own key. A compound RTCP packet reaches a
// recorder when *any* SSRC it mentions is the recorder's (a sender report mentions its sender and every stream its
// reception-report blocks are about). A statistic whose value is taken from the fields of one packet object — the
// sender info of an SR, a reception-report block — describes the stream named by a field of *that* object, so the store
// must be dominated by a comparison of the recorder's SSRC with a field of the same object; membership of the SSRC in
// the packet's destination list is not enough (an SR of stream Y with a block about X would overwrite X's
// remote-outbound counters with Y's).
func s7OwnKey(p *Prog, o *obls, fn *ssa.Function, ss statsSpec) {
	type site struct {
		st  *ssa.Store
		obj ssa.Value
	}
	var sites []site
	instrsOf(fn, func(in ssa.Instruction) {
		st, ok := in.(*ssa.Store)
		if !ok || !throughStatsStruct(st.Addr, ss.pkgPath) || freshlyBuilt(p, st.Addr, fn) {
			return
		}
		// a reported figure: an exported field of the statistics. The recorder's private matching tables (the NTP
		// times of the reports it sent, consulted only by equality with the LSR of a report that passed its own key
		// test) are not figures anyone is shown.
		if fa, ok := st.Addr.(*ssa.FieldAddr); !ok || fieldOfAddr(fa) == nil || !fieldOfAddr(fa).Exported() {
			return
		}
		// the packet object whose field the value is computed from: a pointer obtained by a type assertion on an
		// RTCP packet, or an element of a slice of report blocks
		var obj ssa.Value
		seen := map[ssa.Value]bool{}
		var walk func(v ssa.Value, d int)
		walk = func(v ssa.Value, d int) {
			if v == nil || seen[v] || d > 8 || obj != nil {
				return
			}
			seen[v] = true
			switch x := v.(type) {
			case *ssa.UnOp:
				if x.Op != token.MUL {
					walk(x.X, d+1)
					return
				}
				fa, ok := x.X.(*ssa.FieldAddr)
				if !ok {
					return // a load from other memory (the running statistics themselves): not a figure of the report
				}
				base := p.origin(fa.X)
				n := namedOf(deref(base.Type()))
				if n == nil || n.Obj().Pkg() == nil {
					return
				}
				pth := n.Obj().Pkg().Path()
				if pth == "github.com/pion/rtcp" || strings.HasPrefix(pth, "fixtures") && strings.HasPrefix(n.Obj().Name(), "s7") {
					obj = base
				}
			case *ssa.Convert:
				walk(x.X, d+1)
			case *ssa.ChangeType:
				walk(x.X, d+1)
			case *ssa.BinOp:
				walk(x.X, d+1)
				walk(x.Y, d+1)
			case *ssa.Phi:
				for _, e := range x.Edges {
					walk(e, d+1)
				}
			case *ssa.Call:
				for _, a := range x.Call.Args {
					walk(a, d+1)
				}
			case *ssa.Extract:
				walk(x.Tuple, d+1)
			}
		}
		walk(st.Val, 0)
		if obj != nil {
			sites = append(sites, site{st, obj})
		}
	})
	if len(sites) == 0 {
		return
	}
	// ownKeyAt: a dominating equality of the recorder's SSRC with a field of the object that same() recognises
	ownKeyAt := func(at ssa.Instruction, same func(x ssa.Value) bool) bool {
		for _, f := range dominatingFactsInstr(at) {
			f = normFact(f)
			bo, ok := f.cond.(*ssa.BinOp)
			if !ok || bo.Op != token.EQL && bo.Op != token.NEQ || (bo.Op == token.EQL) != f.truth {
				continue
			}
			for _, pair := range [][2]ssa.Value{{bo.X, bo.Y}, {bo.Y, bo.X}} {
				if !loadOfField(p, pair[0], ss.ssrc) {
					continue
				}
				switch u := p.origin(pair[1]).(type) {
				case *ssa.UnOp:
					if fa, ok := u.X.(*ssa.FieldAddr); ok && u.Op == token.MUL && same(fa.X) {
						return true
					}
				case *ssa.Field:
					if same(u.X) {
						return true
					}
				}
			}
		}
		return false
	}
	// a helper that is handed the object inherits the test from its callers: at every call the argument bound to the
	// parameter is an object whose own key was compared there (or, again, a parameter of that caller)
	var viaCallers func(par *ssa.Parameter, depth int) bool
	viaCallers = func(par *ssa.Parameter, depth int) bool {
		if depth <= 0 {
			return false
		}
		args, callSites, closed := p.argsForParam(par)
		if !closed || len(callSites) == 0 {
			return false
		}
		for k, a := range args {
			if _, isGo := callSites[k].(*ssa.Go); isGo {
				return false
			}
			var same func(x ssa.Value) bool
			if ld, ok := a.(*ssa.UnOp); ok && ld.Op == token.MUL {
				key := p.pureKey(ld.X)
				same = func(x ssa.Value) bool { return x == ssa.Value(ld) || p.pureKey(x) == key }
			} else {
				key := p.pureKey(p.origin(a))
				same = func(x ssa.Value) bool { return x == a || p.pureKey(x) == key || p.pureKey(p.origin(x)) == key }
			}
			if ownKeyAt(callSites[k], same) {
				continue
			}
			var up ssa.Value = a
			if ld, ok := a.(*ssa.UnOp); ok && ld.Op == token.MUL {
				up = ld.X
			}
			if q := paramBehind(p, up); q != nil && q.Parent() == callSites[k].Parent() && viaCallers(q, depth-1) {
				continue
			}
			return false
		}
		return true
	}
	var bad []string
	for _, s := range sites {
		objKey := p.pureKey(s.obj)
		ok := ownKeyAt(s.st, func(x ssa.Value) bool { return p.pureKey(x) == objKey })
		if !ok {
			par := paramBehind(p, s.obj)
			if par != nil && par.Parent() == fn {
				ok = viaCallers(par, ipDepth)
			}
		}
		if !ok {
			bad = append(bad, fmt.Sprintf("%s is assigned at %s from a field of %s without a dominating comparison of the recorder's SSRC with a field of that same object: a report that merely mentions this stream (a sender report of another stream carrying a block about it) overwrites the figure", describeAddr(p, s.st.Addr), p.instrPos(s.st), shortExpr(p, s.obj)))
		}
	}
	key := funcKey(fn) + ":own-key"
	if len(bad) > 0 {
		if len(bad) > 3 {
			bad = append(bad[:3], fmt.Sprintf("… and %d more", len(bad)-3))
		}
		o.bad("S7", key, p.Pos(fn.Pos()), strings.Join(bad, "; "))
	} else {
		o.ok("S7", key, p.Pos(fn.Pos()), fmt.Sprintf("%d figure(s) copied from report objects, each under a comparison of the recorder's SSRC with a field of the same object", len(sites)))
	}
}

// paramBehind: v is a parameter, or the local cell a struct parameter lives in (`*cell = param` is the only store
// into it).
func paramBehind(p *Prog, v ssa.Value) *ssa.Parameter {
	if par, ok := p.origin(v).(*ssa.Parameter); ok {
		return par
	}
	if al, ok := v.(*ssa.Alloc); ok {
		if sts := p.storesInto(al); len(sts) == 1 && sts[0].Addr == ssa.Value(al) {
			par, _ := sts[0].Val.(*ssa.Parameter)
			return par
		}
	}
	return nil
}

// writtenOutsideConstruction: some function other than a constructor or an option closure stores into the field.
func (p *Prog) writtenOutsideConstruction(fk string) bool {
	if p.wocCache == nil {
		p.wocCache = map[string]bool{}
		for _, fn := range p.Funcs {
			if fn.Blocks == nil || isOptionClosure(fn) || isConstructor(p, fn) {
				continue
			}
			instrsOf(fn, func(in ssa.Instruction) {
				if st, ok := in.(*ssa.Store); ok {
					if fa, ok := st.Addr.(*ssa.FieldAddr); ok && !freshlyBuilt(p, fa, fn) {
						p.wocCache[fieldKeyAddr(fa)] = true
					}
				}
			})
		}
	}
	return p.wocCache[fk]
}

// p2RepairLoop (rule P2, every repair packet is attempted): in a per-packet writer closure, a range loop over a slice
// of rtp.Packet (the repair packets the encoder produced for a finished batch) that writes each element downstream has
// no early exit. The batch is encoded — buffer reset, FEC sequence numbers drawn — before anything is written: a loop
// that gives up at the first failed write drops repair packets that protect other media packets, and the next batch
// continues the FEC sequence after a hole.
func p2RepairLoop(p *Prog, o *obls) {
	cl, _ := p.PktClosures()
	n := 0
	for _, c := range cl {
		fn := c.Fn
		if fn.Blocks == nil {
			continue
		}
		k := 0
		for _, l := range findRangeLoops(fn) {
			st, ok := l.Slice.Type().Underlying().(*types.Slice)
			if !ok || !strings.HasSuffix(types.TypeString(st.Elem(), nil), "pion/rtp.Packet") {
				continue
			}
			writes := false
			for b := range l.Blocks {
				for _, in := range b.Instrs {
					if ci, ok := in.(ssa.CallInstruction); ok && ci.Common().IsInvoke() && ci.Common().Method.Name() == "Write" {
						writes = true
					}
				}
			}
			if !writes {
				continue
			}
			n++
			k++
			key := fmt.Sprintf("%s:repair-loop#%d", funcKey(fn), k)
			if len(l.Exits) > 0 {
				o.bad("P2", key, p.Pos(fn.Pos()), fmt.Sprintf("the loop that writes the repair packets of a batch can be left early (edge to the block at %s): the remaining repair packets, which protect other media packets, are never sent and the FEC sequence continues after a hole", p.instrPos(l.Exits[0].To.Instrs[0])))
			} else {
				o.ok("P2", key, p.Pos(fn.Pos()), "the loop that writes the batch's repair packets has no early exit")
			}
		}
	}
	o.ok("P2", "repair-loops-inspected", "-", fmt.Sprintf("%d loop(s) over rtp.Packet slices that write downstream in per-packet closures", n))
}

// q2SingleConsumer (rule Q2, one consumer): the order in which a pacer hands packets on is the order in which its one
// consumer goroutine takes them off the queue — it pops under the queue lock and writes outside it. Every `go` that
// starts the consumer starts it on an object that the same function has just built (the constructor, the factory's
// NewInterceptor): a start from a method that can run again (AddStream for an SSRC that is bound a second time)
// puts a second consumer on the same queue, and packet k+1 is written while packet k is still in flight.
func q2SingleConsumer(p *Prog, o *obls, cons *ssa.Function) {
	var starts, bad []string
	for _, fn := range p.Funcs {
		if fn.Blocks == nil || !p.InUniverse(fn) {
			continue
		}
		instrsOf(fn, func(in ssa.Instruction) {
			g, ok := in.(*ssa.Go)
			if !ok {
				return
			}
			reaches := false
			var recvArg ssa.Value
			if sc := g.Call.StaticCallee(); sc != nil {
				if sc == cons {
					reaches = true
					if len(g.Call.Args) > 0 {
						recvArg = g.Call.Args[0]
					}
				} else if sc.Parent() == fn {
					// go func() { …; i.loop(ctx) }()
					instrsOf(sc, func(in2 ssa.Instruction) {
						if c, ok := in2.(ssa.CallInstruction); ok && c.Common().StaticCallee() == cons {
							reaches = true
							if len(c.Common().Args) > 0 {
								recvArg = c.Common().Args[0]
							}
						}
					})
				}
			}
			if !reaches {
				return
			}
			starts = append(starts, p.instrPos(g))
			fresh := recvArg != nil && q2Fresh(p, recvArg)
			// an unexported start helper on the receiver: every one of its callers hands it the object it has just built
			if !fresh && recvArg != nil && len(fn.Params) > 0 && fn.Signature.Recv() != nil && fn.Object() != nil && !fn.Object().Exported() {
				v := p.origin(recvArg)
				if fv, isFV := v.(*ssa.FreeVar); isFV {
					v = p.origin(resolveFreeVar(fv))
				}
				if v == ssa.Value(fn.Params[0]) {
					fresh = p.allCallersSatisfy(fn, func(site ssa.CallInstruction) bool {
						args := site.Common().Args
						if len(args) == 0 {
							return false
						}
						return q2Fresh(p, args[0])
					}, 1)
				}
			}
			if !fresh {
				bad = append(bad, fmt.Sprintf("the consumer is started at %s (in %s) on an object that was not built there: the function can run again and start a second consumer on the same queue", p.instrPos(g), funcKey(fn)))
			}
		})
	}
	key := funcKey(cons) + ":one-consumer"
	switch {
	case len(bad) > 0:
		sort.Strings(bad)
		o.bad("Q2", key, strings.Fields(strings.SplitN(bad[0], " started at ", 2)[1])[0], strings.Join(dedupe(bad), "; ")+": two consumers pop alternately and write outside the queue lock, so the order of acceptance is lost and the budget doubles")
	case len(starts) == 0:
		o.note("Q2", key, p.Pos(cons.Pos()), "no go statement starts the consumer inside the repository (the application runs it): not decided")
	default:
		o.ok("Q2", key, p.Pos(cons.Pos()), fmt.Sprintf("started at %s, each time on the object the same function has just built", strings.Join(starts, ", ")))
	}
}

// q2Fresh: the value is an object built in the function at hand — a heap allocation, the result of a constructor, or a
// local variable that only ever holds one of those.
func q2Fresh(p *Prog, v ssa.Value) bool {
	v = p.origin(v)
	if fv, isFV := v.(*ssa.FreeVar); isFV {
		v = p.origin(resolveFreeVar(fv))
	}
	one := func(x ssa.Value) bool {
		switch y := p.origin(x).(type) {
		case *ssa.Alloc:
			return y.Heap
		case *ssa.Call:
			sc := y.Call.StaticCallee()
			return sc != nil && isConstructor(p, sc)
		case *ssa.Extract:
			if c, ok := y.Tuple.(*ssa.Call); ok {
				sc := c.Call.StaticCallee()
				return sc != nil && isConstructor(p, sc)
			}
		}
		return false
	}
	if one(v) {
		return true
	}
	if u, isU := v.(*ssa.UnOp); isU {
		if al, isAl := cellAddr(u.X).(*ssa.Alloc); isAl {
			n, all := 0, true
			for _, st := range p.storesInto(al) {
				if st.Addr == ssa.Value(al) {
					n++
					if !one(st.Val) {
						all = false
					}
				}
			}
			return n > 0 && all
		}
	}
	return false
}
