package main

// V2 — what was handed on is not refilled in place. `buf = append(buf[:0], …)` on a variable that outlives the
// statement (a field, a captured variable, a variable carried round a loop) keeps one backing array and overwrites it
// each time. That is fine for scratch space that nobody else sees. Handed to the next writer of the chain, sent on a
// channel, given to a goroutine or filed in another object, the previous batch is still in somebody's hands when the
// next one is written over it: a writer that marshals later (the packet dumper's logging goroutine, a test stream's
// channel) sees the second report twice and the first never — and reads it while it is being overwritten.
//
// For every append whose first argument is `x[:0]` with x loaded from storage that the append's result is stored back
// into (or x carried round a loop from the result): the result is not an argument of a call on a chain interface, of a
// `go` statement, the value of a channel send, or stored anywhere but back into x.

import (
	"fmt"
	"go/token"
	"sort"
	"strings"

	"golang.org/x/tools/go/ssa"
)

func init() {
	registerEngine("V2", []string{"V2"}, runEngineV2)
}

func runEngineV2(p *Prog, o *obls) {
	n := 0
	for _, fn := range p.Funcs {
		if fn.Blocks == nil || !p.InUniverse(fn) {
			continue
		}
		k := 0
		instrsOf(fn, func(in ssa.Instruction) {
			call, ok := in.(*ssa.Call)
			if !ok || builtinName(&call.Call) != "append" || len(call.Call.Args) == 0 {
				return
			}
			sl, ok := call.Call.Args[0].(*ssa.Slice)
			if !ok || sl.Low != nil && !isConstInt(sl.Low, 0) || sl.High == nil || !isConstInt(sl.High, 0) {
				return
			}
			// where x comes from: a load from a cell/field/global/captured variable, or a loop-carried value
			var home ssa.Value
			switch x := sl.X.(type) {
			case *ssa.UnOp:
				if x.Op == token.MUL {
					home = x.X
				}
			case *ssa.Phi:
				for _, e := range x.Edges {
					if e == ssa.Value(call) {
						home = x
					}
				}
			}
			if home == nil {
				return
			}
			if al, isAl := home.(*ssa.Alloc); isAl && !al.Heap {
				// a plain local that is not captured: persistent only if the result is stored back (loop)
				_ = al
			}
			homeKey := p.pureKey(home)
			storedBack := false
			if _, isPhi := home.(*ssa.Phi); isPhi {
				storedBack = true
			}
			var esc []string
			seen := map[ssa.Value]bool{}
			var follow func(v ssa.Value)
			follow = func(v ssa.Value) {
				if seen[v] || v.Referrers() == nil {
					return
				}
				seen[v] = true
				for _, r := range *v.Referrers() {
					switch x := r.(type) {
					case *ssa.Store:
						if x.Val != v {
							continue
						}
						if x.Addr == home || homeKey != "" && p.pureKey(x.Addr) == homeKey {
							storedBack = true
							// later loads of the variable in this function are the same batch
							instrsOf(fn, func(in3 ssa.Instruction) {
								ld, ok := in3.(*ssa.UnOp)
								if !ok || ld.Op != token.MUL || ssa.Value(ld) == sl.X || !canReach(x, ld) {
									return
								}
								if ld.X == home || homeKey != "" && p.pureKey(ld.X) == homeKey {
									follow(ld)
								}
							})
							continue
						}
						switch p.origin(addrRoot(x.Addr)).(type) {
						case *ssa.Parameter, *ssa.FreeVar, *ssa.Global, *ssa.UnOp:
							esc = append(esc, fmt.Sprintf("stored at %s", p.instrPos(x)))
						}
					case *ssa.Send:
						if x.X == v {
							esc = append(esc, fmt.Sprintf("sent on a channel at %s", p.instrPos(x)))
						}
					case *ssa.Go:
						esc = append(esc, fmt.Sprintf("handed to a goroutine at %s", p.instrPos(x)))
					case *ssa.Call:
						if x.Call.IsInvoke() && isChainIface(p, x.Call.Value.Type()) {
							esc = append(esc, fmt.Sprintf("handed to %s.%s at %s", shortExpr(p, x.Call.Value), x.Call.Method.Name(), p.instrPos(x)))
						}
					case *ssa.Slice:
						if x.X == v && x != sl {
							follow(x)
						}
					case *ssa.Phi:
						follow(x)
					case *ssa.ChangeType:
						follow(x)
					case *ssa.MakeClosure:
					}
				}
			}
			follow(call)
			if !storedBack {
				return
			}
			n++
			k++
			key := fmt.Sprintf("%s:refill", funcKey(fn))
			if k > 1 {
				key = fmt.Sprintf("%s#%d", key, k)
			}
			if len(esc) > 0 {
				sort.Strings(esc)
				o.bad("V2", key, p.instrPos(call), fmt.Sprintf("the slice refilled in place at %s (`x = append(x[:0], …)` on %s) is %s: whoever received the previous batch still holds the same backing array while the next one is written over it", p.instrPos(call), shortExpr(p, home), strings.Join(dedupe(esc), ", ")))
			} else {
				o.ok("V2", key, p.instrPos(call), "the slice refilled in place stays inside this function's own storage")
			}
		})
	}
	o.ok("V2", "inspected", "-", fmt.Sprintf("%d in-place refill(s) of a persistent slice", n))
}
