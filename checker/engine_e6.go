package main

// E6 — what the media path fills, the media path (or a clock) empties. A container that grows with every RTP packet
// written or read must also be cut back by something that runs whether or not the peer ever answers: the same
// per-packet path, or a periodic loop. A container whose only removals are reachable from the RTCP *reader* closures —
// entries are dropped when feedback for them arrives — is bounded only while the remote side keeps sending feedback;
// with feedback lost, disabled or never negotiated it grows by one entry per packet for the life of the stream.
// (Rule E1 is satisfied by such a container: a shrink site on a traffic path exists.)

import (
	"fmt"
	"sort"
	"strings"

	"golang.org/x/tools/go/ssa"
)

func init() {
	registerEngine("E6", []string{"E6"}, runEngineE6)
}

func runEngineE6(p *Prog, o *obls) {
	cs := collectContainers(p)
	closures, _ := p.PktClosures()
	var media, feedback, other []*ssa.Function
	for _, c := range closures {
		switch c.Kind {
		case RTPWriter, RTPReader:
			media = append(media, c.Fn)
		case RTCPReader:
			feedback = append(feedback, c.Fn)
		default:
			other = append(other, c.Fn)
		}
	}
	// periodic work: goroutine entries started anywhere (service loops, timers)
	var loops []*ssa.Function
	for _, fn := range p.Funcs {
		instrsOf(fn, func(in ssa.Instruction) {
			if g, ok := in.(*ssa.Go); ok {
				loops = append(loops, p.Callees(g)...)
			}
		})
	}
	mediaReach := reachableFuncs(p, media, false)
	fbReach := reachableFuncs(p, feedback, false)
	loopReach := reachableFuncs(p, append(loops, other...), true)
	longLived := longLivedTypes(p)
	n := 0
	for _, fk := range sortedKeys(cs) {
		c := cs[fk]
		owner := ownerOfFieldKey(fk)
		if !longLived[owner] || len(c.grow) == 0 {
			continue
		}
		if _, isChan := c.typ.Underlying().(interface{ Dir() int }); isChan {
			continue
		}
		if keyDomainBounded(c.typ) {
			continue
		}
		growsOnMedia := false
		var growAt cSite
		for _, g := range c.grow {
			if mediaReach[g.fn] && !loopReach[g.fn] {
				growsOnMedia = true
				growAt = g
			}
		}
		if !growsOnMedia {
			continue
		}
		n++
		var onMedia, onLoop, onFeedback []string
		for _, s := range append(append([]cSite{}, c.shrink...), c.replace...) {
			switch {
			case mediaReach[s.fn]:
				onMedia = append(onMedia, p.instrPos(s.at))
			case loopReach[s.fn]:
				onLoop = append(onLoop, p.instrPos(s.at))
			case fbReach[s.fn]:
				onFeedback = append(onFeedback, p.instrPos(s.at))
			}
		}
		sort.Strings(onFeedback)
		switch {
		case len(onMedia) > 0 || len(onLoop) > 0:
			o.ok("E6", fk, p.instrPos(growAt.at), fmt.Sprintf("filled on the media path and cut back on the media path or by a periodic loop (%d site(s))", len(onMedia)+len(onLoop)))
		case len(onFeedback) > 0:
			o.bad("E6", fk, p.instrPos(growAt.at), fmt.Sprintf("an entry is added for every RTP packet (at %s in %s), but entries are only removed where feedback is read (%s): without feedback from the peer — lost, disabled or never negotiated — nothing is ever removed and the container grows with the length of the stream", p.instrPos(growAt.at), funcKey(growAt.fn), strings.Join(dedupe(onFeedback), ", ")))
		default:
			// no removal at all: rule E1's business
		}
	}
	o.ok("E6", "inspected", "-", fmt.Sprintf("%d container(s) filled per RTP packet", n))
}
