package main

// Z1 — what was read under a lock is not acted on under a later hold of the same lock. A function that takes a mutex,
// reads guarded state, releases the mutex and takes it again is two critical sections: between them any other
// goroutine may run its own. A write made in the second section that is computed from what the first section read —
// the cursor advanced to "the last packet I copied", the entries deleted "that I reported" — overwrites or removes
// whatever the other goroutine did in between, and two callers that both finish their first section before either
// starts its second act on the same snapshot: each packet reported twice. (Every access is locked; the race detector
// sees nothing.) For every function that acquires the same mutex twice with a release in between: no store to a field
// of the mutex's owner, map assignment/delete on one of its maps, or call of one of its methods made under the second
// hold uses a value loaded from the owner's fields under the first.

import (
	"fmt"
	"go/token"
	"sort"
	"strings"

	"golang.org/x/tools/go/ssa"
)

func init() {
	registerEngine("Z1", []string{"Z1"}, runEngineZ1)
}

func runEngineZ1(p *Prog, o *obls) {
	defer z1Methods(p, o)
	la := p.Locks()
	n := 0
	for _, fn := range p.Funcs {
		if fn.Blocks == nil || !p.InUniverse(fn) {
			continue
		}
		li := la.info[fn]
		if li == nil {
			continue
		}
		type opSite struct {
			in ssa.Instruction
			op lockOp
		}
		var acq, rel []opSite
		instrsOf(fn, func(in ssa.Instruction) {
			c, ok := in.(*ssa.Call)
			if !ok {
				return
			}
			op, ok := lockOpOf(&c.Call)
			if !ok {
				return
			}
			switch op.kind {
			case "Lock", "RLock":
				acq = append(acq, opSite{in, op})
			case "Unlock", "RUnlock":
				rel = append(rel, opSite{in, op})
			}
		})
		if len(acq) < 2 {
			continue
		}
		var bad []string
		judged := false
		for _, a1 := range acq {
			for _, a2 := range acq {
				if a1.in == a2.in || a1.op.id != a2.op.id || !canReach(a1.in, a2.in) {
					continue
				}
				var r1 *opSite
				for i := range rel {
					if rel[i].op.id == a1.op.id && canReach(a1.in, rel[i].in) && canReach(rel[i].in, a2.in) {
						r1 = &rel[i]
					}
				}
				if r1 == nil {
					continue
				}
				// a loop that locks once per iteration reaches its own acquisition again: only distinct sites are two
				// sections of one activation
				owner := ""
				if fa, ok := a1.op.addr.(*ssa.FieldAddr); ok {
					owner = p.pureKey(fa.X)
				}
				if owner == "" {
					continue
				}
				judged = true
				// loads under the first hold
				var firstLoads []ssa.Value
				instrsOf(fn, func(in ssa.Instruction) {
					u, ok := in.(*ssa.UnOp)
					if !ok || u.Op != token.MUL {
						return
					}
					fa, ok := u.X.(*ssa.FieldAddr)
					if !ok || p.pureKey(fa.X) != owner {
						return
					}
					if _, held := li.before[in][a1.op.id]; !held {
						return
					}
					if canReach(a1.in, in) && canReach(in, r1.in) && !canReach(a2.in, in) {
						firstLoads = append(firstLoads, u)
					}
				})
				if len(firstLoads) == 0 {
					continue
				}
				isFirst := func(v ssa.Value) bool {
					for _, l := range firstLoads {
						if v == l {
							return true
						}
					}
					return false
				}
				instrsOf(fn, func(in ssa.Instruction) {
					if _, held := li.before[in][a2.op.id]; !held || !canReach(a2.in, in) || in.Block() == a2.in.Block() && instrIndex(in) < instrIndex(a2.in) {
						return
					}
					var used []ssa.Value
					what := ""
					switch x := in.(type) {
					case *ssa.Store:
						fa, ok := x.Addr.(*ssa.FieldAddr)
						if !ok || p.pureKey(fa.X) != owner {
							return
						}
						used, what = []ssa.Value{x.Val}, "the store to "+fieldName(fieldKeyAddr(fa))
					case *ssa.MapUpdate:
						if u, ok := p.origin(x.Map).(*ssa.UnOp); ok && u.Op == token.MUL {
							if fa, ok := u.X.(*ssa.FieldAddr); ok && p.pureKey(fa.X) == owner {
								used, what = []ssa.Value{x.Key, x.Value}, "the assignment into "+fieldName(fieldKeyAddr(fa))
							}
						}
					case *ssa.Call:
						if builtinName(&x.Call) == "delete" && len(x.Call.Args) == 2 {
							if u, ok := p.origin(x.Call.Args[0]).(*ssa.UnOp); ok && u.Op == token.MUL {
								if fa, ok := u.X.(*ssa.FieldAddr); ok && p.pureKey(fa.X) == owner {
									used, what = []ssa.Value{x.Call.Args[1]}, "the delete from "+fieldName(fieldKeyAddr(fa))
								}
							}
						} else if sc := x.Call.StaticCallee(); sc != nil && p.InUniverse(sc) && sc.Signature.Recv() != nil && len(x.Call.Args) > 1 && p.pureKey(x.Call.Args[0]) == owner {
							if _, isLockOp := lockOpOf(&x.Call); !isLockOp {
								used, what = x.Call.Args[1:], "the call of "+sc.Name()
							}
						}
					}
					for _, v := range used {
						if p.backwardReaches(v, isFirst) {
							bad = append(bad, fmt.Sprintf("%s at %s uses what was read under the hold that ended at %s", what, p.instrPos(in), p.instrPos(r1.in)))
							return
						}
					}
				})
			}
		}
		if !judged {
			continue
		}
		n++
		key := funcKey(fn) + ":reacquire"
		if len(bad) > 0 {
			sort.Strings(bad)
			o.bad("Z1", key, strings.Fields(strings.SplitN(bad[0], " at ", 2)[1])[0], strings.Join(dedupe(bad), "; ")+": between the two holds another goroutine may have changed that state (or run the same first half on the same snapshot)")
		} else {
			o.ok("Z1", key, p.Pos(fn.Pos()), "the mutex is taken twice; nothing written under the second hold is computed from what the first one read")
		}
	}
	o.ok("Z1", "inspected", "-", fmt.Sprintf("%d function(s) that take the same mutex twice with a release in between", n))
}

// Z1 (method form) — the same split, hidden in two method calls: `jb.PopAtSequence(jb.PlayoutHead())` reads the head in
// one critical section of the buffer's mutex (inside the getter) and acts on it in another (inside the popping
// method). For every call of a method that takes its receiver's mutex and writes through its receiver: no argument
// derives from the result of another method of the same receiver that takes the same mutex — unless the caller itself
// holds a lock across both calls.
func z1Methods(p *Prog, o *obls) {
	la := p.Locks()
	// the mutex (lock id) a method takes on its own receiver, "" if none
	takes := map[*ssa.Function]string{}
	lockOf := func(m *ssa.Function) string {
		if v, ok := takes[m]; ok {
			return v
		}
		takes[m] = ""
		if m == nil || m.Blocks == nil || m.Signature.Recv() == nil || len(m.Params) == 0 {
			return ""
		}
		instrsOf(m, func(in ssa.Instruction) {
			var cc *ssa.CallCommon
			switch x := in.(type) {
			case *ssa.Call:
				cc = &x.Call
			case *ssa.Defer:
				return
			}
			if cc == nil {
				return
			}
			if op, ok := lockOpOf(cc); ok && (op.kind == "Lock" || op.kind == "RLock") && p.origin(addrRoot(op.addr)) == ssa.Value(m.Params[0]) {
				takes[m] = op.id
			}
		})
		return takes[m]
	}
	vm := map[*ssa.Function]int{}
	n := 0
	for _, fn := range p.Funcs {
		if fn.Blocks == nil || !p.InUniverse(fn) {
			continue
		}
		var bad []string
		sites := 0
		instrsOf(fn, func(in ssa.Instruction) {
			c2, ok := in.(*ssa.Call)
			if !ok || len(c2.Call.Args) < 2 {
				return
			}
			m2 := c2.Call.StaticCallee()
			if m2 == nil || !p.InUniverse(m2) {
				return
			}
			id2 := lockOf(m2)
			if id2 == "" || !mutatesReceiver(p, m2, 0, vm) {
				return
			}
			recv := p.pureKey(c2.Call.Args[0])
			for _, a := range c2.Call.Args[1:] {
				var src *ssa.Call
				p.backwardReaches(a, func(v ssa.Value) bool {
					c1, ok := v.(*ssa.Call)
					if !ok || c1 == c2 || len(c1.Call.Args) == 0 {
						return false
					}
					m1 := c1.Call.StaticCallee()
					if m1 == nil || m1 == m2 && false || lockOf(m1) != id2 || p.pureKey(c1.Call.Args[0]) != recv {
						return false
					}
					src = c1
					return true
				})
				if src == nil {
					continue
				}
				sites++
				// the caller holds a lock of its own across both calls: one critical section as far as its users go
				if li := la.info[fn]; li != nil {
					if len(li.before[src]) > 0 && len(li.before[c2]) > 0 {
						continue
					}
				}
				bad = append(bad, fmt.Sprintf("%s at %s is given what %s returned at %s: read in one critical section of %s, acted on in the next", shortCallee(funcKey(m2)), p.instrPos(c2), shortCallee(funcKey(src.Call.StaticCallee())), p.instrPos(src), id2))
			}
		})
		if sites == 0 {
			continue
		}
		n++
		key := funcKey(fn) + ":read-then-act"
		if len(bad) > 0 {
			sort.Strings(bad)
			o.bad("Z1", key, p.Pos(fn.Pos()), strings.Join(dedupe(bad), "; ")+": whatever another goroutine does between the two (a SetPlayoutHead, a second Pop) is overwritten or acted on twice")
		} else {
			o.ok("Z1", key, p.Pos(fn.Pos()), fmt.Sprintf("%d call(s) that act on what a locked getter of the same object returned, each under a lock the caller holds across both", sites))
		}
	}
	o.ok("Z1", "methods-inspected", "-", fmt.Sprintf("%d function(s) that hand a locked getter's result to a locked mutator of the same object", n))
}
