package main

// A6 — what is attached to a packet's header belongs to that packet. rtp.Header.SetExtension keeps the payload slice it
// is given (pion/rtp stores it by reference in Header.Extensions). A payload that lives longer than the call — a
// scratch slice captured by the per-packet closure, a field or ring slot of the interceptor, a global — is shared by
// every header it was attached to: the next packet's number overwrites the one still on its way (a concurrent writer
// on the same stream, a retransmission, a downstream that queues the header), so one packet leaves with another's
// value and its own is lost. The payload handed to SetExtension must therefore be allocated during the call that
// attaches it: a make / composite literal / local array of the calling function, the result of an external Marshal, an
// append to nil, or such a value returned by a repository helper or received from callers that all pass one.

import (
	"fmt"
	"go/token"
	"go/types"
	"strings"

	"golang.org/x/tools/go/ssa"
)

func init() {
	registerEngine("A6", []string{"A6"}, runEngineA6)
}

const (
	stFresh      = 1
	stPersistent = 2
	stUnknown    = 0
)

// storageOf classifies the memory a slice/pointer value denotes relative to fn, the function executing the call.
func storageOf(p *Prog, v ssa.Value, fn *ssa.Function, depth int, seen map[ssa.Value]bool) (int, string) {
	if v == nil || depth > 12 || seen[v] {
		return stUnknown, ""
	}
	seen[v] = true
	v = p.origin(v)
	local := func(x ssa.Value, what string) (int, string) {
		var par *ssa.Function
		if in, ok := x.(ssa.Instruction); ok {
			par = in.Parent()
		}
		if par == fn {
			return stFresh, what + " of this call"
		}
		return stPersistent, fmt.Sprintf("%s created in %s at %s, outside the per-packet call, and shared by every call", what, funcKey(par), p.instrPosV(x))
	}
	switch x := v.(type) {
	case *ssa.Const:
		return stFresh, "nil"
	case *ssa.MakeSlice:
		return local(x, "a slice")
	case *ssa.Alloc:
		return local(x, "a variable")
	case *ssa.Slice:
		return storageOf(p, x.X, fn, depth+1, seen)
	case *ssa.IndexAddr, *ssa.FieldAddr:
		// the address of a part of an object this function was handed (a receiver, a pointer parameter): the object
		// existed before the call and outlives it
		if par, ok := p.origin(addrRoot(v)).(*ssa.Parameter); ok {
			if _, isPtr := par.Type().Underlying().(*types.Pointer); isPtr {
				what := "part of the object received as " + par.Name()
				if fa, ok := v.(*ssa.FieldAddr); ok {
					what = "the field " + fieldKeyAddr(fa) + " of the object received as " + par.Name()
				}
				return stPersistent, what + ", which outlives the call"
			}
		}
		if ia, ok := v.(*ssa.IndexAddr); ok {
			return storageOf(p, ia.X, fn, depth+1, seen)
		}
		return storageOf(p, v.(*ssa.FieldAddr).X, fn, depth+1, seen)
	case *ssa.Convert:
		return stFresh, "a conversion result"
	case *ssa.ChangeType:
		return storageOf(p, x.X, fn, depth+1, seen)
	case *ssa.Global:
		return stPersistent, "the package variable " + x.Name()
	case *ssa.FreeVar:
		return stPersistent, "the captured variable " + x.Name()
	case *ssa.UnOp:
		if x.Op != token.MUL {
			return stUnknown, ""
		}
		root := cellAddr(addrRoot(x.X))
		switch r := root.(type) {
		case *ssa.Alloc:
			// a slice read out of a local object: what was stored there
			best, why := stUnknown, ""
			for _, st := range p.storesInto(r) {
				if sameFieldPath(st.Addr, x.X) {
					c, w := storageOf(p, st.Val, fn, depth+1, seen)
					if c == stPersistent {
						return c, w
					}
					if c == stFresh && best == stUnknown {
						best, why = c, w
					}
				}
			}
			if best == stUnknown && r.Parent() != fn {
				return stPersistent, fmt.Sprintf("a variable of %s, outside the per-packet call", funcKey(r.Parent()))
			}
			return best, why
		case *ssa.Parameter:
			// a slice held in an object the function received (h.scratch, s.buf): it outlives the call
			if fa, ok := x.X.(*ssa.FieldAddr); ok {
				return stPersistent, "the field " + fieldKeyAddr(fa) + ", which outlives the call"
			}
			return stPersistent, "memory reached through the parameter " + r.Name()
		case *ssa.FreeVar:
			return stPersistent, "memory reached through the captured variable " + r.Name()
		case *ssa.Global:
			return stPersistent, "the package variable " + r.Name()
		}
		return stUnknown, ""
	case *ssa.Phi:
		best, why := stFresh, "fresh on every edge"
		for _, e := range x.Edges {
			c, w := storageOf(p, e, fn, depth+1, seen)
			if c == stPersistent {
				return c, w
			}
			if c == stUnknown {
				best, why = stUnknown, ""
			}
		}
		return best, why
	case *ssa.Extract:
		return storageOf(p, x.Tuple, fn, depth+1, seen)
	case *ssa.Call:
		if b := builtinName(&x.Call); b == "append" {
			return storageOf(p, x.Call.Args[0], fn, depth+1, seen)
		}
		sc := x.Call.StaticCallee()
		if sc == nil {
			// through an interface of the repository: every implementation in the repository
			best, why := stUnknown, ""
			cs := p.Callees(x)
			all := len(cs) > 0
			for _, c := range cs {
				if !p.InUniverse(c) || c.Blocks == nil {
					all = false
					continue
				}
				for _, b := range c.Blocks {
					ret, ok := b.Instrs[len(b.Instrs)-1].(*ssa.Return)
					if !ok {
						continue
					}
					for _, r := range ret.Results {
						if !isRefType(r.Type()) {
							continue
						}
						cl, w := storageOf(p, r, c, depth+1, seen)
						if cl == stPersistent {
							return cl, w + " (returned by " + funcKey(c) + ")"
						}
						if cl == stFresh && best == stUnknown {
							best, why = cl, w
						}
						if cl == stUnknown {
							all = false
						}
					}
				}
			}
			if all {
				return best, why
			}
			return stUnknown, ""
		}
		if !p.InUniverse(sc) {
			if sc.Name() == "Marshal" || sc.Name() == "Clone" || strings.HasPrefix(sc.Name(), "Append") {
				return stFresh, "the result of " + shortCallee(calleeName(&x.Call))
			}
			return stUnknown, ""
		}
		if sc.Blocks == nil {
			return stUnknown, ""
		}
		best, why := stFresh, "allocated by "+funcKey(sc)
		for _, b := range sc.Blocks {
			ret, ok := b.Instrs[len(b.Instrs)-1].(*ssa.Return)
			if !ok {
				continue
			}
			for _, r := range ret.Results {
				if !isRefType(r.Type()) {
					continue
				}
				c, w := storageOf(p, r, sc, depth+1, seen)
				if c == stPersistent {
					return c, w + " (returned by " + funcKey(sc) + ")"
				}
				if c == stUnknown {
					best, why = stUnknown, ""
				}
			}
		}
		return best, why
	case *ssa.Parameter:
		if x.Parent() != fn {
			return stPersistent, "a parameter of the enclosing function " + funcKey(x.Parent())
		}
		args, sites, closed := p.argsForParam(x)
		if !closed || len(args) == 0 {
			return stUnknown, ""
		}
		best, why := stFresh, "fresh at every call site"
		for i, a := range args {
			c, w := storageOf(p, a, sites[i].Parent(), depth+1, seen)
			if c == stPersistent {
				return c, w + " (passed at " + p.instrPos(sites[i]) + ")"
			}
			if c == stUnknown {
				best, why = stUnknown, ""
			}
		}
		return best, why
	}
	return stUnknown, ""
}

func runEngineA6(p *Prog, o *obls) {
	n := 0
	for _, fn := range p.Funcs {
		k := 0
		instrsOf(fn, func(in ssa.Instruction) {
			call, ok := in.(*ssa.Call)
			if !ok {
				return
			}
			sc := call.Call.StaticCallee()
			if sc == nil || sc.Signature.Recv() == nil || typeKey(sc.Signature.Recv().Type()) != "github.com/pion/rtp.Header" ||
				(sc.Name() != "SetExtension" && sc.Name() != "SetExtensionWithProfile") || len(call.Call.Args) < 3 {
				return
			}
			n++
			k++
			key := fmt.Sprintf("%s:SetExtension", funcKey(fn))
			if k > 1 {
				key = fmt.Sprintf("%s#%d", key, k)
			}
			c, why := storageOf(p, call.Call.Args[2], fn, 0, map[ssa.Value]bool{})
			switch c {
			case stPersistent:
				o.bad("A6", key, p.instrPos(call), "the payload attached to the header is "+why+": SetExtension keeps the slice, so a later packet's value overwrites the one attached to a packet that is still on its way (duplicate and missing numbers)")
			case stFresh:
				o.ok("A6", key, p.instrPos(call), "the payload attached to the header is "+why)
			default:
				o.note("A6", key, p.instrPos(call), "origin of the payload not classified (neither allocated in the call nor recognisably longer-lived)")
			}
		})
	}
	if n == 0 && !p.Fixture {
		o.note("A6", "no-site", "-", "no SetExtension call in the repository")
	}
}

// A8 — what is written downstream is not storage the interceptor overwrites later. An RTCP packet handed to the
// RTCPWriter may be kept by the receiver of the call (a test stream queues batches, an application inspects reports
// after the next tick). A report object that lives in a field of the stream and is refilled for every tick makes
// every earlier report show the latest values. Each element of the packet slice passed to RTCPWriter.Write, where
// its origin can be classified (rule A6's storage classifier), must be allocated for this report.

func init() {
	registerEngine("A8", []string{"A8"}, runEngineA8)
}

func runEngineA8(p *Prog, o *obls) {
	n := 0
	for _, fn := range p.Funcs {
		k := 0
		instrsOf(fn, func(in ssa.Instruction) {
			call, ok := in.(*ssa.Call)
			if !ok || !call.Call.IsInvoke() || call.Call.Method.Name() != "Write" || len(call.Call.Args) < 1 {
				return
			}
			if n := p.rootNamed("RTCPWriter"); n == nil || !types.Identical(call.Call.Value.Type(), n) {
				return
			}
			elems := sliceElements(p, call.Call.Args[0], 0, map[ssa.Value]bool{})
			if len(elems) == 0 {
				return
			}
			n++
			k++
			key := fmt.Sprintf("%s:rtcp-write", funcKey(fn))
			if k > 1 {
				key = fmt.Sprintf("%s#%d", key, k)
			}
			var bad []string
			for _, e := range elems {
				x := stripIface(e)
				if !isRefType(x.Type()) {
					continue
				}
				if c, why := storageOf(p, x, fn, 0, map[ssa.Value]bool{}); c == stPersistent {
					bad = append(bad, fmt.Sprintf("the packet %s written at %s is %s", shortExpr(p, x), p.instrPos(call), why))
				}
			}
			if len(bad) > 0 {
				o.bad("A8", key, p.instrPos(call), strings.Join(dedupe(bad), "; ")+": it is refilled for the next report, so a receiver that still holds this one sees the later values")
			} else {
				o.ok("A8", key, p.instrPos(call), fmt.Sprintf("%d packet(s) written downstream, none recognisably longer-lived than the call", len(elems)))
			}
		})
	}
	o.ok("A8", "inspected", "-", fmt.Sprintf("%d RTCP write(s) with a locally built packet list", n))
}

// sliceElements: the values stored into the elements of a locally built slice (a slice literal, or appends of
// single values).
func sliceElements(p *Prog, v ssa.Value, d int, seen map[ssa.Value]bool) []ssa.Value {
	v = p.origin(v)
	if v == nil || seen[v] || d > 6 {
		return nil
	}
	seen[v] = true
	switch x := v.(type) {
	case *ssa.Slice:
		al, ok := x.X.(*ssa.Alloc)
		if !ok || al.Referrers() == nil {
			return nil
		}
		var out []ssa.Value
		for _, r := range *al.Referrers() {
			if ia, ok := r.(*ssa.IndexAddr); ok && ia.Referrers() != nil {
				for _, r2 := range *ia.Referrers() {
					if st, ok := r2.(*ssa.Store); ok && st.Addr == ssa.Value(ia) {
						out = append(out, st.Val)
					}
				}
			}
		}
		return out
	case *ssa.Call:
		if builtinName(&x.Call) == "append" && len(x.Call.Args) == 2 {
			return append(sliceElements(p, x.Call.Args[0], d+1, seen), sliceElements(p, x.Call.Args[1], d+1, seen)...)
		}
	case *ssa.Phi:
		var out []ssa.Value
		for _, e := range x.Edges {
			out = append(out, sliceElements(p, e, d+1, seen)...)
		}
		return out
	}
	return nil
}

// A9 — what is handed to the application through Attributes is not storage the interceptor refills. A value stored
// with Attributes.Set travels up the chain to the application, which may keep it (the feedback reports of one read
// are compared with the next). Every reference inside the value — the value itself if it is a slice, pointer or map,
// or the reference-typed fields of a struct built for the call — is classified with A6's storage classifier; a slice
// that is a field of the interceptor's state, truncated and refilled per report, fires.

func init() {
	registerEngine("A9", []string{"A9"}, runEngineA9)
}

func runEngineA9(p *Prog, o *obls) {
	n := 0
	for _, fn := range p.Funcs {
		k := 0
		instrsOf(fn, func(in ssa.Instruction) {
			call, ok := in.(*ssa.Call)
			if !ok || len(call.Call.Args) < 3 {
				return
			}
			sc := call.Call.StaticCallee()
			if sc == nil || sc.Name() != "Set" || sc.Signature.Recv() == nil {
				return
			}
			if tk := typeKey(sc.Signature.Recv().Type()); tk != "interceptor.Attributes" && tk != "fixtures/fx.fxAttrs" {
				return
			}
			n++
			k++
			key := fmt.Sprintf("%s:attr-set", funcKey(fn))
			if k > 1 {
				key = fmt.Sprintf("%s#%d", key, k)
			}
			val := stripIface(call.Call.Args[2])
			var refs []ssa.Value
			if isRefType(val.Type()) {
				refs = append(refs, val)
			} else if u, ok := p.origin(val).(*ssa.UnOp); ok && u.Op == token.MUL {
				if al, ok := cellAddr(u.X).(*ssa.Alloc); ok {
					for _, st := range p.storesInto(al) {
						if st.Addr != ssa.Value(al) && isRefType(st.Val.Type()) {
							refs = append(refs, st.Val)
						}
					}
				}
			}
			var bad []string
			for _, r := range refs {
				if c, why := storageOf(p, r, fn, 0, map[ssa.Value]bool{}); c == stPersistent {
					bad = append(bad, fmt.Sprintf("%s is %s", shortExpr(p, r), why))
				}
			}
			if len(bad) > 0 {
				o.bad("A9", key, p.instrPos(call), "the value stored into the attributes at "+p.instrPos(call)+" refers to memory the interceptor keeps and refills: "+strings.Join(dedupe(bad), "; ")+" — a consumer that still holds the value of an earlier read sees it change")
			} else {
				o.ok("A9", key, p.instrPos(call), fmt.Sprintf("%d reference(s) in the stored value, none recognisably longer-lived than the call", len(refs)))
			}
		})
	}
	o.ok("A9", "inspected", "-", fmt.Sprintf("%d Attributes.Set call(s)", n))
}
