package main

// O2 — what the interceptor remembers about an outgoing packet is remembered before the packet leaves. Feedback for
// a packet (a TWCC / RFC 8888 acknowledgement, a NACK) can only arrive after the downstream Write has put it on the
// wire — and it can arrive *while* that Write is still returning, on the RTCP reader's goroutine. A writer closure
// that hands the packet downstream first and files it in the history / retransmission ring / sent-log afterwards
// opens a window in which the feedback finds nothing: the acknowledgement is dropped and the packet later reported
// lost, the NACK goes unanswered. For every RTP writer closure: a call that files the packet (a mutating method of
// interceptor state that is also consulted on an RTCP-reader path, given something derived from the header) must not
// be reachable from the downstream Write of the same call.

import (
	"fmt"
	"go/token"
	"go/types"
	"strings"

	"golang.org/x/tools/go/ssa"
)

func init() {
	registerEngine("O2", []string{"O2"}, runEngineO2)
}

func runEngineO2(p *Prog, o *obls) {
	closures, _ := p.PktClosures()
	memo := map[*ssa.Function]int{}
	// receiver types whose methods are reachable from RTCP reader closures (the feedback side)
	fbTypes := map[string]bool{}
	var rtcpRoots []*ssa.Function
	for _, c := range closures {
		if c.Kind == RTCPReader {
			rtcpRoots = append(rtcpRoots, c.Fn)
		}
	}
	for f := range reachableFuncs(p, rtcpRoots, true) {
		if f.Signature.Recv() != nil {
			if n := namedOf(deref(f.Signature.Recv().Type())); n != nil {
				fbTypes[typeKey(n)] = true
			}
		}
	}
	n := 0
	for _, c := range closures {
		if c.Kind != RTPWriter {
			continue
		}
		fn := c.Fn
		var writes []*ssa.Call
		instrsOf(fn, func(in ssa.Instruction) {
			if call, ok := in.(*ssa.Call); ok && isChainWrite(p, call) {
				writes = append(writes, call)
			}
		})
		if len(writes) == 0 || len(fn.Params) == 0 {
			continue
		}
		pps := packetParams(c)
		if len(pps) == 0 {
			continue
		}
		hdr := ssa.Value(pps[0])
		var files []*ssa.Call
		derivedFromHdr := func(a ssa.Value) bool {
			return p.backwardReaches(a, func(v ssa.Value) bool {
				if v == hdr {
					return true
				}
				// a field of the header
				if u, ok := v.(*ssa.UnOp); ok {
					if fa, ok := u.X.(*ssa.FieldAddr); ok && p.origin(addrRoot(fa)) == hdr {
						return true
					}
				}
				return false
			})
		}
		instrsOf(fn, func(in ssa.Instruction) {
			call, ok := in.(*ssa.Call)
			if !ok || isChainWrite(p, call) {
				return
			}
			var recv ssa.Value
			var args []ssa.Value
			var callees []*ssa.Function
			if call.Call.IsInvoke() {
				recv, args = call.Call.Value, call.Call.Args
				callees = p.Callees(call)
			} else if sc := call.Call.StaticCallee(); sc != nil && sc.Signature.Recv() != nil && len(call.Call.Args) > 0 {
				recv, args = call.Call.Args[0], call.Call.Args[1:]
				callees = []*ssa.Function{sc}
			}
			if recv == nil || len(args) == 0 || len(callees) == 0 {
				return
			}
			mut := false
			for _, sc := range callees {
				if !p.InUniverse(sc) || sc.Signature.Recv() == nil {
					return
				}
				if _, isPtr := sc.Signature.Recv().Type().(*types.Pointer); !isPtr {
					continue
				}
				rn := namedOf(deref(sc.Signature.Recv().Type()))
				if rn != nil && fbTypes[typeKey(rn)] && mutatesReceiver(p, sc, 0, memo) {
					mut = true
				}
			}
			if !mut {
				return
			}
			// the receiver is interceptor state, not a local
			if al, ok := cellAddr(addrRoot(recv)).(*ssa.Alloc); ok && al.Parent() == fn {
				return
			}
			for _, a := range args {
				if derivedFromHdr(a) {
					files = append(files, call)
					return
				}
			}
		})
		// a repository helper that is handed something derived from the header and files it inside
		// (stream.add(pkt) → rtpBuffer.Add under the stream's mutex) is a filing call too
		filesInside0 := func(sc *ssa.Function, depth int) bool { return false }
		var filesInsideRec func(sc *ssa.Function, depth int) bool
		filesInsideRec = func(sc *ssa.Function, depth int) bool {
			found := false
			instrsOf(sc, func(in ssa.Instruction) {
				call, ok := in.(*ssa.Call)
				if !ok || found {
					return
				}
				for _, g := range p.Callees(call) {
					if !p.InUniverse(g) || g.Signature.Recv() == nil || g.Blocks == nil {
						continue
					}
					if _, isPtr := g.Signature.Recv().Type().(*types.Pointer); isPtr {
						if rn := namedOf(deref(g.Signature.Recv().Type())); rn != nil && fbTypes[typeKey(rn)] && mutatesReceiver(p, g, 0, memo) {
							found = true
							return
						}
					}
					if depth > 0 && g != sc && filesInsideRec(g, depth-1) {
						found = true
						return
					}
				}
			})
			return found
		}
		_ = filesInside0
		instrsOf(fn, func(in ssa.Instruction) {
			call, ok := in.(*ssa.Call)
			if !ok || isChainWrite(p, call) {
				return
			}
			for _, f := range files {
				if f == call {
					return
				}
			}
			sc := call.Call.StaticCallee()
			if sc == nil || !p.InUniverse(sc) || sc.Blocks == nil {
				return
			}
			for _, a := range call.Call.Args {
				if derivedFromHdr(a) && filesInsideRec(sc, 1) {
					files = append(files, call)
					return
				}
			}
		})
		if len(files) == 0 {
			continue
		}
		n++
		key := closureKey(c) + ":file-then-forward"
		var bad []string
		for _, f := range files {
			for _, w := range writes {
				if canReach(w, f) && !instrDominates(f, w) {
					bad = append(bad, fmt.Sprintf("%s at %s runs after the downstream Write at %s", shortCallee(calleeName(&f.Call)), p.instrPos(f), p.instrPos(w)))
				}
			}
		}
		// and what leaves is on file: no downstream Write of a closure that files its packets can be reached from the
		// closure's entry without passing a filing call. A path that forwards the packet unrecorded — the copy for
		// retransmission could not be made, "no reason to drop the packet itself" — puts a packet on the wire that a
		// NACK or an acknowledgement will ask about and the interceptor knows nothing of (and whose sequence number
		// never advanced the ring's window, so that numbers that have left it are still answered).
		// a repository helper that is handed the header and files the packet itself (i.addCCFBOutgoing(header, …))
		filesInside := func(sc *ssa.Function) bool {
			found := false
			instrsOf(sc, func(in ssa.Instruction) {
				call, ok := in.(*ssa.Call)
				if !ok || found {
					return
				}
				for _, g := range p.Callees(call) {
					if !p.InUniverse(g) || g.Signature.Recv() == nil {
						continue
					}
					if _, isPtr := g.Signature.Recv().Type().(*types.Pointer); !isPtr {
						continue
					}
					if rn := namedOf(deref(g.Signature.Recv().Type())); rn != nil && fbTypes[typeKey(rn)] && mutatesReceiver(p, g, 0, memo) {
						found = true
					}
				}
			})
			return found
		}
		isFile := func(in ssa.Instruction) bool {
			for _, f := range files {
				if in == ssa.Instruction(f) {
					return true
				}
			}
			if call, ok := in.(*ssa.Call); ok && !isChainWrite(p, call) {
				if sc := call.Call.StaticCallee(); sc != nil && p.InUniverse(sc) && sc.Blocks != nil {
					for _, a := range call.Call.Args {
						if derivedFromHdr(a) && filesInside(sc) {
							return true
						}
					}
				}
			}
			return false
		}
		entry := fn.Blocks[0].Instrs[0]
		for _, w := range writes {
			// a packet that is known not to be the stream's own (another SSRC multiplexed on the same writer) is passed
			// through unrecorded by design
			foreign := false
			for _, f := range dominatingFactsInstr(w) {
				f = normFact(f)
				bo, ok := f.cond.(*ssa.BinOp)
				if !ok || !(bo.Op == token.NEQ && f.truth || bo.Op == token.EQL && !f.truth) {
					continue
				}
				for _, side := range []ssa.Value{bo.X, bo.Y} {
					if u, ok := p.origin(side).(*ssa.UnOp); ok && u.Op == token.MUL {
						if fa, ok := u.X.(*ssa.FieldAddr); ok && p.origin(addrRoot(fa)) == hdr && fieldName(fieldKeyAddr(fa)) == "SSRC" {
							foreign = true
						}
					}
				}
			}
			if foreign {
				continue
			}
			if !isFile(entry) && unfiledPath(p, fn, w, isFile, hdr) {
				bad = append(bad, fmt.Sprintf("the downstream Write at %s can be reached without %s: the packet leaves unrecorded", p.instrPos(w), shortCallee(calleeName(&files[0].Call))))
			}
		}
		if len(bad) > 0 {
			o.bad("O2", key, p.instrPos(files[0]), strings.Join(dedupe(bad), "; ")+": feedback for the packet (which can arrive as soon as the Write has put it on the wire, on the RTCP reader's goroutine) finds no record of it")
		} else {
			o.ok("O2", key, p.instrPos(files[0]), fmt.Sprintf("%d call(s) file the packet in state the feedback path consults; none can run after the downstream Write", len(files)))
		}
	}
	o.ok("O2", "inspected", "-", fmt.Sprintf("%d writer closure(s) that file the outgoing packet for the feedback path", n))
}

// unfiledPath: control can reach w from the function's entry without executing a filing call and without taking the
// "not this stream's packet" edge of a test of the header's SSRC (`if header.SSRC == info.SSRC { file }; forward`
// forwards foreign packets unfiled through the merge point — by design).
func unfiledPath(p *Prog, fn *ssa.Function, w ssa.Instruction, isFile func(ssa.Instruction) bool, hdr ssa.Value) bool {
	foreignEdge := func(b *ssa.BasicBlock, succ int) bool {
		c := ifCond(b)
		if c == nil || len(b.Succs) != 2 {
			return false
		}
		f := normFact(condFact{c, succ == 0})
		bo, ok := f.cond.(*ssa.BinOp)
		if !ok || !(bo.Op == token.NEQ && f.truth || bo.Op == token.EQL && !f.truth) {
			return false
		}
		for _, side := range []ssa.Value{bo.X, bo.Y} {
			if u, ok := p.origin(side).(*ssa.UnOp); ok && u.Op == token.MUL {
				if fa, ok := u.X.(*ssa.FieldAddr); ok && p.origin(addrRoot(fa)) == hdr && fieldName(fieldKeyAddr(fa)) == "SSRC" {
					return true
				}
			}
		}
		return false
	}
	seen := map[*ssa.BasicBlock]bool{}
	var walk func(b *ssa.BasicBlock) bool
	walk = func(b *ssa.BasicBlock) bool {
		if seen[b] {
			return false
		}
		seen[b] = true
		for _, in := range b.Instrs {
			if in == w {
				return true
			}
			if isFile(in) {
				return false
			}
		}
		for i, s := range b.Succs {
			if foreignEdge(b, i) {
				continue
			}
			if walk(s) {
				return true
			}
		}
		return false
	}
	return walk(fn.Blocks[0])
}
