package main

import (
	"go/constant"
	"go/token"
	"go/types"
	"sort"
	"strings"

	"golang.org/x/tools/go/ssa"
)

// makeClosureOf returns the (single) MakeClosure instruction in fn.Parent() that creates fn.
func makeClosureOf(fn *ssa.Function) *ssa.MakeClosure {
	par := fn.Parent()
	if par == nil {
		return nil
	}
	for _, b := range par.Blocks {
		for _, in := range b.Instrs {
			if mc, ok := in.(*ssa.MakeClosure); ok && mc.Fn == fn {
				return mc
			}
		}
	}
	return nil
}

// resolveFreeVar maps a free variable to the value bound in the enclosing function (recursively through nesting).
func resolveFreeVar(fv *ssa.FreeVar) ssa.Value {
	fn := fv.Parent()
	mc := makeClosureOf(fn)
	if mc == nil {
		return fv
	}
	for i, f := range fn.FreeVars {
		if f == fv && i < len(mc.Bindings) {
			b := mc.Bindings[i]
			if fv2, ok := b.(*ssa.FreeVar); ok {
				return resolveFreeVar(fv2)
			}
			return b
		}
	}
	return fv
}

// cellAddr canonicalises an address: free variables are resolved to the parent's binding.
func cellAddr(v ssa.Value) ssa.Value {
	if fv, ok := v.(*ssa.FreeVar); ok {
		return resolveFreeVar(fv)
	}
	return v
}

// allNested returns fn and all anonymous functions nested in it (transitively).
func allNested(fn *ssa.Function) []*ssa.Function {
	out := []*ssa.Function{fn}
	for _, a := range fn.AnonFuncs {
		out = append(out, allNested(a)...)
	}
	return out
}

// storesToCell returns every store whose address is the given Alloc, in the allocating function and all closures
// nested in it (a captured variable may be assigned from a closure).
func (p *Prog) storesToCell(cell ssa.Value) []*ssa.Store {
	if p.cellStores == nil {
		p.cellStores = map[ssa.Value][]*ssa.Store{}
	}
	if s, ok := p.cellStores[cell]; ok {
		return s
	}
	al, ok := cell.(*ssa.Alloc)
	if !ok {
		return nil
	}
	var out []*ssa.Store
	for _, f := range allNested(al.Parent()) {
		for _, b := range f.Blocks {
			for _, in := range b.Instrs {
				if st, ok := in.(*ssa.Store); ok && cellAddr(st.Addr) == cell {
					out = append(out, st)
				}
			}
		}
	}
	p.cellStores[cell] = out
	return out
}

// cellEscapesAsAddr reports whether the address of the alloc is used other than as load/store address or closure
// binding (e.g. passed to a function), in which case single-store reasoning is unsound.
func cellEscapes(al *ssa.Alloc) bool {
	var visit func(v ssa.Value, owner *ssa.Function) bool
	visit = func(v ssa.Value, owner *ssa.Function) bool {
		refs := v.Referrers()
		if refs == nil {
			return false
		}
		for _, r := range *refs {
			switch r := r.(type) {
			case *ssa.Store:
				if r.Val == v {
					return true
				}
			case *ssa.UnOp:
				if r.Op != token.MUL {
					return true
				}
			case *ssa.MakeClosure:
				fn := r.Fn.(*ssa.Function)
				for i, b := range r.Bindings {
					if b == v {
						if visit(fn.FreeVars[i], fn) {
							return true
						}
					}
				}
			case *ssa.DebugRef:
			default:
				return true
			}
		}
		return false
	}
	return visit(al, al.Parent())
}

// origin strips value-preserving wrappers and resolves loads of single-assignment local cells (parameters and
// variables captured by closures are spilled to such cells by go/ssa) to the value stored.
func (p *Prog) origin(v ssa.Value) ssa.Value {
	for i := 0; i < 50; i++ {
		switch x := v.(type) {
		case *ssa.ChangeType:
			v = x.X
			continue
		case *ssa.UnOp:
			if x.Op == token.MUL {
				c := cellAddr(x.X)
				if al, ok := c.(*ssa.Alloc); ok && !cellEscapes(al) {
					st := p.storesToCell(al)
					if len(st) == 1 {
						v = st[0].Val
						continue
					}
					// result cells of functions with defer: `*t0 = v; rundefers; t = *t0; return t`. The cell is only
					// stored/loaded by this function (no closure captures it), so the nearest preceding store in the
					// same block is the value loaded.
					if al.Parent() == x.Parent() && !capturedByClosure(al) {
						if sv := precedingStoreInBlock(x, al); sv != nil {
							v = sv
							continue
						}
					}
				}
			}
		case *ssa.FreeVar:
			r := resolveFreeVar(x)
			if r != x {
				v = r
				continue
			}
		case *ssa.Phi:
			var o ssa.Value
			same := true
			for _, e := range x.Edges {
				eo := e
				if eo == x {
					continue
				}
				if o == nil {
					o = eo
				} else if o != eo {
					same = false
				}
			}
			if same && o != nil {
				v = o
				continue
			}
		}
		return v
	}
	return v
}

// originSlice is origin() that additionally sees through full-range re-slices b[:] and b[:len(b)].
func (p *Prog) originFullSlice(v ssa.Value) ssa.Value {
	for i := 0; i < 20; i++ {
		v = p.origin(v)
		if sl, ok := v.(*ssa.Slice); ok && sl.Max == nil {
			lowOK := sl.Low == nil || isConstInt(sl.Low, 0)
			highOK := sl.High == nil
			if !highOK {
				if c, ok := p.origin(sl.High).(*ssa.Call); ok {
					if b, ok := c.Call.Value.(*ssa.Builtin); ok && b.Name() == "len" && p.origin(c.Call.Args[0]) == p.origin(sl.X) {
						highOK = true
					}
				}
			}
			if lowOK && highOK {
				if _, isSlice := sl.X.Type().Underlying().(*types.Slice); isSlice {
					v = sl.X
					continue
				}
			}
		}
		return v
	}
	return v
}

func isConstInt(v ssa.Value, n int64) bool {
	c, ok := v.(*ssa.Const)
	if !ok || c.Value == nil || c.Value.Kind() != constant.Int {
		return false
	}
	i, ok := constant.Int64Val(c.Value)
	return ok && i == n
}

func constInt(v ssa.Value) (int64, bool) {
	c, ok := v.(*ssa.Const)
	if !ok || c.Value == nil || c.Value.Kind() != constant.Int {
		return 0, false
	}
	return constant.Int64Val(c.Value)
}

func isNilConst(v ssa.Value) bool {
	c, ok := v.(*ssa.Const)
	return ok && c.Value == nil
}

// calleeName returns "pkgpath.Func" or "pkgpath.(T).Method" / "(*T)" for a static callee or interface method.
func calleeName(c *ssa.CallCommon) string {
	if c.IsInvoke() {
		recv := c.Value.Type()
		return "invoke " + types.TypeString(recv, nil) + "." + c.Method.Name()
	}
	if f := c.StaticCallee(); f != nil {
		return fullFuncName(f)
	}
	if b, ok := c.Value.(*ssa.Builtin); ok {
		return "builtin " + b.Name()
	}
	return ""
}

func fullFuncName(f *ssa.Function) string {
	if f.Object() != nil {
		if fo, ok := f.Object().(*types.Func); ok {
			return fo.FullName()
		}
	}
	if o := f.Origin(); o != nil && o.Object() != nil {
		if fo, ok := o.Object().(*types.Func); ok {
			return fo.FullName()
		}
	}
	return f.String()
}

// isCallTo reports whether the call's static callee has the given types.Func full name, e.g. "(*sync.Mutex).Lock".
func isCallTo(c *ssa.CallCommon, names ...string) bool {
	n := calleeName(c)
	for _, w := range names {
		if n == w {
			return true
		}
	}
	return false
}

func builtinName(c *ssa.CallCommon) string {
	if b, ok := c.Value.(*ssa.Builtin); ok {
		return b.Name()
	}
	return ""
}

// deref returns the element type of a pointer type (or t itself).
func deref(t types.Type) types.Type {
	if p, ok := t.Underlying().(*types.Pointer); ok {
		return p.Elem()
	}
	return t
}

// namedOf returns the *types.Named of t or *t.
func namedOf(t types.Type) *types.Named {
	t = types.Unalias(t)
	if p, ok := t.(*types.Pointer); ok {
		t = types.Unalias(p.Elem())
	}
	n, _ := t.(*types.Named)
	return n
}

func typeKey(t types.Type) string {
	n := namedOf(t)
	if n == nil || n.Obj() == nil || n.Obj().Pkg() == nil {
		return types.TypeString(t, nil)
	}
	return relPkg(n.Obj().Pkg().Path()) + "." + cTypeName(n.Obj())
}

// fieldOf returns the struct field selected by a FieldAddr/Field instruction.
func fieldOfAddr(fa *ssa.FieldAddr) *types.Var {
	st, ok := deref(fa.X.Type()).Underlying().(*types.Struct)
	if !ok {
		return nil
	}
	return st.Field(fa.Field)
}

func fieldOfVal(f *ssa.Field) *types.Var {
	st, ok := f.X.Type().Underlying().(*types.Struct)
	if !ok {
		return nil
	}
	return st.Field(f.Field)
}

// fieldKey names a field "pkg.Type.field".
func fieldKeyAddr(fa *ssa.FieldAddr) string {
	fv := fieldOfAddr(fa)
	if fv == nil {
		return "?"
	}
	return typeKey(fa.X.Type()) + "." + cFieldName(fv)
}

// instrsOf iterates all instructions of a function.
func instrsOf(f *ssa.Function, fn func(ssa.Instruction)) {
	for _, b := range f.Blocks {
		for _, in := range b.Instrs {
			fn(in)
		}
	}
}

// reachableBlocks returns the set of blocks reachable from b (excluding b itself unless on a cycle).
func reachableFrom(b *ssa.BasicBlock) map[*ssa.BasicBlock]bool {
	seen := map[*ssa.BasicBlock]bool{}
	var stack []*ssa.BasicBlock
	stack = append(stack, b.Succs...)
	for len(stack) > 0 {
		x := stack[len(stack)-1]
		stack = stack[:len(stack)-1]
		if seen[x] {
			continue
		}
		seen[x] = true
		stack = append(stack, x.Succs...)
	}
	return seen
}

// instrIndex returns the index of in within its block.
func instrIndex(in ssa.Instruction) int {
	for i, x := range in.Block().Instrs {
		if x == in {
			return i
		}
	}
	return -1
}

// instrDominates reports whether instruction a is executed before b on every path to b.
func instrDominates(a, b ssa.Instruction) bool {
	if a.Block() == b.Block() {
		return instrIndex(a) < instrIndex(b)
	}
	return a.Block().Dominates(b.Block())
}

// canReach reports whether there is a path from instruction a to instruction b (a executes, later b executes).
func canReach(a, b ssa.Instruction) bool {
	if a.Block() == b.Block() && instrIndex(a) < instrIndex(b) {
		return true
	}
	return reachableFrom(a.Block())[b.Block()]
}

// postDominators computes the post-dominator sets of a function. Exit blocks are those ending in Return or Panic
// (or having no successors). Returns pdom[b] = set of blocks that post-dominate b (including b).
func postDominators(f *ssa.Function) map[*ssa.BasicBlock]map[*ssa.BasicBlock]bool {
	n := len(f.Blocks)
	all := map[*ssa.BasicBlock]bool{}
	for _, b := range f.Blocks {
		all[b] = true
	}
	pdom := map[*ssa.BasicBlock]map[*ssa.BasicBlock]bool{}
	for _, b := range f.Blocks {
		if len(b.Succs) == 0 {
			pdom[b] = map[*ssa.BasicBlock]bool{b: true}
		} else {
			m := make(map[*ssa.BasicBlock]bool, n)
			for k := range all {
				m[k] = true
			}
			pdom[b] = m
		}
	}
	changed := true
	for changed {
		changed = false
		for i := n - 1; i >= 0; i-- {
			b := f.Blocks[i]
			if len(b.Succs) == 0 {
				continue
			}
			var nw map[*ssa.BasicBlock]bool
			for _, s := range b.Succs {
				if nw == nil {
					nw = map[*ssa.BasicBlock]bool{}
					for k := range pdom[s] {
						nw[k] = true
					}
				} else {
					for k := range nw {
						if !pdom[s][k] {
							delete(nw, k)
						}
					}
				}
			}
			nw[b] = true
			if len(nw) != len(pdom[b]) {
				pdom[b] = nw
				changed = true
			}
		}
	}
	return pdom
}

// controlDeps returns, for block b, the set of If-terminated blocks c such that b is control dependent on c,
// i.e. c has a successor s with b post-dominating s (or b == s), and b does not strictly post-dominate c.
func controlDeps(f *ssa.Function, pdom map[*ssa.BasicBlock]map[*ssa.BasicBlock]bool, b *ssa.BasicBlock) []*ssa.BasicBlock {
	var out []*ssa.BasicBlock
	for _, c := range f.Blocks {
		if len(c.Succs) < 2 {
			continue
		}
		if c != b && pdom[c][b] {
			continue
		}
		for _, s := range c.Succs {
			if pdom[s][b] {
				out = append(out, c)
				break
			}
		}
	}
	return out
}

// transitiveControlDeps returns the closure of controlDeps.
func transitiveControlDeps(f *ssa.Function, pdom map[*ssa.BasicBlock]map[*ssa.BasicBlock]bool, b *ssa.BasicBlock) map[*ssa.BasicBlock]bool {
	seen := map[*ssa.BasicBlock]bool{}
	work := []*ssa.BasicBlock{b}
	for len(work) > 0 {
		x := work[len(work)-1]
		work = work[:len(work)-1]
		for _, c := range controlDeps(f, pdom, x) {
			if !seen[c] {
				seen[c] = true
				work = append(work, c)
			}
		}
	}
	return seen
}

// ifCond returns the condition of the If terminating block b, or nil.
func ifCond(b *ssa.BasicBlock) ssa.Value {
	if len(b.Instrs) == 0 {
		return nil
	}
	if i, ok := b.Instrs[len(b.Instrs)-1].(*ssa.If); ok {
		return i.Cond
	}
	return nil
}

// edgeFacts: facts implied on entry to block b by dominating conditional branches. A fact is (cond value, truth).
type condFact struct {
	cond  ssa.Value
	truth bool
}

// dominatingFacts collects (cond, truth) for every If in a dominator d of b such that exactly one successor of d
// dominates b (or is b) and that successor has d as its only predecessor → the branch is implied at b.
func dominatingFacts(b *ssa.BasicBlock) []condFact {
	var out []condFact
	for d := b.Idom(); d != nil; d = d.Idom() {
		c := ifCond(d)
		if c == nil {
			continue
		}
		t, f := d.Succs[0], d.Succs[1]
		td := (t == b || t.Dominates(b)) && len(t.Preds) == 1
		fd := (f == b || f.Dominates(b)) && len(f.Preds) == 1
		if td && !fd {
			out = append(out, condFact{c, true})
		} else if fd && !td {
			out = append(out, condFact{c, false})
		}
	}
	return out
}

// dominatingFactsInstr is dominatingFacts for the block of an instruction.
func dominatingFactsInstr(in ssa.Instruction) []condFact { return dominatingFacts(in.Block()) }

// expandFacts decomposes short-circuit && / || structure is already in the CFG; here we only normalise negation.
func normFact(f condFact) condFact {
	for {
		if u, ok := f.cond.(*ssa.UnOp); ok && u.Op == token.NOT {
			f = condFact{u.X, !f.truth}
			continue
		}
		return f
	}
}

// nonNilAt reports whether value v is known non-nil at block b through a dominating test v != nil / v == nil.
func (p *Prog) nonNilAt(v ssa.Value, b *ssa.BasicBlock) bool {
	return p.nilnessAt(v, b) == 1
}

// nilnessAt: 1 non-nil, -1 nil, 0 unknown.
func (p *Prog) nilnessAt(v ssa.Value, b *ssa.BasicBlock) int {
	if r := p.nilnessAtDirect(v, b); r != 0 {
		return r
	}
	// v was merged with later errors into one variable (`if err == nil { …, err = g() }; if err != nil { return }`): where
	// the merged value φ is known nil, v is nil too, provided φ carries v on every edge on which v may be non-nil
	vo := p.origin(v)
	for _, f := range dominatingFacts(b) {
		f = normFact(f)
		bo, ok := f.cond.(*ssa.BinOp)
		if !ok || (bo.Op != token.NEQ && bo.Op != token.EQL) {
			continue
		}
		var other ssa.Value
		if isNilConst(bo.Y) {
			other = bo.X
		} else if isNilConst(bo.X) {
			other = bo.Y
		} else {
			continue
		}
		phi, ok := p.origin(other).(*ssa.Phi)
		if !ok || (bo.Op == token.NEQ) == f.truth {
			continue // not a φ, or the fact says φ != nil
		}
		// φ == nil here
		carries, okAll := false, true
		for i, e := range phi.Edges {
			pr := phi.Block().Preds[i]
			if p.origin(e) == vo {
				carries = true // on this edge φ = v, so v == nil if the edge was taken
				continue
			}
			// another value flows in on this edge: v must be known nil there
			known := p.nilnessAtDirect(v, pr)
			if c := ifCond(pr); c != nil && known == 0 && pr.Succs[0] != pr.Succs[1] {
				ef := normFact(condFact{c, pr.Succs[0] == phi.Block()})
				if eb, ok := ef.cond.(*ssa.BinOp); ok && (eb.Op == token.NEQ || eb.Op == token.EQL) {
					var o2 ssa.Value
					if isNilConst(eb.Y) {
						o2 = eb.X
					} else if isNilConst(eb.X) {
						o2 = eb.Y
					}
					if o2 != nil && p.origin(o2) == vo && (eb.Op == token.EQL) == ef.truth {
						known = -1
					}
				}
			}
			if known != -1 {
				okAll = false
			}
		}
		if carries && okAll {
			return -1
		}
	}
	return 0
}

func (p *Prog) nilnessAtDirect(v ssa.Value, b *ssa.BasicBlock) int {
	vo := p.origin(v)
	for _, f := range dominatingFacts(b) {
		f = normFact(f)
		bo, ok := f.cond.(*ssa.BinOp)
		if !ok || (bo.Op != token.NEQ && bo.Op != token.EQL) {
			continue
		}
		var other ssa.Value
		if isNilConst(bo.Y) {
			other = bo.X
		} else if isNilConst(bo.X) {
			other = bo.Y
		} else {
			continue
		}
		if p.origin(other) != vo {
			continue
		}
		neq := bo.Op == token.NEQ
		if neq == f.truth {
			return 1
		}
		return -1
	}
	return 0
}

func sortedKeys[M ~map[string]V, V any](m M) []string {
	ks := make([]string, 0, len(m))
	for k := range m {
		ks = append(ks, k)
	}
	sort.Strings(ks)
	return ks
}

func isErrorType(t types.Type) bool {
	return types.Identical(t, types.Universe.Lookup("error").Type())
}

// valueString renders a value briefly for witnesses.
func valueString(v ssa.Value) string {
	if v == nil {
		return "<nil>"
	}
	s := v.String()
	if len(s) > 90 {
		s = s[:90] + "…"
	}
	return strings.ReplaceAll(s, modPath+"/", "")
}

// usesValue reports whether instruction in has v among its operands.
func usesValue(in ssa.Instruction, v ssa.Value) bool {
	for _, op := range in.Operands(nil) {
		if *op == v {
			return true
		}
	}
	return false
}

// implementsIface reports whether *T or T implements iface.
func implementsIface(t types.Type, iface *types.Interface) bool {
	if iface == nil {
		return false
	}
	return types.Implements(t, iface) || types.Implements(types.NewPointer(t), iface)
}

func capturedByClosure(al *ssa.Alloc) bool {
	for _, r := range *al.Referrers() {
		if _, ok := r.(*ssa.MakeClosure); ok {
			return true
		}
	}
	return false
}

// precedingStoreInBlock finds the last store to cell before load in the same block.
func precedingStoreInBlock(load *ssa.UnOp, cell *ssa.Alloc) ssa.Value {
	b := load.Block()
	idx := instrIndex(load)
	for i := idx - 1; i >= 0; i-- {
		if st, ok := b.Instrs[i].(*ssa.Store); ok && st.Addr == ssa.Value(cell) {
			return st.Val
		}
	}
	return nil
}
