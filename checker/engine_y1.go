package main

// Y1 — Unbind forgets the stream whatever the StreamInfo looks like now. BindLocalStream/BindRemoteStream decide from
// the StreamInfo (feedback types, header extensions, a user filter) whether the interceptor takes the stream on, and
// file per-stream state under its SSRC. Unbind is told the SSRC of a stream that is going away; whether the stream
// was taken on is a fact about the registry, not about what the StreamInfo or a filter says *now* (the caller may pass
// a bare StreamInfo{SSRC: …}; a stateful filter may have changed its mind). An Unbind that returns early on such a
// condition leaves the stream's ring of retained packets, its writer and its goroutines registered until Close.
//
// In every Unbind*Stream method that removes something from a registry of the interceptor (delete on a map field,
// sync.Map Delete/LoadAndDelete): every return that can be reached without passing a removal lies behind a test of what
// a lookup in that registry gave (not found / nil), and not merely behind a condition computed from the StreamInfo.

import (
	"fmt"
	"go/token"
	"sort"
	"strings"

	"golang.org/x/tools/go/ssa"
)

func init() {
	registerEngine("Y1", []string{"Y1"}, runEngineY1)
}

func runEngineY1(p *Prog, o *obls) {
	n := 0
	for _, fn := range p.Funcs {
		if fn.Blocks == nil || fn.Parent() != nil || fn.Signature.Recv() == nil || !p.InUniverse(fn) {
			continue
		}
		if fn.Name() != "UnbindLocalStream" && fn.Name() != "UnbindRemoteStream" {
			continue
		}
		recv := ssa.Value(fn.Params[0])
		isRegistryAddr := func(a ssa.Value) bool {
			fa, ok := a.(*ssa.FieldAddr)
			return ok && p.origin(fa.X) == recv
		}
		isRemoval := func(in ssa.Instruction) bool {
			ci, ok := in.(ssa.CallInstruction)
			if !ok {
				return false
			}
			cc := ci.Common()
			if builtinName(cc) == "delete" && len(cc.Args) > 0 {
				if u, ok := p.origin(cc.Args[0]).(*ssa.UnOp); ok && u.Op == token.MUL && isRegistryAddr(u.X) {
					return true
				}
			}
			if op, fa := syncMapOp(cc); fa != nil && isRegistryAddr(fa) && (op == "Delete" || op == "LoadAndDelete" || op == "CompareAndDelete" || op == "Clear") {
				return true
			}
			// a helper of the same type that removes (depth 1)
			if sc := cc.StaticCallee(); sc != nil && p.InUniverse(sc) && sc.Blocks != nil && sc.Signature.Recv() != nil && len(cc.Args) > 0 && p.origin(cc.Args[0]) == recv {
				found := false
				instrsOf(sc, func(in2 ssa.Instruction) {
					c2, ok := in2.(ssa.CallInstruction)
					if !ok {
						return
					}
					if builtinName(c2.Common()) == "delete" {
						found = true
					}
					if op, fa := syncMapOp(c2.Common()); fa != nil && (op == "Delete" || op == "LoadAndDelete") {
						found = true
					}
				})
				return found
			}
			return false
		}
		var removals []ssa.Instruction
		instrsOf(fn, func(in ssa.Instruction) {
			if isRemoval(in) {
				removals = append(removals, in)
			}
		})
		if len(removals) == 0 {
			continue
		}
		n++
		entry := fn.Blocks[0].Instrs[0]
		var bad []string
		for _, b := range fn.Blocks {
			ret, ok := b.Instrs[len(b.Instrs)-1].(*ssa.Return)
			if !ok || b == fn.Recover {
				continue
			}
			if !isRemoval(entry) && !pathAvoiding(entry, ret, isRemoval) {
				continue
			}
			// reached without a removal: justified by what a registry lookup gave
			justified := false
			for _, f := range dominatingFactsInstr(ret) {
				if p.backwardReaches(f.cond, func(v ssa.Value) bool {
					switch x := v.(type) {
					case *ssa.Lookup:
						if u, ok := p.origin(x.X).(*ssa.UnOp); ok && u.Op == token.MUL && isRegistryAddr(u.X) {
							return true
						}
					case *ssa.Call:
						if op, fa := syncMapOp(&x.Call); fa != nil && isRegistryAddr(fa) && (op == "Load" || op == "LoadAndDelete" || op == "LoadOrStore") {
							return true
						}
					}
					return false
				}) {
					justified = true
				}
			}
			if !justified {
				bad = append(bad, p.instrPos(ret))
			}
		}
		key := funcKey(fn) + ":forgets"
		if len(bad) > 0 {
			sort.Strings(bad)
			o.bad("Y1", key, bad[0], fmt.Sprintf("the return at %s can be reached without removing the stream from the registry, and not because a lookup did not find it: whatever the condition (the StreamInfo as it looks now, a filter), the stream's state stays registered until Close", strings.Join(dedupe(bad), ", ")))
		} else {
			o.ok("Y1", key, p.Pos(fn.Pos()), fmt.Sprintf("%d removal(s); every return that skips them lies behind a not-found test of the registry", len(removals)))
		}
	}
	o.ok("Y1", "inspected", "-", fmt.Sprintf("%d Unbind*Stream method(s) that remove from a registry", n))
}
