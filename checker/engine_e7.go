package main

// E7 — an index over a list has one entry per element. The LRU histories keep their records in a container/list and
// find them through a map from key to *list.Element; what bounds the history is the eviction that removes the oldest
// element *and* its map entry. The two stay the same size only while every element pushed into the list under a key
// is the only one for that key: `m[k] = l.PushFront(x)` executed for a key that is already present overwrites the map
// entry and leaves the previous element linked — the list grows by one per repeated key (a retransmitted packet)
// without bound, and when the orphan is finally evicted its key deletes the map entry of the *live* record.
//
// For every map assignment whose value is the element a container/list insertion just returned: the assignment is
// dominated by the failure branch of a comma-ok lookup of the same map with the same key (the key is known absent),
// or by a Remove of an element looked up from that map (the previous record was unlinked first).

import (
	"strings"
	"fmt"

	"golang.org/x/tools/go/ssa"
)

func init() {
	registerEngine("E7", []string{"E7"}, runEngineE7)
}

func runEngineE7(p *Prog, o *obls) {
	n := 0
	for _, fn := range p.Funcs {
		if fn.Blocks == nil || !p.InUniverse(fn) {
			continue
		}
		k := 0
		instrsOf(fn, func(in ssa.Instruction) {
			mu, ok := in.(*ssa.MapUpdate)
			if !ok {
				return
			}
			call, ok := p.origin(mu.Value).(*ssa.Call)
			if !ok {
				return
			}
			sc := call.Call.StaticCallee()
			if sc == nil || sc.Pkg == nil || sc.Pkg.Pkg.Path() != "container/list" {
				return
			}
			switch sc.Name() {
			case "PushFront", "PushBack", "InsertBefore", "InsertAfter":
			default:
				return
			}
			n++
			k++
			key := fmt.Sprintf("%s:list-index", funcKey(fn))
			if k > 1 {
				key = fmt.Sprintf("%s#%d", key, k)
			}
			mapKey := p.pureKey(mu.Map)
			idxKey := p.pureKey(mu.Key)
			sameKey := func(v ssa.Value) bool {
				return v == mu.Key || p.origin(v) == p.origin(mu.Key) || idxKey != "" && p.pureKey(v) == idxKey
			}
			absent := false
			for _, f := range dominatingFactsInstr(call) {
				f = normFact(f)
				ex, ok := f.cond.(*ssa.Extract)
				if !ok || ex.Index != 1 || f.truth {
					continue
				}
				lk, ok := ex.Tuple.(*ssa.Lookup)
				if !ok || !lk.CommaOk || p.pureKey(lk.X) != mapKey || !sameKey(lk.Index) {
					continue
				}
				absent = true
			}
			// or the previous element was unlinked first: a dominating list.Remove of a value looked up from the map
			if !absent {
				for _, b := range fn.Blocks {
					for _, in2 := range b.Instrs {
						c2, ok := in2.(*ssa.Call)
						if !ok || c2.Call.StaticCallee() == nil || c2.Call.StaticCallee().Name() != "Remove" || c2.Call.StaticCallee().Pkg == nil || c2.Call.StaticCallee().Pkg.Pkg.Path() != "container/list" {
							continue
						}
						if !(b == call.Block() && instrIndex(c2) < instrIndex(call) || b != call.Block() && b.Dominates(call.Block())) {
							continue
						}
						if len(c2.Call.Args) == 2 && p.backwardReaches(c2.Call.Args[1], func(v ssa.Value) bool {
							lk, ok := v.(*ssa.Lookup)
							return ok && p.pureKey(lk.X) == mapKey && sameKey(lk.Index)
						}) {
							absent = true
						}
					}
				}
			}
			if absent {
				o.ok("E7", key, p.instrPos(mu), "the element is pushed only where the key is known absent from the index (or its previous element was unlinked first)")
			} else {
				o.bad("E7", key, p.instrPos(mu), fmt.Sprintf("the element pushed into the list at %s is filed in %s under a key that may already be present: the entry is overwritten and the previous element stays linked — the list grows by one for every repeated key, and the eviction of the orphan later deletes the live record's entry", p.instrPos(call), shortExpr(p, mu.Map)))
			}
		})
	}
	o.ok("E7", "inspected", "-", fmt.Sprintf("%d list insertion(s) filed in an index map", n))
	e7OrderIsSendOrder(p, o)
	e7RecycledElement(p, o)
}

// E7 (a recycled element leaves its old key behind) — an element taken from the list by position (Back, Front, Next,
// Prev) is still filed in the index under the key of the record it holds. Rewriting its Value and filing it under a
// new key without a delete from that index first leaves the old key pointing at the new record: a lookup of the
// old key (feedback about a packet that was evicted) answers with a packet that was never asked about, and the
// index grows by one key per recycled element.
func e7RecycledElement(p *Prog, o *obls) {
	n := 0
	var leaves func(v ssa.Value, seen map[ssa.Value]bool, out *[]ssa.Value)
	leaves = func(v ssa.Value, seen map[ssa.Value]bool, out *[]ssa.Value) {
		v = p.origin(v)
		if seen[v] {
			return
		}
		seen[v] = true
		if ph, ok := v.(*ssa.Phi); ok {
			for _, e := range ph.Edges {
				leaves(e, seen, out)
			}
			return
		}
		*out = append(*out, v)
	}
	byPosition := func(v ssa.Value) bool {
		c, ok := v.(*ssa.Call)
		if !ok {
			return false
		}
		sc := c.Call.StaticCallee()
		if sc == nil || sc.Pkg == nil || sc.Pkg.Pkg.Path() != "container/list" {
			return false
		}
		switch sc.Name() {
		case "Back", "Front", "Next", "Prev":
			return true
		}
		return false
	}
	for _, fn := range p.Funcs {
		if fn.Blocks == nil || !p.InUniverse(fn) {
			continue
		}
		instrsOf(fn, func(in ssa.Instruction) {
			st, ok := in.(*ssa.Store)
			if !ok {
				return
			}
			fa, ok := st.Addr.(*ssa.FieldAddr)
			if !ok || !strings.HasSuffix(typeKey(deref(fa.X.Type())), "container/list.Element") {
				return
			}
			if fv := fieldOfAddr(fa); fv == nil || fv.Name() != "Value" {
				return
			}
			var ls []ssa.Value
			leaves(fa.X, map[ssa.Value]bool{}, &ls)
			var elem ssa.Value
			for _, l := range ls {
				if byPosition(l) {
					elem = l
				}
			}
			if elem == nil {
				return
			}
			// is the same element filed in a map by this function?
			var filed *ssa.MapUpdate
			instrsOf(fn, func(in2 ssa.Instruction) {
				mu, ok := in2.(*ssa.MapUpdate)
				if !ok {
					return
				}
				var ml []ssa.Value
				leaves(mu.Value, map[ssa.Value]bool{}, &ml)
				for _, l := range ml {
					if l == elem {
						filed = mu
					}
				}
			})
			if filed == nil {
				return
			}
			n++
			key := funcKey(fn) + ":list-recycle"
			mapKey := p.pureKey(filed.Map)
			deleted := false
			instrsOf(fn, func(in2 ssa.Instruction) {
				c, ok := in2.(*ssa.Call)
				if !ok || builtinName(&c.Call) != "delete" || len(c.Call.Args) < 1 {
					return
				}
				if p.pureKey(c.Call.Args[0]) == mapKey && instrDominates(c, st) {
					deleted = true
				}
			})
			if deleted {
				o.ok("E7", key, p.instrPos(st), "the recycled element's old key is deleted from the index before its Value is rewritten")
			} else {
				o.bad("E7", key, p.instrPos(st), fmt.Sprintf("the element taken from the list by position is given a new Value and filed under a new key at %s without a delete from the same index first: its old key stays behind and now finds the new record", p.instrPos(filed)))
			}
		})
	}
	o.ok("E7", "list-recycle-inspected", "-", fmt.Sprintf("%d recycled element(s) filed anew", n))
}

// E7 (the list's order is the order of insertion) — the eviction list of a history is cut at its back, so what is
// dropped first is what was filed first: "the last N sent". An element is moved to the front only where it is filed
// anew (the same function rewrites the element's Value: a packet sent again under the same key). A lookup that moves
// what it found to the front turns the history into a cache of what was *asked about* last: packets that are still
// in flight are evicted ahead of packets that were already acknowledged.
func e7OrderIsSendOrder(p *Prog, o *obls) {
	n := 0
	for _, fn := range p.Funcs {
		if fn.Blocks == nil || !p.InUniverse(fn) {
			continue
		}
		var moves []*ssa.Call
		rewrites := false
		instrsOf(fn, func(in ssa.Instruction) {
			switch x := in.(type) {
			case *ssa.Call:
				sc := x.Call.StaticCallee()
				if sc != nil && sc.Pkg != nil && sc.Pkg.Pkg.Path() == "container/list" && (sc.Name() == "MoveToFront" || sc.Name() == "MoveToBack") {
					moves = append(moves, x)
				}
			case *ssa.Store:
				if fa, ok := x.Addr.(*ssa.FieldAddr); ok && strings.HasSuffix(typeKey(deref(fa.X.Type())), "container/list.Element") {
					if fv := fieldOfAddr(fa); fv != nil && fv.Name() == "Value" {
						rewrites = true
					}
				}
			}
		})
		if len(moves) == 0 {
			continue
		}
		n++
		key := funcKey(fn) + ":list-order"
		if rewrites {
			o.ok("E7", key, p.instrPos(moves[0]), "an element is moved only where it is filed anew (its Value is rewritten in the same function)")
		} else {
			o.bad("E7", key, p.instrPos(moves[0]), fmt.Sprintf("the element is moved within the eviction list at %s by a function that does not file it anew: the list is no longer in the order of insertion, and the cut at its back drops recent entries ahead of old ones that were merely looked up", p.instrPos(moves[0])))
		}
	}
	o.ok("E7", "list-order-inspected", "-", fmt.Sprintf("%d function(s) that reorder an eviction list", n))
}
