package main

import (
	"fmt"
	"go/token"
	"go/types"
	"sort"
	"strings"

	"golang.org/x/tools/go/ssa"
)

// Y3 — Unbind tears down what Close tears down. Where an interceptor's Unbind*Stream and its Close reset the same
// piece of per-stream state (both clear the jitter buffer), they are two entrances to one teardown: every container
// field of the interceptor that Close empties — clear(f), f = nil / a fresh value, f.Clear() — is emptied by that
// Unbind too (directly or one helper down). Lifecycle fields (channels, flags, sync types) are not state of the
// stream and are left out. A side table filled on the packet path and emptied only in Close keeps every packet that
// was buffered at Unbind reachable for as long as the interceptor lives.
func init() {
	registerEngine("Y3", []string{"Y3"}, runEngineY3)
}

func y3Resets(p *Prog, fn *ssa.Function, depth int) map[*types.Var]string {
	out := map[*types.Var]string{}
	if fn == nil || fn.Blocks == nil || len(fn.Params) == 0 {
		return out
	}
	recv := ssa.Value(fn.Params[0])
	fieldOf := func(v ssa.Value) (*types.Var, string) {
		u, ok := p.origin(v).(*ssa.UnOp)
		if !ok || u.Op != token.MUL {
			return nil, ""
		}
		fa, ok := u.X.(*ssa.FieldAddr)
		if !ok || p.origin(fa.X) != recv {
			return nil, ""
		}
		return fieldOfAddr(fa), fieldKeyAddr(fa)
	}
	instrsOf(fn, func(in ssa.Instruction) {
		switch x := in.(type) {
		case *ssa.Store:
			fa, ok := x.Addr.(*ssa.FieldAddr)
			if !ok || p.origin(fa.X) != recv {
				return
			}
			switch p.origin(x.Val).(type) {
			case *ssa.Const, *ssa.MakeMap, *ssa.MakeSlice:
				if fv := fieldOfAddr(fa); fv != nil {
					out[fv] = fieldKeyAddr(fa)
				}
			}
		case *ssa.Call:
			if b, ok := x.Call.Value.(*ssa.Builtin); ok && b.Name() == "clear" && len(x.Call.Args) == 1 {
				if fv, k := fieldOf(x.Call.Args[0]); fv != nil {
					out[fv] = k
				}
				return
			}
			sc := x.Call.StaticCallee()
			if sc == nil || len(x.Call.Args) == 0 {
				return
			}
			if sc.Name() == "Clear" || sc.Name() == "Reset" {
				if fv, k := fieldOf(x.Call.Args[0]); fv != nil {
					out[fv] = k
				}
				return
			}
			if depth < 1 && p.InUniverse(sc) && sc.Signature.Recv() != nil && p.origin(x.Call.Args[0]) == recv {
				for fv, k := range y3Resets(p, sc, depth+1) {
					out[fv] = k
				}
			}
		}
	})
	return out
}

func runEngineY3(p *Prog, o *obls) {
	n := 0
	byType := map[string]map[string]*ssa.Function{}
	for _, fn := range p.Funcs {
		if fn.Blocks == nil || !p.InUniverse(fn) || fn.Signature.Recv() == nil || fn.Parent() != nil {
			continue
		}
		switch fn.Name() {
		case "Close", "UnbindLocalStream", "UnbindRemoteStream":
			tk := typeKey(deref(fn.Signature.Recv().Type()))
			if byType[tk] == nil {
				byType[tk] = map[string]*ssa.Function{}
			}
			byType[tk][fn.Name()] = fn
		}
	}
	var tks []string
	for tk := range byType {
		tks = append(tks, tk)
	}
	sort.Strings(tks)
	for _, tk := range tks {
		ms := byType[tk]
		cl := ms["Close"]
		if cl == nil {
			continue
		}
		cr := y3Resets(p, cl, 0)
		for _, un := range []string{"UnbindLocalStream", "UnbindRemoteStream"} {
			uf := ms[un]
			if uf == nil {
				continue
			}
			ur := y3Resets(p, uf, 0)
			shared := false
			for fv := range ur {
				if _, ok := cr[fv]; ok {
					shared = true
				}
			}
			if !shared {
				continue
			}
			n++
			var missing []string
			for fv, k := range cr {
				if _, ok := ur[fv]; ok {
					continue
				}
				switch fv.Type().Underlying().(type) {
				case *types.Map, *types.Slice, *types.Pointer:
				default:
					continue
				}
				if isSyncType(fv.Type()) {
					continue
				}
				missing = append(missing, fieldName(k))
			}
			key := funcKey(uf) + ":tears-down"
			if len(missing) > 0 {
				sort.Strings(missing)
				o.bad("Y3", key, p.Pos(uf.Pos()), fmt.Sprintf("%s and Close reset the same per-stream state, but Close also empties %s and %s does not: what those held for the stream stays reachable until the interceptor is closed", un, strings.Join(missing, ", "), un))
			} else {
				o.ok("Y3", key, p.Pos(uf.Pos()), fmt.Sprintf("every container that Close empties is emptied by %s too", un))
			}
		}
	}
	o.ok("Y3", "inspected", "-", fmt.Sprintf("%d Unbind method(s) that share teardown with their type's Close", n))
}
