package main

// G4 — a report only lists what was found. A result slice that is allocated with one slot per input position
// (`make([]Ack, n)`) and whose slots are assigned only where a look-up succeeded (`if ack, ok := history.get(key); ok {
// result[i] = ack }`) while the position advances regardless hands its caller a zero-valued element for every
// position that was not found: an acknowledgement with sequence number 0, size 0 and zero departure time for every
// packet the feedback covers but the history no longer holds — "acknowledging" packets that were never sent. For
// every such slice that reaches a return: some store into its elements is not conditional on a comma-ok test, or the
// slice is cut to the number of slots filled.

import (
	"fmt"
	"go/types"

	"golang.org/x/tools/go/ssa"
)

func init() {
	registerEngine("G4", []string{"G4"}, runEngineG4)
}

func runEngineG4(p *Prog, o *obls) {
	n := 0
	for _, fn := range p.Funcs {
		k := 0
		instrsOf(fn, func(in ssa.Instruction) {
			ms, ok := in.(*ssa.MakeSlice)
			if !ok {
				return
			}
			if _, isC := ms.Len.(*ssa.Const); isC {
				return
			}
			sl, ok := ms.Type().Underlying().(*types.Slice)
			if !ok {
				return
			}
			if _, isStruct := sl.Elem().Underlying().(*types.Struct); !isStruct {
				return
			}
			// stores into elements of this slice
			var stores []*ssa.Store
			instrsOf(fn, func(in2 ssa.Instruction) {
				st, ok := in2.(*ssa.Store)
				if !ok {
					return
				}
				ia, ok := st.Addr.(*ssa.IndexAddr)
				if ok && p.origin(ia.X) == ssa.Value(ms) {
					stores = append(stores, st)
				}
			})
			if len(stores) == 0 {
				return
			}
			// returned as a whole (not re-sliced to a count)?
			returned := false
			for _, b := range fn.Blocks {
				if ret, ok := b.Instrs[len(b.Instrs)-1].(*ssa.Return); ok {
					for _, r := range ret.Results {
						if p.origin(r) == ssa.Value(ms) {
							returned = true
						}
					}
				}
			}
			if !returned {
				return
			}
			n++
			k++
			key := fmt.Sprintf("%s:found-only", funcKey(fn))
			if k > 1 {
				key = fmt.Sprintf("%s#%d", key, k)
			}
			allConditional := true
			var under string
			for _, st := range stores {
				cond := false
				for _, f := range dominatingFactsInstr(st) {
					f = normFact(f)
					ex, ok := f.cond.(*ssa.Extract)
					if !ok || !f.truth {
						continue
					}
					if bt, ok := ex.Type().Underlying().(*types.Basic); ok && bt.Kind() == types.Bool {
						// the test must be evaluated per element: inside a loop that also contains the store
						for _, body := range naturalLoops(fn) {
							if body[st.Block()] && body[ex.Block()] {
								cond = true
								under = p.instrPosV(ex)
							}
						}
					}
				}
				if !cond {
					allConditional = false
				}
			}
			if allConditional {
				o.bad("G4", key, p.instrPos(ms), fmt.Sprintf("the result allocated at %s has one slot per input position, but slots are assigned only where the look-up at %s succeeds, and the slice is returned whole: every position that was not found is reported as a zero-valued element (an acknowledgement for a packet that was never sent)", p.instrPos(ms), under))
			} else {
				o.ok("G4", key, p.instrPos(ms), "every slot of the pre-sized result is assigned unconditionally")
			}
		})
	}
	o.ok("G4", "inspected", "-", fmt.Sprintf("%d pre-sized result slice(s) of structs returned whole", n))
}
