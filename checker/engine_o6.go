package main

import (
	"fmt"
	"go/constant"
	"sort"
	"strings"

	"golang.org/x/tools/go/ssa"
)

// O6 — every sequence number a NACK names is looked at. rtcp.NackPair.Range calls its callback for each lost packet
// of the pair and stops at the first `false`. A callback in the repository that serves retransmissions returns true
// on every path: a `return false` — after a failed downstream write, after a packet that is no longer on file —
// silently drops every later sequence number of the same pair, packets that were sent and are still in the window.
func init() {
	registerEngine("O6", []string{"O6"}, runEngineO6)
}

func runEngineO6(p *Prog, o *obls) {
	n := 0
	for _, fn := range p.Funcs {
		if fn.Blocks == nil || !p.InUniverse(fn) {
			continue
		}
		instrsOf(fn, func(in ssa.Instruction) {
			ci, ok := in.(ssa.CallInstruction)
			if !ok {
				return
			}
			cc := ci.Common()
			sc := cc.StaticCallee()
			if sc == nil || len(cc.Args) < 2 {
				return
			}
			name := sc.String()
			if !strings.HasSuffix(name, "pion/rtcp.NackPair).Range") && !strings.HasSuffix(name, "fixtures/fx.o6pair).Range") {
				return
			}
			var cb *ssa.Function
			switch x := cc.Args[1].(type) {
			case *ssa.MakeClosure:
				cb, _ = x.Fn.(*ssa.Function)
			case *ssa.Function:
				cb = x
			}
			if cb == nil || cb.Blocks == nil {
				return
			}
			n++
			var bad []string
			adapter := false
			var judge func(g *ssa.Function, d int)
			judge = func(g *ssa.Function, d int) {
				for _, b := range g.Blocks {
					ret, ok := b.Instrs[len(b.Instrs)-1].(*ssa.Return)
					if !ok || len(ret.Results) != 1 {
						continue
					}
					c, isC := ret.Results[0].(*ssa.Const)
					if isC && c.Value != nil && c.Value.Kind() == constant.Bool && constant.BoolVal(c.Value) {
						continue
					}
					// an iterator adapter (`return yield(seq)`, directly or through a captured variable): whether the walk goes
					// on is the consumer's loop's decision, which is not this callback's
					if o6Yield(p, g, ret.Results[0]) {
						adapter = true
						continue
					}
					// the wrapper of a method value, a callback that delegates: what the delegate returns
					if call, isCall := ret.Results[0].(*ssa.Call); isCall && d < 2 {
						if sc2 := call.Call.StaticCallee(); sc2 != nil && sc2.Blocks != nil && p.InUniverse(sc2) {
							judge(sc2, d+1)
							continue
						}
					}
					bad = append(bad, p.instrPos(ret))
				}
			}
			judge(cb, 0)
			key := funcKey(cb) + ":every-requested"
			if len(bad) == 0 && adapter {
				o.note("O6", key, p.instrPos(in), "the callback hands each sequence number to a yield function and returns its answer (an iterator adapter): the consumer's loop decides, not judged here")
				return
			}
			if len(bad) > 0 {
				sort.Strings(bad)
				o.bad("O6", key, bad[0], fmt.Sprintf("the callback handed to NackPair.Range at %s can return something other than true (at %s): Range stops there, and the sequence numbers the pair names after that one are never looked up — packets still on file are not retransmitted", p.instrPos(in), strings.Join(dedupe(bad), ", ")))
			} else {
				o.ok("O6", key, p.instrPos(in), "the callback handed to NackPair.Range returns true on every path: every named sequence number is looked at")
			}
		})
	}
	o.ok("O6", "inspected", "-", fmt.Sprintf("%d callback(s) handed to NackPair.Range", n))
}

// o6Yield: the value is the result of calling a function value that is not a function of the program text (a parameter
// or captured variable of function type), possibly kept in a captured variable first.
func o6Yield(p *Prog, g *ssa.Function, v ssa.Value) bool {
	dyn := func(x ssa.Value) bool {
		c, ok := x.(*ssa.Call)
		if !ok || c.Call.IsInvoke() || c.Call.StaticCallee() != nil {
			return false
		}
		if _, isBuiltin := c.Call.Value.(*ssa.Builtin); isBuiltin {
			return false
		}
		return true
	}
	if dyn(v) || dyn(p.origin(v)) {
		return true
	}
	ld, ok := v.(*ssa.UnOp)
	if !ok {
		return false
	}
	// a load of a captured cell: every store into it in this callback stores such a result
	n, all := 0, true
	instrsOf(g, func(in ssa.Instruction) {
		if st, ok := in.(*ssa.Store); ok && p.pureKey(st.Addr) == p.pureKey(ld.X) {
			n++
			if !dyn(st.Val) {
				all = false
			}
		}
	})
	return n > 0 && all
}
