package main

// X1 — what an option configured stays configured. A field that a functional option assigns (`WithMinimumPacketCount(n)`
// stores n into the buffer) holds the user's choice for the life of the object. A method that later assigns that field a
// *constant* — a reset that "restores the default" — silently replaces the configuration with the default: after the
// first `Clear(true)` a buffer configured to start playback at 100 packets starts at 50, one configured for 5 waits for
// 50. For every field stored by an option closure, no function other than option closures and the code that builds the
// object stores a constant into it.

import (
	"fmt"
	"go/token"
	"go/types"
	"sort"
	"strings"

	"golang.org/x/tools/go/ssa"
)

func init() {
	registerEngine("X", []string{"X1", "X2", "X3", "X4", "X5", "X6"}, runEngineX)
}

func runEngineX(p *Prog, o *obls) {
	optFields := map[*types.Var]string{} // field -> option closure that sets it
	keyOf := map[*types.Var]string{}
	for _, fn := range p.Funcs {
		if !isOptionClosure(fn) {
			continue
		}
		instrsOf(fn, func(in ssa.Instruction) {
			st, ok := in.(*ssa.Store)
			if !ok {
				return
			}
			fa, ok := st.Addr.(*ssa.FieldAddr)
			if !ok || p.origin(addrRoot(fa)) != ssa.Value(fn.Params[0]) {
				return
			}
			if _, isConst := st.Val.(*ssa.Const); isConst {
				return // an option that switches something on with a literal configures no value a reset could lose… but see below
			}
			if fv := fieldOfAddr(fa); fv != nil {
				optFields[fv] = funcKey(fn)
				keyOf[fv] = fieldKeyAddr(fa)
			}
		})
	}
	type hit struct{ pos, fn string }
	hits := map[*types.Var][]hit{}
	for _, fn := range p.Funcs {
		if isOptionClosure(fn) {
			continue
		}
		instrsOf(fn, func(in ssa.Instruction) {
			st, ok := in.(*ssa.Store)
			if !ok {
				return
			}
			fa, ok := st.Addr.(*ssa.FieldAddr)
			if !ok {
				return
			}
			fv := fieldOfAddr(fa)
			if fv == nil || optFields[fv] == "" || freshlyBuilt(p, fa, fn) {
				return
			}
			c, isConst := st.Val.(*ssa.Const)
			if !isConst || c.Value == nil && !isNilConst(st.Val) {
				return
			}
			hits[fv] = append(hits[fv], hit{p.instrPos(st), funcKey(fn)})
		})
	}
	var fields []*types.Var
	for fv := range optFields {
		fields = append(fields, fv)
	}
	sort.Slice(fields, func(i, j int) bool { return keyOf[fields[i]] < keyOf[fields[j]] })
	for _, fv := range fields {
		key := keyOf[fv]
		if hs := hits[fv]; len(hs) > 0 {
			var w []string
			for _, h := range hs {
				w = append(w, fmt.Sprintf("%s (in %s)", h.pos, h.fn))
			}
			sort.Strings(w)
			o.bad("X1", key, strings.SplitN(w[0], " ", 2)[0], fmt.Sprintf("the field is configured by an option (%s) and later assigned a constant at %s: the user's setting is replaced by a default for the rest of the object's life", shortCallee(optFields[fv]), strings.Join(dedupe(w), ", ")))
		} else {
			o.ok("X1", key, "-", "configured by an option and never assigned a constant after construction")
		}
	}
	o.ok("X1", "inspected", "-", fmt.Sprintf("%d option-configured field(s)", len(fields)))
	x2AttrsFollowBytes(p, o)
	x3ReturnedAttrs(p, o)
	x4PerStreamConfig(p, o)
	x5CacheKeys(p, o)
	x6PacketIdentity(p, o)
}

// X2 — attributes travel with the bytes they describe. The Attributes map a reader returns is the place where inner
// interceptors cache what they parsed from the packet (Attributes.GetRTPHeader / GetRTCPPackets return the cached value
// whatever bytes they are given afterwards). A reader closure that hands its caller *other* bytes than the upstream read
// produced — a packet popped from a buffer and marshalled into the caller's slice, its length taken from that marshal and
// not from the read — must not hand out the upstream read's attributes with them: every interceptor further out then
// applies the cached header of the packet that was read to the bytes of the packet that was emitted
// (`bytes[header.MarshalSize():n]` with a header larger than n is a slice-bounds panic in the caller of Read).
//
// For every reader closure with an upstream read: on every return whose length result is neither the upstream read's
// length nor a constant, the attributes result is neither the upstream read's attributes nor the attributes parameter.
func x2AttrsFollowBytes(p *Prog, o *obls) {
	closures, _ := p.PktClosures()
	n := 0
	for _, c := range closures {
		if c.Kind != RTPReader && c.Kind != RTCPReader {
			continue
		}
		reads := nextCalls(p, c)
		if len(reads) == 0 {
			continue
		}
		fn := c.Fn
		if len(fn.Params) < 2 || fn.Signature.Results().Len() != 3 {
			continue
		}
		isRead := func(v ssa.Value, idx int) bool {
			ex, ok := v.(*ssa.Extract)
			if !ok || ex.Index != idx {
				return false
			}
			for _, r := range reads {
				if ex.Tuple == ssa.Value(r) {
					return true
				}
			}
			return false
		}
		var leaves func(v ssa.Value, seen map[ssa.Value]bool, out *[]ssa.Value)
		leaves = func(v ssa.Value, seen map[ssa.Value]bool, out *[]ssa.Value) {
			v = p.origin(v)
			if seen[v] {
				return
			}
			seen[v] = true
			if ph, ok := v.(*ssa.Phi); ok {
				for _, e := range ph.Edges {
					leaves(e, seen, out)
				}
				return
			}
			*out = append(*out, v)
		}
		n++
		var bad []string
		for _, b := range fn.Blocks {
			ret, ok := b.Instrs[len(b.Instrs)-1].(*ssa.Return)
			if !ok || b == fn.Recover || len(ret.Results) != 3 {
				continue
			}
			var ns, as []ssa.Value
			leaves(returnedValue(ret, 0), map[ssa.Value]bool{}, &ns)
			leaves(returnedValue(ret, 1), map[ssa.Value]bool{}, &as)
			other := ""
			for _, v := range ns {
				if _, isConst := v.(*ssa.Const); isConst || isRead(v, 0) {
					continue
				}
				// a length computed from the read's (a trailer stripped: n-4) is still that packet's
				if !otherLength(p, v, func(w ssa.Value) bool { return isRead(w, 0) }, 0) {
					continue
				}
				other = shortExpr(p, v)
			}
			if other == "" {
				continue
			}
			for _, v := range as {
				if isRead(v, 1) || v == ssa.Value(fn.Params[1]) {
					bad = append(bad, fmt.Sprintf("the return at %s hands out other bytes (their length is %s, not the upstream read's) together with the attributes of the upstream read", p.instrPos(ret), other))
					break
				}
			}
		}
		key := closureKey(c) + ":attrs-follow-bytes"
		if len(bad) > 0 {
			sort.Strings(bad)
			o.bad("X2", key, strings.SplitN(strings.SplitN(bad[0], " at ", 2)[1], " ", 2)[0], strings.Join(dedupe(bad), "; ")+": the header an inner interceptor cached in those attributes belongs to another packet, and interceptors further out slice these bytes by it")
		} else {
			o.ok("X2", key, p.Pos(fn.Pos()), "every return that hands out a length other than the upstream read's hands out attributes of its own")
		}
	}
	o.ok("X2", "inspected", "-", fmt.Sprintf("%d reader closure(s) with an upstream read", n))
}

// arithOf: v is computed by arithmetic and conversions only from a value satisfying is.
func arithOf(p *Prog, v ssa.Value, is func(ssa.Value) bool, d int) bool {
	v = p.origin(v)
	if d > 6 {
		return false
	}
	if is(v) {
		return true
	}
	switch x := v.(type) {
	case *ssa.BinOp:
		return arithOf(p, x.X, is, d+1) || arithOf(p, x.Y, is, d+1)
	case *ssa.Convert:
		return arithOf(p, x.X, is, d+1)
	case *ssa.ChangeType:
		return arithOf(p, x.X, is, d+1)
	}
	return false
}

// X3 — after the upstream read, a reader works with the attributes the read returned. Where the library has a reader
// of a kind (RTP, RTCP) that substitutes the bytes it hands up (X2: today the jitter buffer, on the RTP path), the
// attributes a reader passed *down* describe the packet that was read from the network, and the attributes that came
// back describe the packet it was actually given. A reader closure of such a kind that, after its upstream read, still
// uses the attributes parameter — parses the header "from" it, hands it to its recorder — applies the header cached
// for one packet to the bytes of another (wrong sequence numbers and sizes in whatever it records; a slice-bounds
// panic where the bytes are cut by that header).
func x3ReturnedAttrs(p *Prog, o *obls) {
	closures, _ := p.PktClosures()
	// which kinds have a substituting reader
	subst := map[ClosureKind]string{}
	for _, c := range closures {
		if c.Kind != RTPReader && c.Kind != RTCPReader {
			continue
		}
		reads := nextCalls(p, c)
		fn := c.Fn
		if len(reads) == 0 || fn.Signature.Results().Len() != 3 {
			continue
		}
		for _, b := range fn.Blocks {
			ret, ok := b.Instrs[len(b.Instrs)-1].(*ssa.Return)
			if !ok || b == fn.Recover || len(ret.Results) != 3 {
				continue
			}
			if otherLength(p, returnedValue(ret, 0), func(w ssa.Value) bool {
				ex, ok := w.(*ssa.Extract)
				if !ok || ex.Index != 0 {
					return false
				}
				for _, r := range reads {
					if ex.Tuple == ssa.Value(r) {
						return true
					}
				}
				return false
			}, 0) {
				subst[c.Kind] = closureKey(c)
			}
		}
	}
	n := 0
	for _, c := range closures {
		if c.Kind != RTPReader && c.Kind != RTCPReader {
			continue
		}
		reads := nextCalls(p, c)
		fn := c.Fn
		if len(reads) == 0 || len(fn.Params) < 2 {
			continue
		}
		key := closureKey(c) + ":returned-attrs"
		if subst[c.Kind] == "" {
			o.ok("X3", key, p.Pos(fn.Pos()), "no reader of this kind in the library hands up other bytes than it read: the attributes passed down and those returned describe the same packet")
			continue
		}
		n++
		par := fn.Params[len(fn.Params)-1]
		if !strings.HasSuffix(typeKey(par.Type()), "interceptor.Attributes") {
			o.ok("X3", key, p.Pos(fn.Pos()), "no attributes parameter")
			continue
		}
		var bad []string
		for _, f := range allNested(fn) {
			instrsOf(f, func(in ssa.Instruction) {
				uses := false
				for _, op := range in.Operands(nil) {
					if *op != nil && p.origin(*op) == ssa.Value(par) {
						uses = true
					}
				}
				if !uses {
					return
				}
				if _, isDbg := in.(*ssa.DebugRef); isDbg {
					return
				}
				if st, isStore := in.(*ssa.Store); isStore {
					if _, isAl := st.Addr.(*ssa.Alloc); isAl && st.Val == ssa.Value(par) {
						return // the parameter's own cell
					}
				}
				for _, r := range reads {
					if in == ssa.Instruction(r) {
						return
					}
				}
				// only uses that can execute after a read
				after := f != fn
				for _, r := range reads {
					if f == fn && (r.Block() == in.Block() && instrIndex(r) < instrIndex(in) || r.Block() != in.Block() && r.Block().Dominates(in.Block())) {
						after = true
					}
				}
				if !after {
					return
				}
				if _, isRet := in.(*ssa.Return); isRet {
					return // handing the caller's own map back (on a path with nothing read) is A2's business
				}
				bad = append(bad, p.instrPos(in))
			})
		}
		if len(bad) > 0 {
			sort.Strings(bad)
			o.bad("X3", key, bad[0], fmt.Sprintf("the attributes *parameter* is used after the upstream read at %s: an inner reader of this kind (%s) returns other bytes than it read, with attributes of their own — the parameter still holds what inner interceptors cached for the packet that was read, not for the packet this reader was given", strings.Join(dedupe(bad), ", "), shortCallee(subst[c.Kind])))
		} else {
			o.ok("X3", key, p.Pos(fn.Pos()), "after the upstream read only the attributes it returned are used")
		}
	}
	o.ok("X3", "inspected", "-", fmt.Sprintf("%d reader closure(s) of a kind that has a substituting reader", n))
}

// X4 — what a Bind call learns about one stream is not kept in a field of the whole interceptor. BindLocalStream and
// BindRemoteStream run once per stream; the StreamInfo they are given (SSRC, clock rate, negotiated header-extension
// IDs, payload types) belongs to that stream. A value derived from it that is stored into a plain field of the
// interceptor — not into a per-stream object, a map entry keyed by the stream, or a variable the returned closure
// captures — is overwritten by the next Bind: every stream bound earlier then works with the last stream's parameters
// (packets of the first stream parsed with the second stream's extension ID; feedback attributed to the wrong packets).
func x4PerStreamConfig(p *Prog, o *obls) {
	n := 0
	for _, fn := range p.Funcs {
		if fn.Blocks == nil || fn.Parent() != nil || fn.Signature.Recv() == nil {
			continue
		}
		if fn.Name() != "BindLocalStream" && fn.Name() != "BindRemoteStream" {
			continue
		}
		var info *ssa.Parameter
		for _, par := range fn.Params[1:] {
			if strings.HasSuffix(typeKey(deref(par.Type())), "interceptor.StreamInfo") {
				info = par
			}
		}
		if info == nil || namedOf(deref(fn.Params[0].Type())) == nil {
			continue
		}
		if !p.InUniverse(fn) {
			continue
		}
		n++
		recv := ssa.Value(fn.Params[0])
		fromInfo := func(v ssa.Value) bool {
			u, ok := v.(*ssa.UnOp)
			if !ok || u.Op != token.MUL {
				return false
			}
			r := p.origin(addrRoot(u.X))
			for i := 0; i < 4 && r != ssa.Value(info); i++ {
				// a load through something loaded from info (info.RTPHeaderExtensions[i].ID)
				u2, ok := r.(*ssa.UnOp)
				if !ok || u2.Op != token.MUL {
					break
				}
				r = p.origin(addrRoot(u2.X))
			}
			return r == ssa.Value(info)
		}
		var bad []string
		// the Bind method and the repository helpers it hands (receiver, value) to are looked at; literals are not:
		// what a closure stores at packet time is not "learned at Bind"
		instrsOf(fn, func(in ssa.Instruction) {
			st, ok := in.(*ssa.Store)
			if !ok {
				return
			}
			fa, ok := st.Addr.(*ssa.FieldAddr)
			if !ok || p.origin(fa.X) != recv {
				return
			}
			if _, isConst := st.Val.(*ssa.Const); isConst {
				return
			}
			if p.backwardReaches(st.Val, fromInfo) {
				bad = append(bad, fmt.Sprintf("%s is assigned at %s a value derived from the StreamInfo of the stream being bound", fieldName(fieldKeyAddr(fa)), p.instrPos(st)))
			}
		})
		key := funcKey(fn) + ":per-stream-config"
		if len(bad) > 0 {
			sort.Strings(bad)
			o.bad("X4", key, strings.Fields(strings.SplitN(bad[0], " at ", 2)[1])[0], strings.Join(dedupe(bad), "; ")+": the field belongs to the whole interceptor and the next Bind overwrites it — streams bound earlier then run with the parameters of the stream bound last")
		} else {
			o.ok("X4", key, p.Pos(fn.Pos()), "nothing derived from the StreamInfo is stored into a plain field of the interceptor")
		}
	}
	o.ok("X4", "inspected", "-", fmt.Sprintf("%d Bind*Stream method(s)", n))
}

// otherLength: the length a reader returns is produced by writing other bytes into the caller's buffer — the result
// of copy(…), of a Marshal/MarshalTo of a packet object, or of len(…) — as opposed to the upstream read's own length
// (possibly through arithmetic, or handed through a repository helper that returns the length it was given). A
// repository helper is looked into: it substitutes when one of its own returns does.
func otherLength(p *Prog, v ssa.Value, isReadLen func(ssa.Value) bool, depth int) bool {
	v = p.origin(v)
	if _, isConst := v.(*ssa.Const); isConst || depth > 3 {
		return false
	}
	if arithOf(p, v, isReadLen, 0) {
		return false
	}
	switch x := v.(type) {
	case *ssa.Phi:
		for _, e := range x.Edges {
			if otherLength(p, e, isReadLen, depth+1) {
				return true
			}
		}
		return false
	case *ssa.Extract:
		return otherLength(p, x.Tuple, isReadLen, depth)
	case *ssa.Call:
		if b := builtinName(&x.Call); b == "copy" || b == "len" {
			return true
		}
		sc := x.Call.StaticCallee()
		if sc == nil {
			return false
		}
		if !p.InUniverse(sc) || sc.Blocks == nil {
			return strings.HasPrefix(sc.Name(), "Marshal")
		}
		// a repository helper: one of its returns hands back another length than a parameter of its own
		for _, b := range sc.Blocks {
			ret, ok := b.Instrs[len(b.Instrs)-1].(*ssa.Return)
			if !ok || len(ret.Results) == 0 || b == sc.Recover {
				continue
			}
			if otherLength(p, returnedValue(ret, 0), func(w ssa.Value) bool { _, isPar := w.(*ssa.Parameter); return isPar }, depth+1) {
				return true
			}
		}
		return false
	}
	return false
}

// X5 — the parse cache's keys cannot collide with anybody else's. Attributes is a map[any]any that the application,
// every interceptor and the library's own parse cache share. The cache entries (parsed RTP header, parsed RTCP
// packets) are found again by key, and a key of a package-private *named* type can only be produced inside the
// package. A key that is a plain int — an untyped iota constant boxed into `any` — is equal to every other int key of
// the same value: an application's own `const key = iota`, or another interceptor's exported key. GetRTPHeader then
// finds a foreign value under "its" key and fails every read with errInvalidType — or, if the value happens to be a
// header, accounts the wrong packet. In the methods of Attributes: every map access whose key is a constant uses a key
// of a named type declared in the root package.
func x5CacheKeys(p *Prog, o *obls) {
	n := 0
	for _, fn := range p.Funcs {
		if fn.Blocks == nil || fn.Signature.Recv() == nil || !strings.HasSuffix(typeKey(fn.Signature.Recv().Type()), "interceptor.Attributes") && !strings.HasSuffix(typeKey(fn.Signature.Recv().Type()), "fx.x5attrs") {
			continue
		}
		var bad []string
		k := 0
		instrsOf(fn, func(in ssa.Instruction) {
			var key ssa.Value
			switch x := in.(type) {
			case *ssa.Lookup:
				key = x.Index
			case *ssa.MapUpdate:
				key = x.Key
			default:
				return
			}
			mi, ok := key.(*ssa.MakeInterface)
			if !ok {
				return
			}
			if _, isConst := mi.X.(*ssa.Const); !isConst {
				return
			}
			k++
			if nt := namedOf(mi.X.Type()); nt == nil || nt.Obj().Pkg() == nil || nt.Obj().Exported() {
				bad = append(bad, fmt.Sprintf("the constant key %s of type %s is used at %s", mi.X.Name(), mi.X.Type().String(), p.instrPos(in)))
			}
		})
		if k == 0 {
			continue
		}
		n++
		key := funcKey(fn) + ":cache-key"
		if len(bad) > 0 {
			sort.Strings(bad)
			o.bad("X5", key, p.Pos(fn.Pos()), strings.Join(dedupe(bad), "; ")+": a key that is not of a package-private named type is equal to any other key of the same basic value that the application or another interceptor files in the same map")
		} else {
			o.ok("X5", key, p.Pos(fn.Pos()), fmt.Sprintf("%d constant-key access(es), all with keys of a package-private named type", k))
		}
	}
	o.ok("X5", "inspected", "-", fmt.Sprintf("%d method(s) of Attributes with constant keys", n))
}
