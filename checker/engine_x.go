package main

// X1 — what an option configured stays configured. A field that a functional option assigns (`WithMinimumPacketCount(n)`
// stores n into the buffer) holds the user's choice for the life of the object. A method that later assigns that field a
// *constant* — a reset that "restores the default" — silently replaces the configuration with the default: after the
// first `Clear(true)` a buffer configured to start playback at 100 packets starts at 50, one configured for 5 waits for
// 50. For every field stored by an option closure, no function other than option closures and the code that builds the
// object stores a constant into it.

import (
	"fmt"
	"go/types"
	"sort"
	"strings"

	"golang.org/x/tools/go/ssa"
)

func init() {
	registerEngine("X", []string{"X1", "X2"}, runEngineX)
}

func runEngineX(p *Prog, o *obls) {
	optFields := map[*types.Var]string{} // field -> option closure that sets it
	keyOf := map[*types.Var]string{}
	for _, fn := range p.Funcs {
		if !isOptionClosure(fn) {
			continue
		}
		instrsOf(fn, func(in ssa.Instruction) {
			st, ok := in.(*ssa.Store)
			if !ok {
				return
			}
			fa, ok := st.Addr.(*ssa.FieldAddr)
			if !ok || p.origin(addrRoot(fa)) != ssa.Value(fn.Params[0]) {
				return
			}
			if _, isConst := st.Val.(*ssa.Const); isConst {
				return // an option that switches something on with a literal configures no value a reset could lose… but see below
			}
			if fv := fieldOfAddr(fa); fv != nil {
				optFields[fv] = funcKey(fn)
				keyOf[fv] = fieldKeyAddr(fa)
			}
		})
	}
	type hit struct{ pos, fn string }
	hits := map[*types.Var][]hit{}
	for _, fn := range p.Funcs {
		if isOptionClosure(fn) {
			continue
		}
		instrsOf(fn, func(in ssa.Instruction) {
			st, ok := in.(*ssa.Store)
			if !ok {
				return
			}
			fa, ok := st.Addr.(*ssa.FieldAddr)
			if !ok {
				return
			}
			fv := fieldOfAddr(fa)
			if fv == nil || optFields[fv] == "" || freshlyBuilt(p, fa, fn) {
				return
			}
			c, isConst := st.Val.(*ssa.Const)
			if !isConst || c.Value == nil && !isNilConst(st.Val) {
				return
			}
			hits[fv] = append(hits[fv], hit{p.instrPos(st), funcKey(fn)})
		})
	}
	var fields []*types.Var
	for fv := range optFields {
		fields = append(fields, fv)
	}
	sort.Slice(fields, func(i, j int) bool { return keyOf[fields[i]] < keyOf[fields[j]] })
	for _, fv := range fields {
		key := keyOf[fv]
		if hs := hits[fv]; len(hs) > 0 {
			var w []string
			for _, h := range hs {
				w = append(w, fmt.Sprintf("%s (in %s)", h.pos, h.fn))
			}
			sort.Strings(w)
			o.bad("X1", key, strings.SplitN(w[0], " ", 2)[0], fmt.Sprintf("the field is configured by an option (%s) and later assigned a constant at %s: the user's setting is replaced by a default for the rest of the object's life", shortCallee(optFields[fv]), strings.Join(dedupe(w), ", ")))
		} else {
			o.ok("X1", key, "-", "configured by an option and never assigned a constant after construction")
		}
	}
	o.ok("X1", "inspected", "-", fmt.Sprintf("%d option-configured field(s)", len(fields)))
	x2AttrsFollowBytes(p, o)
}

// X2 — attributes travel with the bytes they describe. The Attributes map a reader returns is the place where inner
// interceptors cache what they parsed from the packet (Attributes.GetRTPHeader / GetRTCPPackets return the cached value
// whatever bytes they are given afterwards). A reader closure that hands its caller *other* bytes than the upstream read
// produced — a packet popped from a buffer and marshalled into the caller's slice, its length taken from that marshal and
// not from the read — must not hand out the upstream read's attributes with them: every interceptor further out then
// applies the cached header of the packet that was read to the bytes of the packet that was emitted
// (`bytes[header.MarshalSize():n]` with a header larger than n is a slice-bounds panic in the caller of Read).
//
// For every reader closure with an upstream read: on every return whose length result is neither the upstream read's
// length nor a constant, the attributes result is neither the upstream read's attributes nor the attributes parameter.
func x2AttrsFollowBytes(p *Prog, o *obls) {
	closures, _ := p.PktClosures()
	n := 0
	for _, c := range closures {
		if c.Kind != RTPReader && c.Kind != RTCPReader {
			continue
		}
		reads := nextCalls(p, c)
		if len(reads) == 0 {
			continue
		}
		fn := c.Fn
		if len(fn.Params) < 2 || fn.Signature.Results().Len() != 3 {
			continue
		}
		isRead := func(v ssa.Value, idx int) bool {
			ex, ok := v.(*ssa.Extract)
			if !ok || ex.Index != idx {
				return false
			}
			for _, r := range reads {
				if ex.Tuple == ssa.Value(r) {
					return true
				}
			}
			return false
		}
		var leaves func(v ssa.Value, seen map[ssa.Value]bool, out *[]ssa.Value)
		leaves = func(v ssa.Value, seen map[ssa.Value]bool, out *[]ssa.Value) {
			v = p.origin(v)
			if seen[v] {
				return
			}
			seen[v] = true
			if ph, ok := v.(*ssa.Phi); ok {
				for _, e := range ph.Edges {
					leaves(e, seen, out)
				}
				return
			}
			*out = append(*out, v)
		}
		n++
		var bad []string
		for _, b := range fn.Blocks {
			ret, ok := b.Instrs[len(b.Instrs)-1].(*ssa.Return)
			if !ok || b == fn.Recover || len(ret.Results) != 3 {
				continue
			}
			var ns, as []ssa.Value
			leaves(returnedValue(ret, 0), map[ssa.Value]bool{}, &ns)
			leaves(returnedValue(ret, 1), map[ssa.Value]bool{}, &as)
			other := ""
			for _, v := range ns {
				if _, isConst := v.(*ssa.Const); isConst || isRead(v, 0) {
					continue
				}
				// a length computed from the read's (a trailer stripped: n-4) is still that packet's
				if arithOf(p, v, func(w ssa.Value) bool { return isRead(w, 0) }, 0) {
					continue
				}
				other = shortExpr(p, v)
			}
			if other == "" {
				continue
			}
			for _, v := range as {
				if isRead(v, 1) || v == ssa.Value(fn.Params[1]) {
					bad = append(bad, fmt.Sprintf("the return at %s hands out other bytes (their length is %s, not the upstream read's) together with the attributes of the upstream read", p.instrPos(ret), other))
					break
				}
			}
		}
		key := closureKey(c) + ":attrs-follow-bytes"
		if len(bad) > 0 {
			sort.Strings(bad)
			o.bad("X2", key, strings.SplitN(strings.SplitN(bad[0], " at ", 2)[1], " ", 2)[0], strings.Join(dedupe(bad), "; ")+": the header an inner interceptor cached in those attributes belongs to another packet, and interceptors further out slice these bytes by it")
		} else {
			o.ok("X2", key, p.Pos(fn.Pos()), "every return that hands out a length other than the upstream read's hands out attributes of its own")
		}
	}
	o.ok("X2", "inspected", "-", fmt.Sprintf("%d reader closure(s) with an upstream read", n))
}

// arithOf: v is computed by arithmetic and conversions only from a value satisfying is.
func arithOf(p *Prog, v ssa.Value, is func(ssa.Value) bool, d int) bool {
	v = p.origin(v)
	if d > 6 {
		return false
	}
	if is(v) {
		return true
	}
	switch x := v.(type) {
	case *ssa.BinOp:
		return arithOf(p, x.X, is, d+1) || arithOf(p, x.Y, is, d+1)
	case *ssa.Convert:
		return arithOf(p, x.X, is, d+1)
	case *ssa.ChangeType:
		return arithOf(p, x.X, is, d+1)
	}
	return false
}
