package main

// T4 — a buffer given back to a sync.Pool is not touched afterwards. From the moment of Put the pool may hand the
// object to another goroutine, which overwrites it; any later read through it (a downstream Write still working on
// the payload, a copy made from it) sees the other user's bytes, and any later write corrupts the other user's packet.
//
// For every Put(x) in a function (a direct call, a deferred call — effective at the function's exits —, or a call of a
// repository helper that Puts its parameter), the values that denote the pooled object are collected: x, every other
// evaluation of the same pure expression (next.payload read twice), and what is derived from them without copying
// (*x, (*x)[:n], &x[i], x.f, conversions, φ). A forward may-analysis marks them stale at the Put; a value stops being
// stale when it is computed anew from something that was itself recomputed since the Put (the next queue item). An
// instruction that reads or writes memory through a stale value, passes it to a call, stores it or returns it is a
// violation. Putting it a second time is rule T3's subject and is not reported here.

import (
	"fmt"
	"go/token"
	"go/types"
	"strings"

	"golang.org/x/tools/go/ssa"
)

func init() {
	registerEngine("T4", []string{"T4"}, runEngineT4)
}

func stripIface(v ssa.Value) ssa.Value {
	for i := 0; i < 4; i++ {
		switch x := v.(type) {
		case *ssa.MakeInterface:
			v = x.X
			continue
		case *ssa.ChangeInterface:
			v = x.X
			continue
		}
		break
	}
	return v
}

// putParamOf: the repository function puts (on some path) the object denoted by a pure expression over exactly one
// of its parameters; returns the parameter index and the expression's key, or -1.
func putParamOf(p *Prog, g *ssa.Function) (int, string) {
	idx, key := -1, ""
	if g == nil || g.Blocks == nil {
		return idx, key
	}
	instrsOf(g, func(in ssa.Instruction) {
		ci, ok := in.(ssa.CallInstruction)
		if !ok {
			return
		}
		if _, isGo := ci.(*ssa.Go); isGo {
			return
		}
		cc := ci.Common()
		if !isCallTo(cc, "(*sync.Pool).Put") || len(cc.Args) != 2 {
			return
		}
		k := p.pureKey(stripIface(cc.Args[1]))
		for i, par := range g.Params {
			if pk := p.pureKey(par); strings.Contains(k, pk) && idx < 0 {
				idx, key = i, k
			}
		}
	})
	return idx, key
}

type t4put struct {
	at       ssa.Instruction // the Put (or the call of the helper that puts)
	key      string          // pure key of the pooled object in this function
	root     ssa.Value       // a value with that key, if the function evaluates one
	deferred bool
}

func runEngineT4(p *Prog, o *obls) {
	helperPut := map[*ssa.Function][2]interface{}{}
	for _, fn := range p.Funcs {
		var puts []t4put
		instrsOf(fn, func(in ssa.Instruction) {
			ci, ok := in.(ssa.CallInstruction)
			if !ok {
				return
			}
			if _, isGo := ci.(*ssa.Go); isGo {
				return
			}
			_, isDefer := ci.(*ssa.Defer)
			cc := ci.Common()
			if isCallTo(cc, "(*sync.Pool).Put") && len(cc.Args) == 2 {
				root := stripIface(cc.Args[1])
				puts = append(puts, t4put{at: in, key: p.pureKey(root), root: root, deferred: isDefer})
				return
			}
			sc := cc.StaticCallee()
			if sc == nil || !p.InUniverse(sc) || sc == fn {
				return
			}
			hp, seen := helperPut[sc]
			if !seen {
				i, k := putParamOf(p, sc)
				hp = [2]interface{}{i, k}
				helperPut[sc] = hp
			}
			i, k := hp[0].(int), hp[1].(string)
			if i < 0 || i >= len(cc.Args) {
				return
			}
			arg := cc.Args[i]
			key := strings.ReplaceAll(k, p.pureKey(sc.Params[i]), p.pureKey(arg))
			puts = append(puts, t4put{at: in, key: key, root: nil, deferred: isDefer})
			_ = arg
		})
		for pi, put := range puts {
			key := fmt.Sprintf("%s:put", funcKey(fn))
			if pi > 0 {
				key = fmt.Sprintf("%s#%d", key, pi+1)
			}
			bad := t4analyse(p, fn, put)
			if len(bad) > 0 {
				o.bad("T4", key, p.instrPos(put.at), strings.Join(dedupe(bad), "; ")+": the pool may already have handed the buffer to another user")
			} else {
				o.ok("T4", key, p.instrPos(put.at), "nothing reads, writes or keeps the pooled object after it is given back")
			}
		}
	}
}

// t4derives: r is computed from its operand v without copying the memory v denotes.
func t4derives(r ssa.Instruction, v ssa.Value) (ssa.Value, bool) {
	switch x := r.(type) {
	case *ssa.Slice:
		return x, x.X == v
	case *ssa.IndexAddr:
		return x, x.X == v
	case *ssa.FieldAddr:
		return x, x.X == v
	case *ssa.Convert:
		return x, x.X == v
	case *ssa.ChangeType:
		return x, x.X == v
	case *ssa.MakeInterface:
		return x, x.X == v
	case *ssa.Phi:
		return x, true
	case *ssa.UnOp:
		// a load through the pooled pointer yields a reference into pooled memory only if what is loaded is itself a
		// reference (the slice header of a pooled *[]byte); a loaded byte or integer is a copy
		if x.Op == token.MUL && x.X == v && isRefType(x.Type()) {
			return x, true
		}
	}
	return nil, false
}

func t4analyse(p *Prog, fn *ssa.Function, put t4put) []string {
	// S: values denoting the pooled object or memory reached through it
	S := map[ssa.Value]bool{}
	cells := map[ssa.Value]bool{}
	var work []ssa.Value
	add := func(v ssa.Value) {
		if v != nil && !S[v] {
			S[v] = true
			work = append(work, v)
		}
	}
	if put.root != nil {
		add(put.root)
	}
	instrsOf(fn, func(in ssa.Instruction) {
		if v, ok := in.(ssa.Value); ok && p.pureKey(v) == put.key {
			add(v)
		}
	})
	for _, par := range fn.Params {
		if p.pureKey(par) == put.key {
			add(par)
		}
	}
	for len(work) > 0 {
		v := work[len(work)-1]
		work = work[:len(work)-1]
		if v.Referrers() == nil {
			continue
		}
		for _, r := range *v.Referrers() {
			if d, ok := t4derives(r, v); ok {
				add(d)
			}
			// spilled into a local cell (the result cell of a function with defers, a variable captured nowhere): the
			// cell carries the reference
			if st, ok := r.(*ssa.Store); ok && st.Val == v {
				if al, ok := st.Addr.(*ssa.Alloc); ok && al.Parent() == fn && !cellEscapes(al) {
					cells[al] = true
					add(al)
				}
			}
		}
	}
	// C: what the roots are computed from (the queue item a payload pointer is read from): recomputing one of these
	// after the Put makes the values read through it fresh
	C := map[ssa.Value]bool{}
	var chain func(v ssa.Value, d int)
	chain = func(v ssa.Value, d int) {
		if v == nil || d > 12 {
			return
		}
		var x ssa.Value
		switch y := v.(type) {
		case *ssa.UnOp:
			if y.Op == token.MUL {
				x = y.X
			}
		case *ssa.FieldAddr:
			x = y.X
		case *ssa.IndexAddr:
			x = y.X
		case *ssa.Field:
			x = y.X
		case *ssa.ChangeType:
			x = y.X
		case *ssa.Convert:
			x = y.X
		}
		if x != nil && !S[x] {
			C[x] = true
			chain(x, d+1)
		}
	}
	for v := range S {
		if p.pureKey(v) == put.key {
			chain(v, 0)
		}
	}
	inT := func(v ssa.Value) bool { return S[v] || C[v] }
	pureDef := func(in ssa.Instruction) bool {
		switch x := in.(type) {
		case *ssa.Slice, *ssa.IndexAddr, *ssa.FieldAddr, *ssa.Field, *ssa.Convert, *ssa.ChangeType, *ssa.MakeInterface, *ssa.Phi:
			return true
		case *ssa.UnOp:
			return x.Op == token.MUL
		}
		return false
	}
	// forward may-analysis
	type state map[ssa.Value]bool
	in := map[*ssa.BasicBlock]state{}
	out := map[*ssa.BasicBlock]state{}
	var bad []string
	reported := map[ssa.Instruction]bool{}
	transfer := func(b *ssa.BasicBlock, st state, report bool) state {
		cur := state{}
		for k, v := range st {
			if v {
				cur[k] = true
			}
		}
		for _, ins := range b.Instrs {
			effective := ins == put.at && !put.deferred
			if put.deferred {
				if _, isRD := ins.(*ssa.RunDefers); isRD {
					effective = true
				}
			}
			if effective {
				for v := range S {
					cur[v] = true
				}
				for v := range C {
					cur[v] = true
				}
				continue
			}
			if ins == put.at {
				continue // the defer statement itself
			}
			// assignment to a tracked local cell
			if st, ok := ins.(*ssa.Store); ok && cells[st.Addr] {
				cur[st.Addr] = inT(st.Val) && cur[st.Val]
				continue
			}
			// a use through a stale value
			if report && !reported[ins] {
				if w := t4use(p, ins, S, cur); w != "" {
					reported[ins] = true
					bad = append(bad, w)
				}
			}
			// definitions
			if v, ok := ins.(ssa.Value); ok && inT(v) {
				if pureDef(ins) {
					stale := false
					anyT := false
					for _, op := range ins.Operands(nil) {
						if *op != nil && inT(*op) {
							anyT = true
							if cur[*op] {
								stale = true
							}
						}
					}
					if !anyT {
						stale = false // computed from something outside the tracked set: fresh
					}
					cur[v] = stale
				} else {
					cur[v] = false // a call result, a type assertion, an extract: a new object
				}
			}
		}
		return cur
	}
	changed := true
	for iter := 0; changed && iter < 50; iter++ {
		changed = false
		for _, b := range fn.Blocks {
			st := state{}
			for _, pr := range b.Preds {
				for k, v := range out[pr] {
					if v {
						st[k] = true
					}
				}
			}
			in[b] = st
			nout := transfer(b, st, false)
			if len(nout) != len(out[b]) {
				changed = true
			} else {
				for k := range nout {
					if !out[b][k] {
						changed = true
					}
				}
			}
			out[b] = nout
		}
	}
	for _, b := range fn.Blocks {
		transfer(b, in[b], true)
	}
	return bad
}

// t4use: ins touches the pooled object through a value that is stale in st.
func t4use(p *Prog, ins ssa.Instruction, S map[ssa.Value]bool, st map[ssa.Value]bool) string {
	switch x := ins.(type) {
	case *ssa.DebugRef, *ssa.Slice, *ssa.IndexAddr, *ssa.FieldAddr, *ssa.Field, *ssa.Convert, *ssa.ChangeType, *ssa.MakeInterface, *ssa.Phi:
		return ""
	case *ssa.BinOp:
		if isNilConst(x.X) || isNilConst(x.Y) {
			return ""
		}
	case *ssa.UnOp:
		if _, isCell := x.X.(*ssa.Alloc); isCell {
			return "" // reloading the local variable that holds the reference touches no pooled memory
		}
	case ssa.CallInstruction:
		if isCallTo(x.Common(), "(*sync.Pool).Put") {
			return "" // T3
		}
		if b := builtinName(x.Common()); b == "len" || b == "cap" {
			return ""
		}
	}
	for _, op := range ins.Operands(nil) {
		if *op == nil || !S[*op] || !st[*op] {
			continue
		}
		what := "used"
		switch x := ins.(type) {
		case *ssa.UnOp:
			what = "read through"
		case *ssa.Store:
			if x.Addr == *op {
				what = "written through"
			} else {
				what = "stored (kept)"
			}
		case *ssa.Return:
			what = "returned"
		case ssa.CallInstruction:
			what = "passed to " + shortCallee(calleeName(x.Common()))
		}
		return fmt.Sprintf("%s is %s at %s after the buffer was put back", valueString(*op), what, p.instrPos(ins))
	}
	return ""
}

// T5 — a view of a pooled buffer that has no upper bound is only written into. What lies in a pooled buffer beyond the
// bytes the current call has written is whatever an earlier user left there; a slice `buf[k:]` (no high bound) handed
// to something that reads it (the source of a copy or XOR, a checksum, an append) feeds those stale bytes into the
// result. Such a view may be the destination of a copy, a MarshalTo/Read/PutUintNN target, or be cut down again with
// an upper bound; anything else fires.

func init() {
	registerEngine("T5", []string{"T5"}, runEngineT5)
}

func runEngineT5(p *Prog, o *obls) {
	n := 0
	for _, fn := range p.Funcs {
		k := 0
		instrsOf(fn, func(in ssa.Instruction) {
			sl, ok := in.(*ssa.Slice)
			if !ok || sl.High != nil || sl.Referrers() == nil {
				return
			}
			if _, isSlice := sl.X.Type().Underlying().(*types.Slice); !isSlice {
				return
			}
			get := poolBufferOrigin(p, sl.X)
			if get == nil {
				return
			}
			n++
			k++
			key := fmt.Sprintf("%s:open-view", funcKey(fn))
			if k > 1 {
				key = fmt.Sprintf("%s#%d", key, k)
			}
			var bad []string
			var check func(v ssa.Value, d int)
			check = func(v ssa.Value, d int) {
				if v.Referrers() == nil || d > 4 {
					return
				}
				for _, r := range *v.Referrers() {
					switch x := r.(type) {
					case *ssa.DebugRef:
					case *ssa.Slice:
						if x.X == v && x.High == nil {
							check(x, d+1) // still open above
						}
					case *ssa.Phi:
						check(x, d+1)
					case *ssa.IndexAddr:
						// indexed access: bounds-checked against the buffer, byte by byte under the caller's own loop bound
					case *ssa.Call:
						if b := builtinName(&x.Call); b != "" {
							if b == "copy" && x.Call.Args[0] == v && x.Call.Args[1] != v {
								continue
							}
							if b == "len" || b == "cap" {
								continue
							}
							bad = append(bad, fmt.Sprintf("it is read by %s at %s", b, p.instrPos(x)))
							continue
						}
						args := x.Call.Args
						if x.Call.IsInvoke() {
							args = append([]ssa.Value{x.Call.Value}, args...)
						}
						name := calleeName(&x.Call)
						dst := false
						if idx, ok := externalWriters[name]; ok && idx < len(args) && args[idx] == v {
							dst = true
						}
						if sc := x.Call.StaticCallee(); sc != nil && (sc.Name() == "MarshalTo" || sc.Name() == "Read") && len(args) > 1 && args[1] == v {
							dst = true
						}
						if !dst {
							bad = append(bad, fmt.Sprintf("it is handed to %s at %s", shortCallee(name), p.instrPos(x)))
						}
					default:
						if in2, ok := r.(ssa.Instruction); ok {
							bad = append(bad, fmt.Sprintf("it is used at %s", p.instrPos(in2)))
						}
					}
				}
			}
			check(sl, 0)
			if len(bad) > 0 {
				o.bad("T5", key, p.instrPos(sl), fmt.Sprintf("%s is a view of the pooled buffer (taken from the pool at %s) with no upper bound, and %s: what lies beyond the bytes written by this call is left over from an earlier user of the buffer", shortExpr(p, sl), p.instrPos(get), strings.Join(dedupe(bad), "; ")))
			} else {
				o.ok("T5", key, p.instrPos(sl), "the open-ended view of the pooled buffer is only a write destination")
			}
		})
	}
	o.ok("T5", "inspected", "-", fmt.Sprintf("%d open-ended view(s) of pooled buffers", n))
}
