package main

import (
	"fmt"
	"go/token"
	"go/types"
	"sort"
	"strings"

	"golang.org/x/tools/go/ssa"
)

// Engine C — lock discipline (DESIGN.md §3 C): C1 guarded-field table, C2 goroutine confinement, C3 atomics,
// C4 unlisted fields are immutable after construction, C5 lock order / waiting under a lock.

func init() {
	registerEngine("C", []string{"C1", "C2", "C3", "C4", "C5", "C6", "C7"}, runEngineC)
}

// guardRow: fields of one struct type guarded by one lock. deep = the guard also covers what is reached through the
// field (methods on the object it points to, fields and elements of it).
type guardRow struct {
	typ    string   // "pkg/nack.localStream"
	lock   string   // lock id "pkg/nack.localStream.rtpBufferMutex" (may belong to another type)
	fields []string // field names
	deep   bool
	writesOnly bool // reads are governed by another protocol (reference counting); only writes need the lock
}

// guardTable is Appendix A of DESIGN.md, confirmed by reading every struct of the pinned tree.
var guardTable = []guardRow{
	{"pkg/nack.GeneratorInterceptor", "pkg/nack.GeneratorInterceptor.receiveLogsMu", []string{"receiveLogs", "nackCountLogs"}, true, false},
	{"pkg/nack.receiveLog", "pkg/nack.receiveLog.m", []string{"packets", "end", "started", "lastConsecutive"}, false, false},
	{"pkg/nack.ResponderInterceptor", "pkg/nack.ResponderInterceptor.streamsMu", []string{"streams"}, false, false},
	{"pkg/nack.localStream", "pkg/nack.localStream.rtpBufferMutex", []string{"rtpBuffer"}, true, false},
	{"internal/rtpbuffer.RetainablePacket", "internal/rtpbuffer.RetainablePacket.countMu", []string{"count"}, false, false},
	{"internal/rtpbuffer.RetainablePacket", "internal/rtpbuffer.RetainablePacket.countMu", []string{"header", "buffer", "payload"}, false, true},
	{"pkg/report.receiverStream", "pkg/report.receiverStream.m", []string{"packets", "started", "seqnumCycles", "lastSeqnum", "lastReportSeqnum", "lastRTPTimeRTP", "lastRTPTimeTime", "jitter", "lastSenderReport", "lastSenderReportTime", "totalLost"}, false, false},
	{"pkg/report.senderStream", "pkg/report.senderStream.m", []string{"lastRTPTimeRTP", "lastRTPTimeTime", "lastRTPSN", "packetCount", "octetCount"}, false, false},
	{"pkg/rtpfb.history", "pkg/rtpfb.history.lock", []string{"counter", "twccToCounter", "ssrcSeqNrToCounter", "highestAcked", "nextReport", "cleanUntil"}, false, false},
	{"pkg/rtpfb.history", "pkg/rtpfb.history.lock", []string{"packets"}, true, false},
	{"internal/cc.FeedbackAdapter", "internal/cc.FeedbackAdapter.lock", []string{"history"}, true, false},
	{"pkg/gcc.SendSideBWE", "pkg/gcc.SendSideBWE.lock", []string{"latestBitrate", "latestStats"}, false, false},
	{"pkg/gcc.LeakyBucketPacer", "pkg/gcc.LeakyBucketPacer.targetBitrateLock", []string{"targetBitrate"}, false, false},
	{"pkg/gcc.LeakyBucketPacer", "pkg/gcc.LeakyBucketPacer.qLock", []string{"queue"}, true, false},
	{"pkg/gcc.LeakyBucketPacer", "pkg/gcc.LeakyBucketPacer.writerLock", []string{"ssrcToWriter"}, false, false},
	{"pkg/gcc.NoOpPacer", "pkg/gcc.NoOpPacer.lock", []string{"ssrcToWriter"}, false, false},
	{"pkg/gcc.rateController", "pkg/gcc.rateController.lock", []string{"target", "lastUpdate", "latestRTT", "latestReceivedRate"}, false, false},
	{"pkg/gcc.rateController", "pkg/gcc.rateController.lock", []string{"latestDecreaseRate"}, true, false},
	{"pkg/gcc.lossBasedBandwidthEstimator", "pkg/gcc.lossBasedBandwidthEstimator.lock", []string{"bitrate", "averageLoss", "lastLossUpdate", "lastIncrease", "lastDecrease"}, false, false},
	{"pkg/stats.Interceptor", "pkg/stats.Interceptor.lock", []string{"recorders"}, false, false},
	{"pkg/stats.recorder", "pkg/stats.recorder.ms", []string{"latestStats"}, true, false},
	{"pkg/flexfec.FecInterceptor", "pkg/flexfec.FecInterceptor.mu", []string{"streams"}, false, false},
	{"pkg/flexfec.streamState", "pkg/flexfec.streamState.mu", []string{"packetBuffer"}, false, false},
	{"pkg/flexfec.streamState", "pkg/flexfec.streamState.mu", []string{"flexFecEncoder"}, true, false},
	{"pkg/jitterbuffer.ReceiverInterceptor", "pkg/jitterbuffer.ReceiverInterceptor.m", []string{"buffer"}, true, false},
	{"pkg/jitterbuffer.JitterBuffer", "pkg/jitterbuffer.JitterBuffer.mutex", []string{"lastSequence", "playoutHead", "playoutReady", "state", "stats", "minStartCount"}, false, false},
	{"pkg/jitterbuffer.JitterBuffer", "pkg/jitterbuffer.JitterBuffer.mutex", []string{"packets"}, true, false},
	{"pkg/pacing.InterceptorFactory", "pkg/pacing.InterceptorFactory.lock", []string{"interceptors"}, false, false},
	// fixtures
	{"fixtures/fx.guarded", "fixtures/fx.guarded.mu", []string{"n", "m"}, false, false},
	{"fixtures/fx.guarded", "fixtures/fx.guarded.mu", []string{"inner"}, true, false},
	{"fixtures/fx.rwGuarded", "fixtures/fx.rwGuarded.mu", []string{"v", "items"}, false, false},
	{"fixtures/fx.GoodB", "fixtures/fx.GoodB.mu", []string{"keep"}, false, false},
	{"fixtures/fx.GoodEcont", "fixtures/fx.GoodEcont.mu", []string{"log", "recent", "next"}, false, false},
	{"fixtures/fx.batcher", "fixtures/fx.batcher.mu", []string{"batch"}, false, false},
	{"fixtures/fx.fxEstimator", "fixtures/fx.fxEstimator.mu", []string{"rate"}, false, false},
	{"fixtures/fx.p1Stream", "fixtures/fx.p1Stream.mu", []string{"packets", "octets"}, false, false},
	{"fixtures/fx.GoodQ", "fixtures/fx.GoodQ.mu", []string{"q"}, true, false},
	{"fixtures/fx.BadBShallow", "fixtures/fx.BadBShallow.mu", []string{"keep"}, false, false},
	{"fixtures/fx.c7obj", "fixtures/fx.c7obj.mu", []string{"n"}, false, false},
	{"fixtures/fx.c6reg", "fixtures/fx.c6reg.mu", []string{"logs", "counts"}, false, false},
	{"fixtures/fx.rmw", "fixtures/fx.rmw.mu", []string{"total"}, false, false},
	{"fixtures/fx.rmw", "fixtures/fx.rmw.mu", []string{"stats"}, true, false},
}

// confinedRow: every access to the listed fields (all fields when fields is nil) lies in functions reachable only
// from the owner goroutine's entry function (or in constructors working on a fresh object).
type confinedRow struct {
	typ    string
	fields []string
	owner  string // function key of the goroutine entry
	reason string
}

var confinedTable = []confinedRow{
	{"pkg/twcc.Recorder", nil, "pkg/twcc.(*SenderInterceptor).loop", "the recorder is only touched by the sender interceptor's loop goroutine"},
	{"pkg/twcc.packetArrivalTimeMap", nil, "pkg/twcc.(*SenderInterceptor).loop", "part of the recorder"},
	{"pkg/twcc.SenderInterceptor", []string{"recorder"}, "pkg/twcc.(*SenderInterceptor).loop", "the pointer is assigned by the function that starts the loop, before the go statement; only the loop reads it (this is what the setup-time exemption of the field in C4 rests on)"},
	{"pkg/rfc8888.SenderInterceptor", []string{"recorder"}, "pkg/rfc8888.(*SenderInterceptor).loop", "assigned in the constructor; only the loop reads it"},
	{"pkg/twcc.feedback", nil, "pkg/twcc.(*SenderInterceptor).loop", "built and consumed inside BuildFeedbackPacket"},
	{"pkg/twcc.chunk", nil, "pkg/twcc.(*SenderInterceptor).loop", "part of feedback"},
	{"pkg/rfc8888.Recorder", nil, "pkg/rfc8888.(*SenderInterceptor).loop", "the recorder is only touched by the interceptor's loop goroutine"},
	{"pkg/rfc8888.streamLog", nil, "pkg/rfc8888.(*SenderInterceptor).loop", "part of the recorder"},
	{"pkg/gcc.rateController", []string{"init", "delayStats", "lastState"}, "go@pkg/gcc.newDelayController→pkg/gcc.(*arrivalGroupAccumulator).run", "only the arrival-group goroutine runs onDelayStats"},
	{"pkg/gcc.overuseDetector", nil, "go@pkg/gcc.newDelayController→pkg/gcc.(*arrivalGroupAccumulator).run", "arrival-group goroutine"},
	{"pkg/gcc.slopeEstimator", nil, "go@pkg/gcc.newDelayController→pkg/gcc.(*arrivalGroupAccumulator).run", "arrival-group goroutine"},
	{"pkg/gcc.kalman", nil, "go@pkg/gcc.newDelayController→pkg/gcc.(*arrivalGroupAccumulator).run", "arrival-group goroutine"},
	{"pkg/gcc.adaptiveThreshold", nil, "go@pkg/gcc.newDelayController→pkg/gcc.(*arrivalGroupAccumulator).run", "arrival-group goroutine"},
	{"pkg/gcc.arrivalGroupAccumulator", nil, "go@pkg/gcc.newDelayController→pkg/gcc.(*arrivalGroupAccumulator).run", "arrival-group goroutine"},
	{"pkg/gcc.rateCalculator", nil, "go@pkg/gcc.newDelayController→pkg/gcc.(*rateCalculator).run", "rate-calculator goroutine"},
	{"fixtures/fx.GoodC2confined", nil, "fixtures/fx.(*GoodC2owner).loop", "fixture"},
	{"fixtures/fx.BadC2confined", nil, "fixtures/fx.(*BadC2owner).loop", "fixture"},
}

// setupTimeSetters: fields assigned by an exported setter that the API documents as configuration before use.
var setupTimeSetters = map[string]string{
	"pkg/gcc.SendSideBWE.onTargetBitrateChange":   "OnTargetBitrateChange is a setup-time setter (documented: call before traffic)",
	"pkg/jitterbuffer.JitterBuffer.listeners":     "Listen registers callbacks at setup time",
	"pkg/stats.InterceptorFactory.addPeerConnection": "OnNewPeerConnection is a factory-level setup-time setter",
	"interceptor.Registry.factories":              "Registry.Add is configuration before Build",
	"pkg/twcc.SenderInterceptor.recorder":         "assigned under SenderInterceptor.m in BindRTCPWriter before the loop goroutine is started (publication by go statement)",
}

type accessSite struct {
	field   string // pkg.Type.field
	fn      *ssa.Function
	at      ssa.Instruction
	write   bool
	via     string
	covered bool // reached through a deep-guarded outer field whose guard is held
}

func guardIndex() (byField map[string]guardRow) {
	byField = map[string]guardRow{}
	for _, r := range guardTable {
		for _, f := range r.fields {
			byField[r.typ+"."+f] = r
		}
	}
	return
}

// sharedBase reports whether the object whose field is accessed may be visible to other goroutines: its address
// does not come from an allocation made by this invocation.
func sharedBase(p *Prog, fn *ssa.Function, v ssa.Value) bool {
	return sharedBaseD(p, fn, v, ipDepth)
}

func sharedBaseD(p *Prog, fn *ssa.Function, v ssa.Value, depth int) bool {
	la := p.Locks()
	seen := map[ssa.Value]bool{}
	var walk func(v ssa.Value, d int) bool
	walk = func(v ssa.Value, d int) bool {
		if v == nil || seen[v] || d > 30 {
			return false
		}
		seen[v] = true
		// an object captured from an enclosing invocation is shared, unless this literal runs synchronously inside it
		if fv, ok := v.(*ssa.FreeVar); ok {
			if _, isSync := la.syncLit[fv.Parent()]; !isSync && !la.paramCalled[fv.Parent()] && !immediatelyInvoked(fv.Parent()) {
				return true
			}
		}
		if u, ok := v.(*ssa.UnOp); ok && u.Op == token.MUL {
			if fv, ok := u.X.(*ssa.FreeVar); ok {
				if _, isSync := la.syncLit[fv.Parent()]; !isSync && !la.paramCalled[fv.Parent()] && !immediatelyInvoked(fv.Parent()) {
					return true
				}
			}
		}
		v = p.origin(v)
		switch x := v.(type) {
		case *ssa.Alloc:
			// a local object; shared only if a pointer loaded into it came from shared memory (handled by origin)
			sts := p.storesToCell(x)
			if len(sts) == 0 {
				return false
			}
			// a pointer variable assigned several times: shared if any assigned value is
			if _, isPtr := deref(x.Type()).Underlying().(*types.Pointer); isPtr {
				for _, st := range sts {
					if walk(st.Val, d+1) {
						return true
					}
				}
			}
			return false
		case *ssa.FieldAddr:
			return walk(x.X, d+1)
		case *ssa.IndexAddr:
			return walk(x.X, d+1)
		case *ssa.UnOp:
			if x.Op == token.MUL {
				// pointer loaded from memory: shared iff that memory is shared or it is a local cell assigned a shared value
				if al, ok := cellAddr(x.X).(*ssa.Alloc); ok {
					for _, st := range p.storesToCell(al) {
						if walk(st.Val, d+1) {
							return true
						}
					}
					return false
				}
				return walk(x.X, d+1)
			}
			return walk(x.X, d+1)
		case *ssa.Phi:
			for _, e := range x.Edges {
				if walk(e, d+1) {
					return true
				}
			}
			return false
		case *ssa.MakeMap, *ssa.MakeSlice, *ssa.MakeChan, *ssa.Const:
			return false
		case *ssa.Call:
			// constructor results are fresh objects
			if sc := x.Call.StaticCallee(); sc != nil && isConstructor(p, sc) {
				return false
			}
			return true
		case *ssa.Extract:
			if c, ok := x.Tuple.(*ssa.Call); ok {
				if sc := c.Call.StaticCallee(); sc != nil && isConstructor(p, sc) {
					return false
				}
			}
			return true
		case *ssa.Slice:
			return walk(x.X, d+1)
		case *ssa.Convert, *ssa.ChangeType:
			return true
		case *ssa.Parameter:
			// a helper working on an object that every caller has just allocated (extracted part of a constructor)
			if depth > 0 {
				args, sites, closed := p.argsForParam(x)
				if closed && len(args) > 0 {
					for i, a := range args {
						if _, isGo := sites[i].(*ssa.Go); isGo || sharedBaseD(p, sites[i].Parent(), a, depth-1) {
							return true
						}
					}
					return false
				}
			}
			return true
		default:
			return true // free variables, globals, lookups, type assertions
		}
	}
	return walk(v, 0)
}

// immediatelyInvoked: the literal's only use is being called (func(){…}()) — not go, not defer of a stored value.
func immediatelyInvoked(f *ssa.Function) bool {
	mc := makeClosureOf(f)
	if mc == nil || mc.Referrers() == nil {
		return false
	}
	for _, r := range *mc.Referrers() {
		c, ok := r.(*ssa.Call)
		if !ok || c.Call.Value != ssa.Value(mc) {
			return false
		}
	}
	return true
}

// isConstructor: a function that returns a freshly allocated object (every returned pointer is a local allocation).
func isConstructor(p *Prog, f *ssa.Function) bool {
	if f.Blocks == nil || !p.InUniverse(f) {
		return false
	}
	if v, ok := p.ctorCache[f]; ok {
		return v
	}
	if p.ctorCache == nil {
		p.ctorCache = map[*ssa.Function]bool{}
	}
	p.ctorCache[f] = false
	res := false
	n := 0
	for _, b := range f.Blocks {
		ret, ok := b.Instrs[len(b.Instrs)-1].(*ssa.Return)
		if !ok || len(ret.Results) == 0 {
			continue
		}
		v := p.origin(ret.Results[0])
		if isNilConst(v) {
			continue
		}
		n++
		switch x := v.(type) {
		case *ssa.Alloc:
			res = true
		case *ssa.Call:
			if sc := x.Call.StaticCallee(); sc != nil && sc != f && isConstructor(p, sc) {
				res = true
			} else {
				p.ctorCache[f] = false
				return false
			}
		default:
			return false
		}
	}
	p.ctorCache[f] = res && n > 0
	return res && n > 0
}

// isOptionClosure: a function literal of shape func(*T) error (or func(*T)) created in a function that returns it —
// configuration applied to an object before it is handed out.
func isOptionClosure(f *ssa.Function) bool {
	if f.Parent() == nil || len(f.Params) != 1 {
		return false
	}
	if _, ok := f.Params[0].Type().Underlying().(*types.Pointer); !ok {
		return false
	}
	res := f.Signature.Results()
	if res.Len() > 1 || (res.Len() == 1 && !isErrorType(res.At(0).Type())) {
		return false
	}
	mc := makeClosureOf(f)
	var val ssa.Value = mc
	if mc == nil {
		// closure without free variables is a plain function value: find a return of it in the parent
		for _, b := range f.Parent().Blocks {
			if ret, ok := b.Instrs[len(b.Instrs)-1].(*ssa.Return); ok {
				for _, r := range ret.Results {
					if fnv, ok := r.(*ssa.Function); ok && fnv == f {
						return true
					}
					if ct, ok := r.(*ssa.ChangeType); ok {
						if fnv, ok := ct.X.(*ssa.Function); ok && fnv == f {
							return true
						}
					}
				}
			}
		}
		return false
	}
	for _, r := range *val.Referrers() {
		switch x := r.(type) {
		case *ssa.Return:
			return true
		case *ssa.ChangeType:
			for _, r2 := range *x.Referrers() {
				if _, ok := r2.(*ssa.Return); ok {
					return true
				}
			}
		}
	}
	return false
}

// mutatesThrough reports whether calling fn can write memory reachable from its argument number idx.
func mutatesThrough(p *Prog, fn *ssa.Function, idx int) bool {
	if fn.Blocks == nil || idx >= len(fn.Params) {
		return externalMutates(fn)
	}
	k := fmt.Sprintf("%p/%d", fn, idx)
	if v, ok := p.mutCache[k]; ok {
		return v
	}
	if p.mutCache == nil {
		p.mutCache = map[string]bool{}
	}
	p.mutCache[k] = false
	ws := writesThroughVals(p, fn, []ssa.Value{fn.Params[idx]}, map[*ssa.Function]bool{}, 0)
	res := len(ws) > 0
	if !res {
		// external callees that receive the object
		instrsOf(fn, func(in ssa.Instruction) {
			if c, ok := in.(ssa.CallInstruction); ok {
				if sc := c.Common().StaticCallee(); sc != nil && sc.Blocks == nil && externalMutates(sc) {
					for _, a := range c.Common().Args {
						if p.backwardReaches(a, func(v ssa.Value) bool { return v == ssa.Value(fn.Params[idx]) }) {
							res = true
						}
					}
				}
			}
		})
	}
	p.mutCache[k] = res
	return res
}

// externalMutates: library methods on containers that modify their receiver.
func externalMutates(fn *ssa.Function) bool {
	n := fullFuncName(fn)
	for _, m := range []string{"(*container/list.List).PushBack", "(*container/list.List).PushFront", "(*container/list.List).Remove",
		"(*container/list.List).MoveToFront", "(*container/list.List).MoveToBack", "(*container/list.List).Init", "(*container/list.List).InsertBefore", "(*container/list.List).InsertAfter"} {
		if n == m {
			return true
		}
	}
	return false
}

// collectAccesses finds every access to a field named in wanted (pkg.Type.field → deep?) in the universe.
func collectAccesses(p *Prog, wanted map[string]bool, deepOf map[string]bool) []accessSite {
	var out []accessSite
	for _, fn := range p.Funcs {
		if isOptionClosure(fn) {
			continue
		}
		instrsOf(fn, func(in ssa.Instruction) {
			fa, ok := in.(*ssa.FieldAddr)
			if !ok {
				return
			}
			fk := fieldKeyAddr(fa)
			if !wanted[fk] {
				return
			}
			if !sharedBase(p, fn, fa.X) {
				return
			}
			out = append(out, usesOfAddr(p, fn, fa, fk, deepOf[fk])...)
		})
	}
	return out
}

// usesOfAddr classifies how the address of a guarded field is used.
func usesOfAddr(p *Prog, fn *ssa.Function, addr ssa.Value, fk string, deep bool) []accessSite {
	var out []accessSite
	if addr.Referrers() == nil {
		return nil
	}
	for _, r := range *addr.Referrers() {
		switch x := r.(type) {
		case *ssa.Store:
			if x.Addr == addr {
				out = append(out, accessSite{field: fk, fn: fn, at: x, write: true, via: "store"})
			}
		case *ssa.UnOp:
			if x.Op == token.MUL {
				out = append(out, accessSite{field: fk, fn: fn, at: x, write: false, via: "load"})
				out = append(out, usesOfValue(p, fn, x, fk, deep, 0)...)
			}
		case *ssa.FieldAddr:
			// nested struct field: an access to part of the guarded field
			out = append(out, usesOfAddr(p, fn, x, fk, deep)...)
		case *ssa.IndexAddr:
			out = append(out, usesOfAddr(p, fn, x, fk, deep)...)
		case ssa.CallInstruction:
			// address passed to a call: method with pointer receiver on the field's value (e.g. sync.Map, list) or atomic
			cc := x.Common()
			if sc := cc.StaticCallee(); sc != nil {
				if sc.Pkg != nil && sc.Pkg.Pkg.Path() == "sync/atomic" {
					out = append(out, accessSite{field: fk, fn: fn, at: x, write: true, via: "atomic"})
					continue
				}
				idx := -1
				for i, a := range cc.Args {
					if a == addr {
						idx = i
					}
				}
				w := idx >= 0 && mutatesThrough(p, sc, idx)
				out = append(out, accessSite{field: fk, fn: fn, at: x, write: w, via: "call " + sc.Name()})
			} else {
				out = append(out, accessSite{field: fk, fn: fn, at: x, write: true, via: "dynamic call"})
			}
		}
	}
	return out
}

// usesOfValue follows a value loaded from a guarded field: map/slice contents always belong to the field; with a
// deep guard so do the object pointed to and (one level of) its elements.
func usesOfValue(p *Prog, fn *ssa.Function, v ssa.Value, fk string, deep bool, level int) []accessSite {
	var out []accessSite
	if v.Referrers() == nil || level > 2 {
		return nil
	}
	add := func(at ssa.Instruction, w bool, via string) {
		out = append(out, accessSite{field: fk, fn: fn, at: at, write: w, via: via})
	}
	_, isMap := v.Type().Underlying().(*types.Map)
	_, isSlice := v.Type().Underlying().(*types.Slice)
	for _, r := range *v.Referrers() {
		switch x := r.(type) {
		case *ssa.MapUpdate:
			if x.Map == v {
				add(x, true, "map update")
			}
		case *ssa.Lookup:
			if x.X == v {
				add(x, false, "map lookup")
				if deep && level < 2 {
					out = append(out, elemUses(p, fn, x, fk, level)...)
				}
			}
		case *ssa.Range:
			add(x, false, "range")
		case *ssa.IndexAddr:
			if x.X == v {
				for _, r2 := range *x.Referrers() {
					switch y := r2.(type) {
					case *ssa.Store:
						if y.Addr == ssa.Value(x) {
							add(y, true, "element store")
						}
					case *ssa.UnOp:
						add(y, false, "element load")
						if deep && level < 2 {
							out = append(out, usesOfValue(p, fn, y, fk, deep, level+1)...)
						}
					}
				}
			}
		case *ssa.Store:
			if x.Addr == v && deep {
				add(x, true, "store through the guarded pointer")
			}
		case *ssa.UnOp:
			if x.X == v && x.Op == token.MUL && deep {
				add(x, false, "load through the guarded pointer")
			}
		case *ssa.FieldAddr:
			if x.X == v && deep {
				// field of the guarded object
				for _, r2 := range *x.Referrers() {
					switch y := r2.(type) {
					case *ssa.Store:
						if y.Addr == ssa.Value(x) {
							add(y, true, "store to "+fieldKeyAddr(x))
						}
					case *ssa.UnOp:
						add(y, false, "load of "+fieldKeyAddr(x))
					}
				}
			}
		case ssa.CallInstruction:
			cc := x.Common()
			if b, ok := cc.Value.(*ssa.Builtin); ok {
				switch b.Name() {
				case "delete", "clear":
					add(x, true, b.Name())
				case "len", "cap", "append", "copy":
					add(x, false, b.Name())
				}
				continue
			}
			if !deep && !isMap && !isSlice {
				continue
			}
			idx := -1
			var args []ssa.Value
			if cc.IsInvoke() {
				args = append([]ssa.Value{cc.Value}, cc.Args...)
			} else {
				args = cc.Args
			}
			for i, a := range args {
				if a == v {
					idx = i
				}
			}
			if idx < 0 {
				continue
			}
			w := false
			callees := p.Callees(x)
			if len(callees) == 0 {
				w = true
			}
			for _, c := range callees {
				if mutatesThrough(p, c, idx) {
					w = true
				}
			}
			add(x, w, "call "+shortCallee(calleeName(cc)))
		}
	}
	return out
}

// elemUses: a value obtained by map lookup from a deep-guarded field (possibly through a comma-ok extract).
func elemUses(p *Prog, fn *ssa.Function, lk *ssa.Lookup, fk string, level int) []accessSite {
	var out []accessSite
	var vals []ssa.Value
	if lk.CommaOk {
		for _, r := range *lk.Referrers() {
			if ex, ok := r.(*ssa.Extract); ok && ex.Index == 0 {
				vals = append(vals, ex)
			}
		}
	} else {
		vals = append(vals, lk)
	}
	for _, v := range vals {
		if _, isPtr := v.Type().Underlying().(*types.Pointer); !isPtr {
			continue
		}
		out = append(out, usesOfValue(p, fn, v, fk, true, level+1)...)
		// spilled into a local variable and used from there
		for _, r := range *v.Referrers() {
			if st, ok := r.(*ssa.Store); ok && st.Val == v {
				if al, ok := cellAddr(st.Addr).(*ssa.Alloc); ok {
					for _, f := range allNested(al.Parent()) {
						instrsOf(f, func(in ssa.Instruction) {
							if u, ok := in.(*ssa.UnOp); ok && u.Op == token.MUL && cellAddr(u.X) == ssa.Value(al) {
								out = append(out, usesOfValue(p, f, u, fk, true, level+1)...)
							}
						})
					}
				}
			}
		}
	}
	return out
}

// stolenLoad: the loaded container was detached in the same critical section (the field is re-assigned a fresh value
// while the lock is still held), so later uses of the loaded value are private.
func stolenLoad(p *Prog, la *lockAnalysis, fn *ssa.Function, at ssa.Instruction, fk, lock string) bool {
	stolen := false
	instrsOf(fn, func(in ssa.Instruction) {
		st, ok := in.(*ssa.Store)
		if !ok {
			return
		}
		fa, ok := st.Addr.(*ssa.FieldAddr)
		if !ok || fieldKeyAddr(fa) != fk {
			return
		}
		switch p.origin(st.Val).(type) {
		case *ssa.MakeMap, *ssa.MakeSlice, *ssa.Const, *ssa.Alloc:
			if la.info[fn].before[st][lock] == 2 && canReach(st, at) {
				stolen = true
			}
		}
	})
	return stolen
}

func runEngineC(p *Prog, o *obls) {
	la := p.Locks()
	byField := guardIndex()
	wanted := map[string]bool{}
	deepOf := map[string]bool{}
	for fk, r := range byField {
		if p.Fixture != strings.HasPrefix(r.typ, "fixtures/") {
			continue
		}
		// the field now holds a registry type of the repository that carries its own mutex (the map and its lock were
		// moved into one self-synchronised type): the row's lock no longer governs it; the inner fields are unlisted
		// fields of a lock-bearing type and are checked by C4 (consistently guarded, inferred)
		if selfGuardedField(p, fk) {
			o.note("C1", fk, "-", "the guard table names this field, which now holds a self-synchronised type of the repository (it carries its own mutex): its inner fields are checked by C4")
			continue
		}
		wanted[fk] = true
		deepOf[fk] = r.deep
	}
	// ---- C1 ----
	acc := collectAccesses(p, wanted, deepOf)
	seenAt := map[string]bool{}
	resolved := map[string]int{}
	type agg struct {
		n      int
		bad    []string
		pos    string
		minPos string
	}
	groups := map[string]*agg{}
	var order []string
	for _, a := range acc {
		r := byField[a.field]
		id := fmt.Sprintf("%s|%p|%v", a.field, a.at, a.write)
		if seenAt[id] {
			continue
		}
		seenAt[id] = true
		resolved[a.field]++
		held := la.info[a.fn].before[a.at][r.lock]
		if r.writesOnly && !a.write {
			continue
		}
		need := 1
		mode := "read"
		if a.write {
			need = 2
			mode = "write"
		}
		gk := fmt.Sprintf("%s@%s:%s", a.field, funcKey(a.fn), mode)
		g := groups[gk]
		if g == nil {
			g = &agg{pos: p.instrPos(a.at)}
			groups[gk] = g
			order = append(order, gk)
		}
		g.n++
		if held >= need {
			continue
		}
		if outer := outerDeepGuard(p, a, deepOf, byField); outer != "" && la.info[a.fn].before[a.at][outer] >= need {
			continue // reached through a deep-guarded field whose guard is held
		}
		if held < need && !a.write && stolenLoad(p, la, a.fn, a.at, a.field, r.lock) {
			continue
		}
		if a.via == "load" && !a.write && held == 0 {
			// a bare load of a map/pointer-typed field whose value is only used under the lock is reported at the uses;
			// still, loading the field itself unlocked races with writers of the field
			if !fieldEverStoredShared(p, a.field) {
				continue
			}
		}
		hs := "not held"
		if held == 1 {
			hs = "only read-held"
		}
		g.bad = append(g.bad, fmt.Sprintf("%s (%s) at %s with %s %s (lockset %s)", mode, a.via, p.instrPos(a.at), r.lock, hs, la.info[a.fn].before[a.at]))
	}
	sort.Strings(order)
	for _, gk := range order {
		g := groups[gk]
		if len(g.bad) > 0 {
			o.bad("C1", gk, g.pos, strings.Join(g.bad, "; "))
		} else {
			o.ok("C1", gk, g.pos, fmt.Sprintf("%d access(es), guard held in the required mode at each", g.n))
		}
	}
	for fk := range wanted {
		if resolved[fk] == 0 {
			if gone, typeExists := fieldGone(p, fk); gone && typeExists {
				// the type is still there but has no such field any more (removed, or regrouped into a sub-struct):
				// nothing of that name is left to guard; whatever replaced it is an unlisted field, covered by C4
				o.note("C1", fk, "-", "the guard table names this field but the type no longer has it (removed or regrouped): the type's unlisted fields are checked by C4")
				continue
			}
			o.undecided("C1", fk, "-", "anchor unresolved: the guard table names this field but no shared access to it was found (checker needs update)")
		}
	}
	for _, pr := range la.pruned {
		o.note("C1", "pruned:"+pr[:strings.Index(pr, ":")], "-", pr)
	}
	runC6(p, o, la, acc, byField)
	runC6b(p, o, la, acc, byField)
	runC6c(p, o, la, byField)
	runC2(p, o, la)
	runC3(p, o, la)
	runC4(p, o, la, wanted)
	runC5(p, o, la)
	runC7(p, o, la)
}

// ---- C7: every lock a function acquires is released on every path to a return ------------------------------------------

// runC7: for each function that acquires a mutex itself, no return can be reached with that mutex still held unless
// its unlock is deferred. (A path that leaves the function holding the lock blocks every later user of the object.)
func runC7(p *Prog, o *obls, la *lockAnalysis) {
	for _, fn := range p.Funcs {
		li := la.info[fn]
		if li == nil || li.nAcq == 0 {
			continue
		}
		if _, isWrapper := lockWrapperOp(fn); isWrapper {
			continue // a lock()/unlock() helper: its callers are analysed as performing the operation
		}
		key := funcKey(fn) + ":balance"
		var bad []string
		// the converse: an Unlock reached after another Unlock of the same mutex with no Lock in between (a path that
		// skips the re-acquisition, an explicit unlock before the deferred one) is a fatal runtime error
		bad = append(bad, doubleUnlocks(p, fn, li, la.prunedE)...)
		if len(li.leaks) == 0 && len(bad) == 0 {
			o.ok("C7", key, p.Pos(fn.Pos()), fmt.Sprintf("%d acquisition(s), each released (or its release deferred) on every path to a return; no unlock follows an unlock without a lock in between", li.nAcq))
			continue
		}
		for _, l := range li.leaks {
			if !leakPathFeasible(p, l) {
				continue // every unlock-free path from the acquisition to this return contradicts itself (`if c {Lock}` … `if c {Unlock}`)
			}
			bad = append(bad, fmt.Sprintf("the return at %s can be reached with %s still held (acquired at %s, no deferred unlock): every later user of the object blocks", p.instrPos(l.ret), l.lock, p.instrPos(l.at)))
		}
		if len(bad) == 0 {
			o.ok("C7", key, p.Pos(fn.Pos()), fmt.Sprintf("%d acquisition(s), each released on every feasible path to a return (conditional lock/unlock pairs under the same condition)", li.nAcq))
			continue
		}
		sort.Strings(bad)
		o.bad("C7", key, p.Pos(fn.Pos()), strings.Join(dedupe(bad), "; "))
	}
}

// doubleUnlocks: feasible paths from one Unlock/RUnlock of a mutex to another (or to the function exit that runs a
// deferred one) without a Lock/RLock of it in between.
func doubleUnlocks(p *Prog, fn *ssa.Function, li *lockInfo, pruned map[[2]*ssa.BasicBlock]bool) []string {
	type ev struct {
		in   ssa.Instruction
		id   string
		kind string
	}
	var unlocks []ev
	deferAt := map[string]*ssa.Defer{}
	instrsOf(fn, func(in ssa.Instruction) {
		switch x := in.(type) {
		case *ssa.Call:
			if op, ok := lockOpOf(&x.Call); ok && (op.kind == "Unlock" || op.kind == "RUnlock") {
				unlocks = append(unlocks, ev{in, op.id, op.kind})
			}
		case *ssa.Defer:
			if op, ok := lockOpOf(&x.Call); ok && (op.kind == "Unlock" || op.kind == "RUnlock") {
				deferAt[op.id] = x
			}
		}
	})
	var out []string
	for _, u := range unlocks {
		isLock := func(in ssa.Instruction) bool {
			if c, ok := in.(*ssa.Call); ok {
				if op, ok := lockOpOf(&c.Call); ok && op.id == u.id && (op.kind == "Lock" || op.kind == "RLock") {
					return true
				}
			}
			return false
		}
		isTarget := func(in ssa.Instruction) bool {
			if in == u.in {
				return false
			}
			if c, ok := in.(*ssa.Call); ok {
				if op, ok := lockOpOf(&c.Call); ok && op.id == u.id && (op.kind == "Unlock" || op.kind == "RUnlock") {
					return true
				}
			}
			if _, ok := in.(*ssa.RunDefers); ok {
				if d := deferAt[u.id]; d != nil && (d.Block() == u.in.Block() && instrIndex(d) < instrIndex(u.in) || d.Block().Dominates(u.in.Block()) && d.Block() != u.in.Block()) {
					return true
				}
			}
			return false
		}
		if t := feasiblePathTo(p, u.in, isLock, isTarget, pruned); t != nil {
			what := "the unlock at " + p.instrPos(t)
			if _, isRD := t.(*ssa.RunDefers); isRD {
				what = "the deferred unlock run at the return at " + p.instrPos(t)
			}
			out = append(out, fmt.Sprintf("%s can be reached after the unlock of %s at %s without the mutex being locked again in between: unlocking an unlocked mutex is a fatal error that stops the process", what, u.id, p.instrPos(u.in)))
		}
	}
	return out
}

// feasiblePathTo: a CFG path from just after `from` to an instruction satisfying target that passes no instruction
// satisfying blocker and whose branch conditions do not contradict each other (or the facts that hold at from).
func feasiblePathTo(p *Prog, from ssa.Instruction, blocker, target func(ssa.Instruction) bool, pruned map[[2]*ssa.BasicBlock]bool) ssa.Instruction {
	start := from.Block()
	facts := map[string]bool{}
	for _, f := range dominatingFacts(start) {
		f = normFact(f)
		if k, ct, ok := p.canonFact(f.cond, f.truth); ok {
			facts[k] = ct
		}
	}
	budget := 4000
	var found ssa.Instruction
	var walk func(b *ssa.BasicBlock, from int, facts map[string]bool, onPath map[*ssa.BasicBlock]int) bool
	walk = func(b *ssa.BasicBlock, from int, facts map[string]bool, onPath map[*ssa.BasicBlock]int) bool {
		budget--
		if budget < 0 {
			return false // give up silently: this rule only reports paths it has found
		}
		for i := from; i < len(b.Instrs); i++ {
			if blocker(b.Instrs[i]) {
				return false
			}
			if target(b.Instrs[i]) {
				found = b.Instrs[i]
				return true
			}
		}
		c := ifCond(b)
		for si, sc := range b.Succs {
			if onPath[sc] >= 2 || pruned[[2]*ssa.BasicBlock{b, sc}] {
				continue // (an edge the lock analysis proved infeasible: the !ok branch of an assertion that cannot fail)
			}
			nf := facts
			if c != nil && b.Succs[0] != b.Succs[1] {
				f := normFact(condFact{c, si == 0})
				if k, ct, ok := p.canonFact(f.cond, f.truth); ok {
					if old, has := facts[k]; has && old != ct {
						continue
					}
					nf = map[string]bool{}
					for kk, vv := range facts {
						nf[kk] = vv
					}
					nf[k] = ct
				}
			}
			if sc.Dominates(b) {
				nf = map[string]bool{} // back edge: loop-carried values and re-evaluated conditions may differ in the next iteration
			}
			onPath[sc]++
			if walk(sc, 0, nf, onPath) {
				return true
			}
			onPath[sc]--
		}
		return false
	}
	if walk(start, instrIndex(from)+1, facts, map[*ssa.BasicBlock]int{start: 1}) {
		return found
	}
	return nil
}

// selfGuardedField: the field fk ("pkg.Type.field", canonical names) exists and its type (or pointee) is a named struct
// of the repository that has a sync.Mutex / sync.RWMutex field of its own.
func selfGuardedField(p *Prog, fk string) bool {
	i := strings.LastIndex(fk, ".")
	t := p.namedByKey(fk[:i])
	if t == nil {
		return false
	}
	st, ok := t.Underlying().(*types.Struct)
	if !ok {
		return false
	}
	for j := 0; j < st.NumFields(); j++ {
		if cFieldName(st.Field(j)) != fk[i+1:] {
			continue
		}
		// only a field that was given a new type since the guard table was confirmed (the map replaced by a registry
		// type): a field that always held a lock-bearing object is governed by its row as before
		if p.baseline != nil {
			if bt := p.baseline.Types[fk[:i]]; bt != nil {
				for _, bf := range bt.Fields {
					if bf.Name == fk[i+1:] && bf.Type == types.TypeString(st.Field(j).Type(), relQual) {
						return false
					}
				}
			}
		} else {
			return false
		}
		n := namedOf(deref(st.Field(j).Type()))
		if n == nil || n.Obj().Pkg() == nil {
			return false
		}
		path := n.Obj().Pkg().Path()
		if !strings.HasPrefix(path, modPath) && !strings.HasPrefix(path, "fixtures") {
			return false
		}
		inner, ok := n.Underlying().(*types.Struct)
		if !ok {
			return false
		}
		for k := 0; k < inner.NumFields(); k++ {
			if tk := typeKey(inner.Field(k).Type()); tk == "sync.Mutex" || tk == "sync.RWMutex" {
				return true
			}
		}
	}
	return false
}

// fieldGone: fk = "pkg.Type.field"; reports whether the type exists and whether it lacks a field of that (canonical) name.
func fieldGone(p *Prog, fk string) (gone, typeExists bool) {
	i := strings.LastIndex(fk, ".")
	t := p.namedByKey(fk[:i])
	if t == nil {
		return true, false
	}
	st, ok := t.Underlying().(*types.Struct)
	if !ok {
		return true, true
	}
	for j := 0; j < st.NumFields(); j++ {
		if cFieldName(st.Field(j)) == fk[i+1:] {
			return false, true
		}
	}
	return true, true
}

// outermostField climbs from a field address through enclosing struct-valued fields (s.inner.x → s.inner) to the field of
// the outermost struct that is held by value; stores into a regrouped sub-struct count as stores to that field.
func outermostField(fa *ssa.FieldAddr) *ssa.FieldAddr {
	for {
		outer, ok := fa.X.(*ssa.FieldAddr)
		if !ok {
			return fa
		}
		if _, isStruct := deref(outer.Type()).Underlying().(*types.Struct); !isStruct {
			return fa
		}
		fa = outer
	}
}

// outerDeepGuard: the accessed object is reached through a field that is deep-guarded (i.buffer.state): returns that
// outer guard's lock id.
func outerDeepGuard(p *Prog, a accessSite, deepOf map[string]bool, byField map[string]guardRow) string {
	fa, ok := a.at.(*ssa.UnOp)
	var addr ssa.Value
	if ok {
		addr = fa.X
	} else if st, ok := a.at.(*ssa.Store); ok {
		addr = st.Addr
	}
	for i := 0; i < 6 && addr != nil; i++ {
		f, ok := addr.(*ssa.FieldAddr)
		if !ok {
			break
		}
		// base of this field access: a load of another field?
		if u, ok := p.origin(f.X).(*ssa.UnOp); ok && u.Op == token.MUL {
			if of, ok := u.X.(*ssa.FieldAddr); ok {
				k := fieldKeyAddr(of)
				if deepOf[k] {
					return byField[k].lock
				}
				addr = of
				continue
			}
		}
		addr = f.X
	}
	return ""
}

// fieldEverStoredShared: the field itself (not its contents) is assigned outside construction.
func fieldEverStoredShared(p *Prog, fk string) bool {
	if p.sharedStoreCache == nil {
		p.sharedStoreCache = map[string]bool{}
		for _, f := range p.Funcs {
			if isOptionClosure(f) {
				continue
			}
			instrsOf(f, func(in ssa.Instruction) {
				if st, ok := in.(*ssa.Store); ok {
					if fa, ok := st.Addr.(*ssa.FieldAddr); ok && sharedBase(p, f, fa.X) {
						p.sharedStoreCache[fieldKeyAddr(fa)] = true
					}
				}
			})
		}
	}
	return p.sharedStoreCache[fk]
}

// ---- C2: confinement ------------------------------------------------------------------------------------------------

// onlyStoredTo: every use of the field address is a store to it.
func onlyStoredTo(fa *ssa.FieldAddr) bool {
	if fa.Referrers() == nil {
		return false
	}
	for _, r := range *fa.Referrers() {
		switch x := r.(type) {
		case *ssa.Store:
			if x.Addr != fa {
				return false
			}
		case *ssa.DebugRef:
		default:
			return false
		}
	}
	return true
}

// startsGoroutine: owner is reachable from fn — through calls, go statements and the closures fn makes (the go
// statement may sit in a spawn helper that is handed `func() { s.loop(w) }`).
func startsGoroutine(p *Prog, fn, owner *ssa.Function) bool {
	seen := map[*ssa.Function]bool{fn: true}
	work := []*ssa.Function{fn}
	for len(work) > 0 && len(seen) < 400 {
		f := work[0]
		work = work[1:]
		found := false
		push := func(c *ssa.Function) {
			if c == owner {
				found = true
			}
			if c != nil && !seen[c] && p.InUniverse(c) {
				seen[c] = true
				work = append(work, c)
			}
		}
		instrsOf(f, func(in ssa.Instruction) {
			switch x := in.(type) {
			case ssa.CallInstruction:
				for _, c := range p.Callees(x) {
					push(c)
				}
			case *ssa.MakeClosure:
				if c, ok := x.Fn.(*ssa.Function); ok {
					push(c)
				}
			}
		})
		if found {
			return true
		}
	}
	return false
}

func runC2(p *Prog, o *obls, la *lockAnalysis) {
	cg := p.CG()
	for _, row := range confinedTable {
		if p.Fixture != strings.HasPrefix(row.typ, "fixtures/") {
			continue
		}
		owner := resolveOwner(p, row.owner)
		if owner == nil {
			o.undecided("C2", row.typ, "-", "owner goroutine entry "+row.owner+" not found (checker needs update)")
			continue
		}
		// functions reachable from any root other than through the owner entry
		outside := reachableAvoiding(p, cg, owner)
		n := 0
		var bad []string
		for _, fn := range p.Funcs {
			if isOptionClosure(fn) {
				continue
			}
			// the function that starts the owner goroutine may prepare the confined state before the go statement
			starter := row.fields != nil && startsGoroutine(p, fn, owner)
			instrsOf(fn, func(in ssa.Instruction) {
				fa, ok := in.(*ssa.FieldAddr)
				if !ok || typeKey(fa.X.Type()) != row.typ {
					return
				}
				if row.fields != nil {
					fv := fieldOfAddr(fa)
					found := false
					for _, f := range row.fields {
						if fv != nil && cFieldName(fv) == f {
							found = true
						}
					}
					if !found {
						return
					}
				}
				if !sharedBase(p, fn, fa.X) {
					return
				}
				if starter && onlyStoredTo(fa) {
					return
				}
				n++
				if outside[fn] != "" {
					bad = append(bad, fmt.Sprintf("%s accessed at %s in %s, which is reachable outside the owner goroutine (%s)", fieldKeyAddr(fa), p.instrPos(fa), funcKey(fn), outside[fn]))
				}
			})
		}
		if n == 0 {
			o.undecided("C2", row.typ, "-", "anchor unresolved: no access to the confined type found")
			continue
		}
		if len(bad) > 0 {
			if len(bad) > 4 {
				bad = append(bad[:4], fmt.Sprintf("… and %d more", len(bad)-4))
			}
			o.bad("C2", row.typ, p.Pos(owner.Pos()), strings.Join(bad, "; "))
		} else {
			o.ok("C2", row.typ, p.Pos(owner.Pos()), fmt.Sprintf("%d access site(s), all in functions reachable only from %s (%s)", n, row.owner, row.reason))
		}
	}
}

// resolveOwner finds a goroutine entry: either a function key, or "go@F→G" = the function started by a go statement
// in F that is G or a literal that calls G (robust against renumbering of literals).
func resolveOwner(p *Prog, spec string) *ssa.Function {
	if !strings.HasPrefix(spec, "go@") {
		return p.FuncByKey(spec)
	}
	parts := strings.SplitN(spec[3:], "→", 2)
	if len(parts) != 2 {
		return nil
	}
	f := p.FuncByKey(parts[0])
	if f == nil {
		return nil
	}
	var found *ssa.Function
	for _, ff := range allNested(f) {
		instrsOf(ff, func(in ssa.Instruction) {
			g, ok := in.(*ssa.Go)
			if !ok {
				return
			}
			for _, c := range p.Callees(g) {
				if funcKey(c) == parts[1] {
					found = c
				}
				instrsOf(c, func(in2 ssa.Instruction) {
					if call, ok := in2.(ssa.CallInstruction); ok {
						// the goroutine's entry is a literal or a small named method that calls the owner
						if sc := call.Common().StaticCallee(); sc != nil && funcKey(sc) == parts[1] {
							found = c
						}
					}
				})
			}
		})
	}
	return found
}

// reachableAvoiding computes the functions reachable from the program's entry points without passing through `avoid`;
// the value is a short description of one path. Entry points: exported functions/methods, per-packet closures,
// goroutine entries other than avoid, function values.
func reachableAvoiding(p *Prog, cg interface{}, avoid *ssa.Function) map[*ssa.Function]string {
	out := map[*ssa.Function]string{}
	var work []*ssa.Function
	push := func(f *ssa.Function, why string) {
		if f == nil || f == avoid || !p.InUniverse(f) || out[f] != "" {
			return
		}
		out[f] = why
		work = append(work, f)
	}
	closures, _ := p.PktClosures()
	for _, c := range closures {
		push(c.Fn, "per-packet closure "+funcKey(c.Fn))
	}
	apiIfaces := []*types.Interface{p.rootIface("Interceptor"), p.rootIface("Factory"), p.rootIface("RTPWriter"), p.rootIface("RTPReader"), p.rootIface("RTCPWriter"), p.rootIface("RTCPReader")}
	for _, f := range p.Funcs {
		// the library's API: exported methods of types that implement one of the interceptor interfaces, and
		// exported package-level functions that are not constructors
		if f.Parent() == nil && isExportedName(f.Name()) && !isConstructor(p, f) {
			if recv := f.Signature.Recv(); recv != nil {
				isAPI := false
				for _, it := range apiIfaces {
					if it != nil && implementsIface(deref(recv.Type()), it) {
						isAPI = true
					}
				}
				if avoid.Signature.Recv() != nil && types.Identical(deref(recv.Type()), deref(avoid.Signature.Recv().Type())) {
					isAPI = true
				}
				if isAPI {
					push(f, "API method "+funcKey(f))
				}
			} else {
				push(f, "exported "+funcKey(f))
			}
		}
		instrsOf(f, func(in ssa.Instruction) {
			if g, ok := in.(*ssa.Go); ok {
				for _, c := range p.Callees(g) {
					push(c, "goroutine started in "+funcKey(f))
				}
			}
		})
	}
	for len(work) > 0 {
		f := work[len(work)-1]
		work = work[:len(work)-1]
		why := out[f]
		instrsOf(f, func(in ssa.Instruction) {
			if ci, ok := in.(ssa.CallInstruction); ok {
				if _, isGo := ci.(*ssa.Go); isGo {
					return
				}
				for _, c := range p.Callees(ci) {
					push(c, why+" → "+funcKey(c))
				}
			}
			if mc, ok := in.(*ssa.MakeClosure); ok {
				push(mc.Fn.(*ssa.Function), why+" → literal")
			}
		})
	}
	return out
}

// ---- C3: atomics ----------------------------------------------------------------------------------------------------

func runC3(p *Prog, o *obls, la *lockAnalysis) {
	atomicFields := map[string]bool{}
	for _, fn := range p.Funcs {
		instrsOf(fn, func(in ssa.Instruction) {
			c, ok := in.(ssa.CallInstruction)
			if !ok {
				return
			}
			sc := c.Common().StaticCallee()
			if sc == nil || sc.Pkg == nil || sc.Pkg.Pkg.Path() != "sync/atomic" {
				return
			}
			for _, a := range c.Common().Args {
				if fa, ok := a.(*ssa.FieldAddr); ok {
					atomicFields[fieldKeyAddr(fa)] = true
				}
			}
		})
	}
	for _, fk := range sortedKeys(atomicFields) {
		var bad []string
		n := 0
		for _, fn := range p.Funcs {
			instrsOf(fn, func(in ssa.Instruction) {
				fa, ok := in.(*ssa.FieldAddr)
				if !ok || fieldKeyAddr(fa) != fk || !sharedBase(p, fn, fa.X) {
					return
				}
				for _, r := range *fa.Referrers() {
					n++
					if c, ok := r.(ssa.CallInstruction); ok {
						if sc := c.Common().StaticCallee(); sc != nil && sc.Pkg != nil && sc.Pkg.Pkg.Path() == "sync/atomic" {
							continue
						}
					}
					bad = append(bad, fmt.Sprintf("non-atomic access (%s) at %s", instrBrief(r), p.instrPos(r)))
				}
			})
		}
		if len(bad) > 0 {
			o.bad("C3", fk, "-", "field is accessed through sync/atomic elsewhere but "+strings.Join(bad, "; "))
		} else {
			o.ok("C3", fk, "-", fmt.Sprintf("%d access(es), all through sync/atomic", n))
		}
	}
}

// ---- C4: unlisted fields of lock-bearing types are immutable after construction --------------------------------------

func runC4(p *Prog, o *obls, la *lockAnalysis, wanted map[string]bool) {
	// types that carry a mutex, or appear in the guard table
	lockTypes := map[string]bool{}
	for sp := range p.Universe {
		for _, m := range sp.Members {
			tn, ok := m.(*ssa.Type)
			if !ok {
				continue
			}
			st, ok := tn.Type().Underlying().(*types.Struct)
			if !ok {
				continue
			}
			for i := 0; i < st.NumFields(); i++ {
				k := typeKey(st.Field(i).Type())
				if k == "sync.Mutex" || k == "sync.RWMutex" {
					lockTypes[typeKey(tn.Type())] = true
				}
			}
		}
	}
	confined := map[string]bool{}
	confinedField := map[string]bool{}
	for _, r := range confinedTable {
		if r.fields == nil {
			confined[r.typ] = true
		}
		for _, f := range r.fields {
			confinedField[r.typ+"."+f] = true
		}
	}
	type site struct {
		pos  string
		fn   string
		lock lockset
	}
	writes := map[string][]site{}
	for _, fn := range p.Funcs {
		if isOptionClosure(fn) {
			continue
		}
		instrsOf(fn, func(in ssa.Instruction) {
			st, ok := in.(*ssa.Store)
			if !ok {
				return
			}
			fa, ok := st.Addr.(*ssa.FieldAddr)
			if !ok {
				return
			}
			fa = outermostField(fa)
			tk := typeKey(fa.X.Type())
			if !lockTypes[tk] || confined[tk] {
				return
			}
			fk := fieldKeyAddr(fa)
			if wanted[fk] || confinedField[fk] || !sharedBase(p, fn, fa.X) {
				return
			}
			k := typeKey(fieldOfAddr(fa).Type())
			if k == "sync.Mutex" || k == "sync.RWMutex" || k == "sync.WaitGroup" {
				return
			}
			writes[fk] = append(writes[fk], site{p.instrPos(st), funcKey(fn), la.info[fn].before[st]})
		})
	}
	// a field the table does not list but whose every shared access (read or write) holds one and the same mutex of
	// its own struct — exclusively at the writes — is consistently guarded: inferred, listed as a note, not a violation
	inferred := map[string]string{}
	{
		type accLS struct {
			ls    lockset
			write bool
		}
		accs := map[string][]accLS{}
		for _, fn := range p.Funcs {
			if isOptionClosure(fn) {
				continue
			}
			instrsOf(fn, func(in ssa.Instruction) {
				fa, ok := in.(*ssa.FieldAddr)
				if !ok {
					return
				}
				fk := fieldKeyAddr(fa)
				if _, isW := writes[fk]; !isW || !sharedBase(p, fn, fa.X) {
					return
				}
				var classify func(addr ssa.Value, d int)
				classify = func(addr ssa.Value, d int) {
					if addr.Referrers() == nil || d > 4 {
						return
					}
					for _, r := range *addr.Referrers() {
						switch x := r.(type) {
						case *ssa.Store:
							if x.Addr == addr {
								accs[fk] = append(accs[fk], accLS{la.info[fn].before[x], true})
							}
						case *ssa.UnOp:
							accs[fk] = append(accs[fk], accLS{la.info[fn].before[x], false})
						case *ssa.FieldAddr:
							// a field of a sub-struct held by value: classify by what is done with that address
							if x.X == addr {
								classify(x, d+1)
							}
						case *ssa.DebugRef:
						default:
							accs[fk] = append(accs[fk], accLS{la.info[fn].before[r], true})
						}
					}
				}
				classify(fa, 0)
			})
		}
		for fk, as := range accs {
			owner := fk[:strings.LastIndex(fk, ".")]
			var cand map[string]bool
			for _, a := range as {
				cur := map[string]bool{}
				for l, m := range a.ls {
					if strings.HasPrefix(l, owner+".") && (m == 2 || !a.write) {
						cur[l] = true
					}
				}
				if cand == nil {
					cand = cur
				} else {
					for l := range cand {
						if !cur[l] {
							delete(cand, l)
						}
					}
				}
			}
			if len(cand) > 0 {
				inferred[fk] = sortedKeys(cand)[0]
			}
		}
	}
	badByType := map[string][]string{}
	for _, fk := range sortedKeys(writes) {
		ss := writes[fk]
		if why, ok := setupTimeSetters[fk]; ok {
			o.note("C4", fk, ss[0].pos, "accepted: "+why)
			continue
		}
		if l, ok := inferred[fk]; ok {
			o.note("C4", fk, ss[0].pos, "not in the guard table, but every shared access holds "+l+" (exclusively at writes): consistently guarded (inferred)")
			continue
		}
		var w []string
		for _, s := range ss {
			w = append(w, fmt.Sprintf("%s in %s holding %s", s.pos, s.fn, s.lock))
		}
		tk := fk[:strings.LastIndex(fk, ".")]
		badByType[tk] = append(badByType[tk], fmt.Sprintf("%s assigned on a shared object at %s", fk, strings.Join(w, "; ")))
	}
	for _, tk := range sortedKeys(lockTypes) {
		if confined[tk] {
			continue
		}
		if b := badByType[tk]; len(b) > 0 {
			o.bad("C4", tk, "-", "field(s) of a lock-bearing type that the guard table does not list (claimed immutable after construction) are written after construction: "+strings.Join(b, " | "))
		} else {
			o.ok("C4", tk, "-", "no store to an unlisted field of a shared object outside constructors, option closures and listed setup-time setters")
		}
	}
}

// ---- C5: lock order, re-acquisition, waiting under a lock ---------------------------------------------------------------

// acquiresOf returns the locks a function may acquire, transitively through universe callees (not through go).
func (la *lockAnalysis) acquiresOf(f *ssa.Function, seen map[*ssa.Function]bool) map[string]string {
	if r, ok := la.p.acqCache[f]; ok {
		return r
	}
	if seen[f] {
		return nil
	}
	seen[f] = true
	out := map[string]string{}
	instrsOf(f, func(in ssa.Instruction) {
		ci, ok := in.(ssa.CallInstruction)
		if !ok {
			return
		}
		if _, isGo := ci.(*ssa.Go); isGo {
			return
		}
		if op, ok := lockOpOf(ci.Common()); ok {
			if op.kind == "Lock" || op.kind == "RLock" {
				if _, dup := out[op.id]; !dup {
					out[op.id] = la.p.instrPos(in)
				}
			}
			return
		}
		if ci.Common().IsInvoke() && isChainIface(la.p, ci.Common().Value.Type()) {
			return // the downstream writer / upstream reader is another object; holding a private lock across it is noted, not armed (DESIGN §3 C5)
		}
		for _, c := range la.p.CalleesU(ci) {
			if !la.p.InUniverse(c) {
				continue
			}
			for k, v := range la.acquiresOf(c, seen) {
				if _, dup := out[k]; !dup {
					out[k] = v + " ← " + la.p.instrPos(in)
				}
			}
		}
	})
	delete(seen, f)
	if la.p.acqCache == nil {
		la.p.acqCache = map[*ssa.Function]map[string]string{}
	}
	if len(seen) == 0 {
		la.p.acqCache[f] = out
	}
	return out
}

func runC5(p *Prog, o *obls, la *lockAnalysis) {
	edges := map[string]map[string]string{} // held → acquired → witness
	addEdge := func(a, b, w string) {
		if edges[a] == nil {
			edges[a] = map[string]string{}
		}
		if _, ok := edges[a][b]; !ok {
			edges[a][b] = w
		}
	}
	nAcq := 0
	for _, fn := range p.Funcs {
		instrsOf(fn, func(in ssa.Instruction) {
			ci, ok := in.(ssa.CallInstruction)
			if !ok {
				return
			}
			if _, isGo := ci.(*ssa.Go); isGo {
				return
			}
			held := la.info[fn].before[in]
			if _, isDefer := ci.(*ssa.Defer); isDefer {
				return
			}
			if op, ok := lockOpOf(ci.Common()); ok {
				if op.kind == "Lock" || op.kind == "RLock" {
					nAcq++
					for h := range held {
						addEdge(h, op.id, fmt.Sprintf("%s acquired at %s in %s while holding %s", op.id, p.instrPos(in), funcKey(fn), h))
					}
				}
				return
			}
			if len(held) == 0 {
				return
			}
			if ci.Common().IsInvoke() && isChainIface(p, ci.Common().Value.Type()) {
				return
			}
			for _, c := range p.Callees(ci) {
				if !p.InUniverse(c) {
					continue
				}
				// receiver identity: only calls on the same object can re-acquire the same (type, field) lock of it
				for k, w := range la.acquiresOf(c, map[*ssa.Function]bool{}) {
					for h := range held {
						if h == k && !sameReceiverCall(p, ci, fn) {
							continue
						}
						addEdge(h, k, fmt.Sprintf("%s acquired (%s) via call at %s in %s while holding %s", k, w, p.instrPos(in), funcKey(fn), h))
					}
				}
			}
		})
	}
	// self edges = re-acquisition of a non-reentrant mutex; cycles = lock order inversion
	allLocks := map[string]bool{}
	for a, m := range edges {
		allLocks[a] = true
		for b := range m {
			allLocks[b] = true
		}
	}
	for _, fn := range p.Funcs {
		instrsOf(fn, func(in ssa.Instruction) {
			if ci, ok := in.(ssa.CallInstruction); ok {
				if op, ok := lockOpOf(ci.Common()); ok {
					allLocks[op.id] = true
				}
			}
		})
	}
	problems := map[string][]string{}
	for a := range edges {
		if w, ok := edges[a][a]; ok {
			problems[a] = append(problems[a], "non-reentrant mutex may be acquired while already held: "+w)
		}
	}
	// cycle detection (excluding self edges)
	color := map[string]int{}
	var stack []string
	var dfs func(n string)
	dfs = func(n string) {
		color[n] = 1
		stack = append(stack, n)
		for _, m := range sortedKeys(edges[n]) {
			if m == n {
				continue
			}
			if color[m] == 1 {
				i := len(stack) - 1
				for i >= 0 && stack[i] != m {
					i--
				}
				cyc := append(append([]string{}, stack[i:]...), m)
				var ws []string
				for j := 0; j+1 < len(cyc); j++ {
					ws = append(ws, edges[cyc[j]][cyc[j+1]])
				}
				msg := "lock order cycle " + strings.Join(cyc, " → ") + ": " + strings.Join(ws, "; ")
				for _, l := range cyc[:len(cyc)-1] {
					problems[l] = append(problems[l], msg)
				}
			} else if color[m] == 0 {
				dfs(m)
			}
		}
		stack = stack[:len(stack)-1]
		color[n] = 2
	}
	for _, a := range sortedKeys(allLocks) {
		if color[a] == 0 {
			dfs(a)
		}
	}
	nEdges := 0
	for _, m := range edges {
		nEdges += len(m)
	}
	for _, l := range sortedKeys(allLocks) {
		if pr := problems[l]; len(pr) > 0 {
			o.bad("C5", "order:"+l, "-", strings.Join(pr, " | "))
		} else {
			o.ok("C5", "order:"+l, "-", fmt.Sprintf("not on a cycle of the held→acquired graph (%d acquisition sites, %d edges) and never re-acquired while held", nAcq, nEdges))
		}
	}
	runC5Wait(p, o, la)
}

// sameReceiverCall: the call passes this function's own receiver as the callee's receiver.
func sameReceiverCall(p *Prog, ci ssa.CallInstruction, fn *ssa.Function) bool {
	args := ci.Common().Args
	if ci.Common().IsInvoke() || len(args) == 0 {
		return false
	}
	top := fn
	for top.Parent() != nil {
		top = top.Parent()
	}
	if top.Signature.Recv() == nil || len(top.Params) == 0 {
		return false
	}
	return p.origin(args[0]) == ssa.Value(top.Params[0])
}

// runC5Wait: WaitGroup.Wait or a blocking channel operation executed while a lock is held is a deadlock iff the
// counterpart (goroutines accounted to that WaitGroup / functions at the other end of the channel) can need that lock.
func runC5Wait(p *Prog, o *obls, la *lockAnalysis) {
	// goroutine entries per WaitGroup field: go statements in functions that Add on that WaitGroup
	goEntries := map[string][]*ssa.Function{}
	for _, fn := range p.Funcs {
		var wgs []string
		instrsOf(fn, func(in ssa.Instruction) {
			if c, ok := in.(*ssa.Call); ok && isCallTo(&c.Call, "(*sync.WaitGroup).Add") {
				if fa, ok := c.Call.Args[0].(*ssa.FieldAddr); ok {
					wgs = append(wgs, fieldKeyAddr(fa))
				}
			}
		})
		if len(wgs) == 0 {
			continue
		}
		instrsOf(fn, func(in ssa.Instruction) {
			if g, ok := in.(*ssa.Go); ok {
				for _, c := range p.Callees(g) {
					for _, w := range wgs {
						goEntries[w] = append(goEntries[w], c)
					}
				}
			}
		})
	}
	// channel field → functions operating on it, by direction
	type chanUse struct {
		fn   *ssa.Function
		send bool
	}
	chanUsers := map[string][]chanUse{}
	identsOf := map[ssa.Value][]string{}
	idents := func(v ssa.Value) []string {
		if r, ok := identsOf[v]; ok {
			return r
		}
		r := sortedKeys(chanIdents(p, v))
		identsOf[v] = r
		return r
	}
	chanOf := func(v ssa.Value) string {
		ids := idents(v)
		// prefer a struct field name for the key
		for _, id := range ids {
			if !strings.HasPrefix(id, "make@") && !strings.HasPrefix(id, "call:") {
				return id
			}
		}
		if len(ids) > 0 {
			return ids[0]
		}
		return ""
	}
	addUser := func(v ssa.Value, u chanUse) {
		for _, id := range idents(v) {
			chanUsers[id] = append(chanUsers[id], u)
		}
	}
	usersOf := func(v ssa.Value) []chanUse {
		var out []chanUse
		seen := map[string]bool{}
		for _, id := range idents(v) {
			for _, u := range chanUsers[id] {
				k := fmt.Sprintf("%p/%v", u.fn, u.send)
				if !seen[k] {
					seen[k] = true
					out = append(out, u)
				}
			}
		}
		return out
	}
	for _, fn := range p.Funcs {
		instrsOf(fn, func(in ssa.Instruction) {
			switch x := in.(type) {
			case *ssa.Send:
				addUser(x.Chan, chanUse{fn, true})
			case *ssa.UnOp:
				if x.Op == token.ARROW {
					addUser(x.X, chanUse{fn, false})
				}
			case *ssa.Select:
				for _, st := range x.States {
					addUser(st.Chan, chanUse{fn, st.Dir == types.SendOnly})
				}
			case *ssa.Range:
				if _, isChan := x.X.Type().Underlying().(*types.Chan); isChan {
					addUser(x.X, chanUse{fn, false})
				}
			}
		})
	}
	n := 0
	for _, fn := range p.Funcs {
		instrsOf(fn, func(in ssa.Instruction) {
			held := la.info[fn].before[in]
			if d, ok := in.(*ssa.Defer); ok {
				// deferred Wait runs at exit with the locks whose unlock was deferred *before* it still... LIFO: defers
				// registered later run first; a Wait deferred first runs last, after the deferred unlocks
				if isCallTo(&d.Call, "(*sync.WaitGroup).Wait") {
					// locks with deferred unlock registered before this defer are still held when it runs
					ls := lockset{}
					for k, v := range held {
						if la.info[fn].deferU[k] && deferredBefore(fn, d, k) {
							ls[k] = v
						} else if la.entry[fn][k] > 0 && !la.info[fn].deferU[k] {
							// held by the caller for the whole call, deferred calls included
							ls[k] = v
						}
					}
					held = ls
				} else {
					return
				}
			}
			if len(held) == 0 {
				return
			}
			key := ""
			var counterparts []*ssa.Function
			what := ""
			switch x := in.(type) {
			case *ssa.Call, *ssa.Defer:
				cc := x.(ssa.CallInstruction).Common()
				if !isCallTo(cc, "(*sync.WaitGroup).Wait") {
					return
				}
				if fa, ok := cc.Args[0].(*ssa.FieldAddr); ok {
					key = fieldKeyAddr(fa)
					counterparts = goEntries[key]
					what = "WaitGroup.Wait on " + key
				}
			case *ssa.Send:
				key = chanOf(x.Chan)
				for _, u := range usersOf(x.Chan) {
					if !u.send {
						counterparts = append(counterparts, u.fn)
					}
				}
				what = "blocking send on " + key
			case *ssa.UnOp:
				if x.Op != token.ARROW {
					return
				}
				key = chanOf(x.X)
				for _, u := range usersOf(x.X) {
					if u.send {
						counterparts = append(counterparts, u.fn)
					}
				}
				what = "blocking receive on " + key
			case *ssa.Select:
				if !x.Blocking {
					return
				}
				// a blocking select with a case on a lifecycle channel can still wait for its counterpart; treat each state
				for _, st := range x.States {
					k := chanOf(st.Chan)
					for _, u := range usersOf(st.Chan) {
						if u.send != (st.Dir == types.SendOnly) {
							counterparts = append(counterparts, u.fn)
						}
					}
					key += k + ","
				}
				what = "blocking select on " + key
			default:
				return
			}
			if key == "" {
				return
			}
			n++
			construct := fmt.Sprintf("wait:%s@%s", key, funcKey(fn))
			var bad []string
			for _, c := range counterparts {
				// the counterpart needs L if it (transitively) acquires L, or any caller chain up to its goroutine entry does
				acq := la.acquiresOf(c, map[*ssa.Function]bool{})
				for h := range held {
					if w, ok := acq[h]; ok {
						bad = append(bad, fmt.Sprintf("%s can acquire %s (%s)", funcKey(c), h, w))
					}
					if la.entry[c][h] > 0 && c != fn {
						bad = append(bad, fmt.Sprintf("%s runs with %s held by its caller", funcKey(c), h))
					}
				}
			}
			if len(bad) > 0 {
				o.bad("C5", construct, p.instrPos(in), fmt.Sprintf("%s while holding %s, and the counterpart can need that lock: %s", what, held, strings.Join(bad, "; ")))
			} else {
				o.ok("C5", construct, p.instrPos(in), fmt.Sprintf("%s while holding %s: %d counterpart function(s), none can acquire a held lock", what, held, len(counterparts)))
			}
		})
	}
	_ = n
	// C5 (through a call): a repository function that can block in a select is called with a lock held that the
	// function itself does not know about (it is exported, other callers hold nothing). The call is judged like the
	// select: it is a wait that only its counterparts can end — the goroutine that serves the channel of a send case,
	// the function that closes the channel of a receive case. If every case's way out needs the lock held at the call
	// (the serving goroutine is only ever started by a function that takes that lock first; the closing function
	// takes it), the caller waits for something that waits for the caller.
	closersOf := map[string][]*ssa.Function{}
	startersOf := map[*ssa.Function][]ssa.Instruction{}
	for _, fn := range p.Funcs {
		instrsOf(fn, func(in ssa.Instruction) {
			switch x := in.(type) {
			case *ssa.Call:
				if builtinName(&x.Call) == "close" && len(x.Call.Args) == 1 {
					for _, id := range idents(x.Call.Args[0]) {
						closersOf[id] = append(closersOf[id], fn)
					}
				}
			case *ssa.Go:
				for _, c := range p.Callees(x) {
					startersOf[c] = append(startersOf[c], in)
					// go func() { …; s.loop() }(): the functions the literal calls directly run on that goroutine too
					if c.Parent() == fn {
						instrsOf(c, func(in2 ssa.Instruction) {
							if ci, ok := in2.(ssa.CallInstruction); ok {
								if sc := ci.Common().StaticCallee(); sc != nil && p.InUniverse(sc) {
									startersOf[sc] = append(startersOf[sc], in)
								}
							}
						})
					}
				}
			}
		})
	}
	for _, fn := range p.Funcs {
		if fn.Blocks == nil || !p.InUniverse(fn) || la.info[fn] == nil {
			continue
		}
		instrsOf(fn, func(in ssa.Instruction) {
			call, ok := in.(*ssa.Call)
			if !ok {
				return
			}
			g := call.Call.StaticCallee()
			if g == nil || !p.InUniverse(g) || g.Blocks == nil || g == fn {
				return
			}
			if _, isLockOp := lockOpOf(&call.Call); isLockOp {
				return
			}
			held := la.info[fn].before[in]
			if len(held) == 0 {
				return
			}
			// locks the callee does not already know to be held on entry
			extra := lockset{}
			for k, v := range held {
				if la.entry[g][k] == 0 {
					extra[k] = v
				}
			}
			if len(extra) == 0 {
				return
			}
			instrsOf(g, func(in2 ssa.Instruction) {
				sel, ok := in2.(*ssa.Select)
				if !ok || !sel.Blocking || len(sel.States) == 0 {
					return
				}
				var reasons []string
				for _, st := range sel.States {
					blocked := ""
					if st.Dir == types.SendOnly {
						// served by receivers; each must be unable to run without a held lock
						var recvs []*ssa.Function
						for _, u := range usersOf(st.Chan) {
							if !u.send && u.fn != g {
								recvs = append(recvs, u.fn)
							}
						}
						if len(recvs) == 0 {
							return
						}
						all := true
						for _, r := range recvs {
							needs := false
							for h := range extra {
								if _, ok := la.acquiresOf(r, map[*ssa.Function]bool{})[h]; ok {
									needs = true
								}
								starts := startersOf[r]
								if len(starts) > 0 {
									every := true
									for _, sIn := range starts {
										sf := sIn.Parent()
										if la.info[sf] == nil || la.info[sf].before[sIn][h] == 0 {
											every = false
										}
									}
									if every {
										needs = true
										blocked = fmt.Sprintf("%s, which receives from %s, is only started with %s held (%s)", funcKey(r), chanOf(st.Chan), h, p.instrPos(starts[0]))
									}
								}
							}
							if !needs {
								all = false
							}
						}
						if !all {
							return
						}
						if blocked == "" {
							blocked = "every receiver of " + chanOf(st.Chan) + " can need a held lock"
						}
					} else {
						// a receive: ended by a send or by close; only the lifecycle form (never sent to, closed somewhere)
						var closers []*ssa.Function
						for _, id := range idents(st.Chan) {
							closers = append(closers, closersOf[id]...)
						}
						sent := false
						for _, u := range usersOf(st.Chan) {
							if u.send {
								sent = true
							}
						}
						if sent || len(closers) == 0 {
							return
						}
						for _, c := range closers {
							needs := false
							for h := range extra {
								if w, ok := la.acquiresOf(c, map[*ssa.Function]bool{})[h]; ok {
									needs = true
									blocked = fmt.Sprintf("%s, which closes %s, takes %s (%s)", funcKey(c), chanOf(st.Chan), h, w)
								}
							}
							if !needs {
								return
							}
						}
					}
					reasons = append(reasons, blocked)
				}
				construct := fmt.Sprintf("wait-through:%s@%s", funcKey(g), funcKey(fn))
				o.bad("C5", construct, p.instrPos(in), fmt.Sprintf("%s is called while holding %s and can block in the select at %s; every case of that select waits for something that needs the held lock: %s", funcKey(g), extra, p.instrPos(sel), strings.Join(reasons, "; ")))
			})
		})
	}
}

// deferredBefore: the deferred unlock of lock k is registered before instruction d in program order (so it runs after d's
// deferred call).
func deferredBefore(fn *ssa.Function, d ssa.Instruction, k string) bool {
	res := false
	instrsOf(fn, func(in ssa.Instruction) {
		if df, ok := in.(*ssa.Defer); ok && df != d {
			if op, ok := lockOpOf(&df.Call); ok && op.id == k && instrDominates(df, d) {
				res = true
			}
		}
	})
	return res
}

// ---- C6: read-modify-write of a guarded field happens inside one critical section -----------------------------------

// runC6: a value stored to a guarded field that is computed from an earlier read of the same field must be stored
// while the lock has been held continuously since that read; releasing the lock in between loses concurrent updates.
func runC6(p *Prog, o *obls, la *lockAnalysis, acc []accessSite, byField map[string]guardRow) {
	type fnField struct {
		fn *ssa.Function
		f  string
	}
	reads := map[fnField][]accessSite{}
	writes := map[fnField][]accessSite{}
	for _, a := range acc {
		k := fnField{a.fn, a.field}
		if a.write {
			writes[k] = append(writes[k], a)
		} else {
			reads[k] = append(reads[k], a)
		}
	}
	var keys []fnField
	for k := range writes {
		keys = append(keys, k)
	}
	sort.Slice(keys, func(i, j int) bool {
		if keys[i].f != keys[j].f {
			return keys[i].f < keys[j].f
		}
		return funcKey(keys[i].fn) < funcKey(keys[j].fn)
	})
	for _, k := range keys {
		lock := byField[k.f].lock
		// unlock sites of this lock in the function
		var unlocks []ssa.Instruction
		instrsOf(k.fn, func(in ssa.Instruction) {
			if c, ok := in.(*ssa.Call); ok {
				if op, ok := lockOpOf(&c.Call); ok && op.id == lock && (op.kind == "Unlock" || op.kind == "RUnlock") {
					unlocks = append(unlocks, c)
				}
			}
		})
		nRMW := 0
		var bad []string
		seenW := map[ssa.Instruction]bool{}
		for _, w := range writes[k] {
			st, ok := w.at.(*ssa.Store)
			if !ok || seenW[st] {
				continue
			}
			seenW[st] = true
			seenR := map[ssa.Instruction]bool{}
			for _, r := range reads[k] {
				rv, ok := r.at.(ssa.Value)
				if !ok || seenR[r.at] {
					continue
				}
				seenR[r.at] = true
				if _, isLoad := r.at.(*ssa.UnOp); !isLoad {
					continue
				}
				if !refishOrScalarDerived(p, st.Val, rv) {
					continue
				}
				if !canReach(r.at, st) {
					continue
				}
				nRMW++
				for _, u := range unlocks {
					if canReach(r.at, u) && canReach(u, st) && !canReachAvoiding(r.at, st, u) {
						bad = append(bad, fmt.Sprintf("the value stored at %s is computed from the read at %s, but %s is released at %s in between: an update made by another goroutine in that window is overwritten",
							p.instrPos(st), p.instrPos(r.at), lock, p.instrPos(u)))
					}
				}
			}
		}
		if nRMW == 0 {
			continue
		}
		key := fmt.Sprintf("%s@%s", k.f, funcKey(k.fn))
		if len(bad) > 0 {
			o.bad("C6", key, p.Pos(k.fn.Pos()), strings.Join(dedupe(bad), "; "))
		} else {
			o.ok("C6", key, p.Pos(k.fn.Pos()), fmt.Sprintf("%d read-modify-write dependence(s), the guard is held continuously from the read to the store", nRMW))
		}
	}
}

// runC6c: look-up and removal in two critical sections. `delete(m, k)` on a guarded map after the entry m[k] was looked
// up — directly, or through a getter that takes the guard itself — in an earlier critical section of the same function
// removes whatever is bound under k *now*: if the stream was re-bound in between, the new entry is removed while the old
// one was cleaned up. The removal must happen in the critical section of the look-up, or look the entry up again.
func runC6c(p *Prog, o *obls, la *lockAnalysis, byField map[string]guardRow) {
	mapField := func(v ssa.Value) string {
		u, ok := p.origin(v).(*ssa.UnOp)
		if !ok || u.Op != token.MUL {
			return ""
		}
		fa, ok := u.X.(*ssa.FieldAddr)
		if !ok {
			return ""
		}
		return fieldKeyAddr(fa)
	}
	// getters: repository functions that acquire a lock, look a parameter up in a guarded map and return
	type getter struct {
		field string
		param int
	}
	getters := map[*ssa.Function]getter{}
	for _, fn := range p.Funcs {
		if la.info[fn] == nil || la.info[fn].nAcq == 0 {
			continue
		}
		instrsOf(fn, func(in ssa.Instruction) {
			lk, ok := in.(*ssa.Lookup)
			if !ok {
				return
			}
			fk := mapField(lk.X)
			row, guarded := byField[fk]
			if !guarded || la.info[fn].before[lk][row.lock] == 0 {
				return
			}
			if par, ok := p.origin(lk.Index).(*ssa.Parameter); ok {
				for i, q := range fn.Params {
					if q == par {
						getters[fn] = getter{fk, i}
					}
				}
			}
		})
	}
	for _, fn := range p.Funcs {
		li := la.info[fn]
		if li == nil {
			continue
		}
		n := 0
		var bad []string
		instrsOf(fn, func(in ssa.Instruction) {
			del, ok := in.(*ssa.Call)
			if !ok || builtinName(&del.Call) != "delete" {
				return
			}
			fk := mapField(del.Call.Args[0])
			row, guarded := byField[fk]
			if !guarded || li.before[del][row.lock] == 0 {
				return
			}
			kk := p.pureKey(del.Call.Args[1])
			// the guard is released on some path from a to b that does not execute a again (a later execution of the
			// look-up, in the next iteration of an enclosing loop, is a new look-up in a new critical section)
			unlockBetween := func(a, b ssa.Instruction) bool {
				found := false
				instrsOf(fn, func(x ssa.Instruction) {
					if c, ok := x.(*ssa.Call); ok {
						if op, ok := lockOpOf(&c.Call); ok && op.id == row.lock && (op.kind == "Unlock" || op.kind == "RUnlock") && reachWithout(a, x, a) && reachWithout(x, b, a) {
							found = true
						}
					}
				})
				return found
			}
			// a look-up of the same entry in the removal's own critical section re-validates
			revalidated := false
			instrsOf(fn, func(x ssa.Instruction) {
				if lk, ok := x.(*ssa.Lookup); ok && mapField(lk.X) == fk && p.pureKey(lk.Index) == kk && canReach(lk, del) && li.before[lk][row.lock] > 0 && !unlockBetween(lk, del) {
					revalidated = true
				}
			})
			var earlier []string
			instrsOf(fn, func(x ssa.Instruction) {
				switch y := x.(type) {
				case *ssa.Lookup:
					if mapField(y.X) == fk && p.pureKey(y.Index) == kk && canReach(y, del) && unlockBetween(y, del) {
						earlier = append(earlier, "the look-up at "+p.instrPos(y))
					}
				case *ssa.Call:
					sc := y.Call.StaticCallee()
					g, isGetter := getters[sc]
					if !isGetter || g.field != fk || g.param >= len(y.Call.Args) || !canReach(y, del) || li.before[y][row.lock] > 0 {
						return
					}
					if p.pureKey(y.Call.Args[g.param]) == kk {
						earlier = append(earlier, fmt.Sprintf("the look-up through %s at %s", shortCallee(funcKey(sc)), p.instrPos(y)))
					}
				}
			})
			if len(earlier) == 0 {
				return
			}
			n++
			if !revalidated {
				bad = append(bad, fmt.Sprintf("delete(%s, …) at %s removes the entry that is bound under the key now, but the entry was chosen by %s in an earlier critical section of %s: a re-bind in between is removed in place of the stream that was looked up", fk, p.instrPos(del), strings.Join(dedupe(earlier), ", "), row.lock))
			}
		})
		if n == 0 {
			continue
		}
		key := funcKey(fn) + ":lookup-delete"
		if len(bad) > 0 {
			o.bad("C6", key, p.Pos(fn.Pos()), strings.Join(dedupe(bad), "; "))
		} else {
			o.ok("C6", key, p.Pos(fn.Pos()), fmt.Sprintf("%d removal(s) after an earlier look-up, each re-validated in its own critical section", n))
		}
	}
}

// reachWithout: control can flow from just after `from` to `to` without executing `avoid` on the way.
func reachWithout(from, to, avoid ssa.Instruction) bool {
	fb, tb, ab := from.Block(), to.Block(), avoid.Block()
	fi, ti, ai := instrIndex(from), instrIndex(to), instrIndex(avoid)
	if fb == tb && fi < ti && !(ab == fb && ai > fi && ai < ti) {
		return true
	}
	// leaving from's block: must not pass avoid later in that block
	if ab == fb && ai > fi {
		return false
	}
	seen := map[*ssa.BasicBlock]bool{}
	work := append([]*ssa.BasicBlock{}, fb.Succs...)
	for len(work) > 0 {
		b := work[len(work)-1]
		work = work[:len(work)-1]
		if seen[b] {
			continue
		}
		seen[b] = true
		if b == tb {
			if !(ab == tb && ai < ti) {
				return true
			}
			continue // the target lies behind avoid in this block
		}
		if b == ab {
			continue
		}
		work = append(work, b.Succs...)
	}
	return false
}

// runC6b: membership decided in an earlier critical section. A map update on a guarded map whose key was obtained from
// another field guarded by the same lock (ranging over / looking up a registry, or a snapshot of it) must happen in the
// critical section that read that field: once the lock was released in between, the entry the key came from may be
// gone (the stream was unbound) and the update re-creates state for it.
func runC6b(p *Prog, o *obls, la *lockAnalysis, acc []accessSite, byField map[string]guardRow) {
	readsIn := map[*ssa.Function][]accessSite{}
	for _, a := range acc {
		if !a.write {
			if _, isLoad := a.at.(*ssa.UnOp); isLoad {
				readsIn[a.fn] = append(readsIn[a.fn], a)
			}
		}
	}
	for _, fn := range p.Funcs {
		var bad []string
		n := 0
		instrsOf(fn, func(in ssa.Instruction) {
			mu, ok := in.(*ssa.MapUpdate)
			if !ok {
				return
			}
			u, ok := p.origin(mu.Map).(*ssa.UnOp)
			if !ok {
				return
			}
			fa, ok := u.X.(*ssa.FieldAddr)
			if !ok {
				return
			}
			row, ok := byField[fieldKeyAddr(fa)]
			if !ok {
				return
			}
			var unlocks []ssa.Instruction
			instrsOf(fn, func(i2 ssa.Instruction) {
				if c, ok := i2.(*ssa.Call); ok {
					if op, ok := lockOpOf(&c.Call); ok && op.id == row.lock && (op.kind == "Unlock" || op.kind == "RUnlock") {
						unlocks = append(unlocks, c)
					}
				}
			})
			seenR := map[ssa.Instruction]bool{}
			for _, r := range readsIn[fn] {
				if seenR[r.at] || r.field == fieldKeyAddr(fa) || byField[r.field].lock != row.lock {
					continue
				}
				seenR[r.at] = true
				rv := r.at.(ssa.Value)
				if !p.backwardReaches(mu.Key, func(v ssa.Value) bool { return v == rv }) || !canReach(r.at, mu) {
					continue
				}
				n++
				for _, ul := range unlocks {
					if canReach(r.at, ul) && canReach(ul, mu) && !canReachAvoiding(r.at, mu, ul) {
						bad = append(bad, fmt.Sprintf("the key of the update of %s at %s comes from %s read at %s, but %s is released at %s in between: the entry may have been removed meanwhile and the update re-creates state for it",
							fieldKeyAddr(fa), p.instrPos(mu), r.field, p.instrPos(r.at), row.lock, p.instrPos(ul)))
					}
				}
			}
		})
		if n == 0 {
			continue
		}
		key := funcKey(fn) + ":keyed-update"
		if len(bad) > 0 {
			o.bad("C6", key, p.Pos(fn.Pos()), strings.Join(dedupe(bad), "; "))
		} else {
			o.ok("C6", key, p.Pos(fn.Pos()), fmt.Sprintf("%d map update(s) keyed from another field of the same guard, each in the critical section that read it", n))
		}
	}
}

// refishOrScalarDerived: the stored value depends on the value read (through arithmetic, calls, local copies).
func refishOrScalarDerived(p *Prog, stored, read ssa.Value) bool {
	return p.backwardReaches(stored, func(v ssa.Value) bool { return v == read })
}

// canReachAvoiding: there is a path from a to b that does not execute instruction avoid.
func canReachAvoiding(a, b, avoid ssa.Instruction) bool {
	// block-level search; within a block respect instruction order
	type node struct {
		b   *ssa.BasicBlock
		idx int // start index within the block
	}
	start := node{a.Block(), instrIndex(a) + 1}
	seen := map[*ssa.BasicBlock]bool{}
	var walk func(n node) bool
	walk = func(n node) bool {
		instrs := n.b.Instrs
		for i := n.idx; i < len(instrs); i++ {
			if instrs[i] == avoid {
				return false
			}
			if instrs[i] == b {
				return true
			}
		}
		for _, s := range n.b.Succs {
			if seen[s] {
				continue
			}
			seen[s] = true
			if walk(node{s, 0}) {
				return true
			}
		}
		return false
	}
	return walk(start)
}

// leakPathFeasible: there is a path from the acquisition to the return that executes no unlock of the lock and whose
// branch conditions (canonical keys, strictly pure or computed once) do not contradict each other or the facts that
// dominate the acquisition.
func leakPathFeasible(p *Prog, l lockLeak) bool {
	start := l.at.Block()
	isUnlock := func(in ssa.Instruction) bool {
		if c, ok := in.(*ssa.Call); ok {
			if op, ok := lockOpOf(&c.Call); ok && op.id == l.lock && (op.kind == "Unlock" || op.kind == "RUnlock") {
				return true
			}
		}
		return false
	}
	facts := map[string]bool{}
	for _, f := range dominatingFacts(start) {
		f = normFact(f)
		if k, ct, ok := p.canonFact(f.cond, f.truth); ok {
			facts[k] = ct
		}
	}
	budget := 4000
	var walk func(b *ssa.BasicBlock, from int, facts map[string]bool, onPath map[*ssa.BasicBlock]int) bool
	walk = func(b *ssa.BasicBlock, from int, facts map[string]bool, onPath map[*ssa.BasicBlock]int) bool {
		budget--
		if budget < 0 {
			return true // give up: report
		}
		for i := from; i < len(b.Instrs); i++ {
			if isUnlock(b.Instrs[i]) {
				return false
			}
			if b.Instrs[i] == ssa.Instruction(l.ret) {
				return true
			}
		}
		c := ifCond(b)
		for si, sc := range b.Succs {
			if onPath[sc] >= 2 {
				continue
			}
			nf := facts
			if c != nil && b.Succs[0] != b.Succs[1] {
				f := normFact(condFact{c, si == 0})
				if k, ct, ok := p.canonFact(f.cond, f.truth); ok {
					if old, has := facts[k]; has && old != ct {
						continue
					}
					nf = map[string]bool{}
					for kk, vv := range facts {
						nf[kk] = vv
					}
					nf[k] = ct
				}
			}
			onPath[sc]++
			if walk(sc, 0, nf, onPath) {
				return true
			}
			onPath[sc]--
		}
		return false
	}
	return walk(start, instrIndex(l.at)+1, facts, map[*ssa.BasicBlock]int{start: 1})
}
