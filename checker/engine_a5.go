package main

// A5 — no write into a nil Attributes map. interceptor.Attributes is a map; its methods Set, GetRTPHeader and
// GetRTCPPackets store into the receiver, which panics on a nil map. Attributes arrive from callers and from wrapped
// readers and are allowed to be nil, so every call of a storing method has a receiver that is known non-nil there:
// a fresh map, a value tested against nil on the way (`if a == nil { a = make(…) }` merges a fresh map on one edge
// and the tested value on the other), or a parameter of a helper whose every caller passes such a value.

import (
	"fmt"
	"go/token"
	"go/types"

	"golang.org/x/tools/go/ssa"
)

func init() {
	registerEngine("A5", []string{"A5"}, runEngineA5)
}

// storingMethods: methods of the root package's Attributes type (fixtures: fxAttrs) that store into their receiver.
func storingMethods(p *Prog) map[*ssa.Function]bool {
	out := map[*ssa.Function]bool{}
	for _, f := range p.Funcs {
		recv := f.Signature.Recv()
		if recv == nil || f.Parent() != nil {
			continue
		}
		if _, isMap := recv.Type().Underlying().(*types.Map); !isMap {
			continue
		}
		if tk := typeKey(recv.Type()); tk != "interceptor.Attributes" && tk != "fixtures/fx.fxAttrs" {
			continue
		}
		instrsOf(f, func(in ssa.Instruction) {
			if mu, ok := in.(*ssa.MapUpdate); ok && p.origin(mu.Map) == ssa.Value(f.Params[0]) {
				out[f] = true
			}
		})
	}
	return out
}

// nonNilMap: v is known to be a non-nil map at block b (edge facts of the incoming edge included).
func (p *Prog) nonNilMap(v ssa.Value, b *ssa.BasicBlock, edge []condFact, depth int) bool {
	if depth > 6 {
		return false
	}
	vo := p.origin(v)
	switch x := vo.(type) {
	case *ssa.MakeMap:
		return true
	case *ssa.Phi:
		for i, e := range x.Edges {
			pr := x.Block().Preds[i]
			var ef []condFact
			if c := ifCond(pr); c != nil && pr.Succs[0] != pr.Succs[1] {
				ef = append(ef, condFact{c, pr.Succs[0] == x.Block()})
			}
			if !p.nonNilMap(e, pr, ef, depth+1) {
				return false
			}
		}
		return true
	case *ssa.Call:
		// a helper that normalises its argument (ensureAttributes): every return of it is non-nil
		if sc := x.Call.StaticCallee(); sc != nil && p.InUniverse(sc) && sc.Blocks != nil && depth < 4 {
			all, n := true, 0
			for _, rb := range sc.Blocks {
				ret, ok := rb.Instrs[len(rb.Instrs)-1].(*ssa.Return)
				if !ok || len(ret.Results) == 0 {
					continue
				}
				n++
				if !p.nonNilMap(ret.Results[0], rb, nil, depth+2) {
					all = false
				}
			}
			if all && n > 0 {
				return true
			}
		}
	case *ssa.Extract:
		// one result of a helper that also returns an error (`n, attr, err := readWithAttributes(…)`): where the error
		// is known nil, the result is non-nil if every return of the helper that can carry a nil error returns a
		// non-nil map
		if c, ok := x.Tuple.(*ssa.Call); ok && depth < 4 {
			sc := c.Call.StaticCallee()
			fe := errExtract(c)
			if sc != nil && p.InUniverse(sc) && sc.Blocks != nil && fe != nil && p.nilnessAt(fe, b) == -1 {
				all, n := true, 0
				for _, rb := range sc.Blocks {
					ret, ok := rb.Instrs[len(rb.Instrs)-1].(*ssa.Return)
					if !ok || x.Index >= len(ret.Results) {
						continue
					}
					if p.nonNilError(ret.Results[len(ret.Results)-1], rb) {
						continue // an error return: not the branch we are on
					}
					n++
					if !p.nonNilMap(ret.Results[x.Index], rb, nil, depth+2) {
						all = false
					}
				}
				if all && n > 0 {
					return true
				}
			}
		}
	case *ssa.UnOp:
		// a load from a local cell (the variable was spilled, e.g. because a closure captures it)
		if al, ok := cellAddr(x.X).(*ssa.Alloc); ok && x.Op == token.MUL {
			if p.cellNonNilAt(al, x) {
				return true
			}
		}
	case *ssa.Parameter:
		if p.nilKnown(vo, b, edge) == 1 {
			return true
		}
		args, sites, closed := p.argsForParam(x)
		if !closed || len(args) == 0 {
			return false
		}
		for i, a := range args {
			in, _ := sites[i].(ssa.Instruction)
			if in == nil || !p.nonNilMap(a, in.Block(), nil, depth+1) {
				return false
			}
		}
		return true
	}
	return p.nilKnown(vo, b, edge) == 1
}

// nilKnown: 1 = v is known non-nil at b, -1 = known nil, 0 = unknown (dominating facts plus the given edge facts).
func (p *Prog) nilKnown(v ssa.Value, b *ssa.BasicBlock, edge []condFact) int {
	for _, f := range append(dominatingFacts(b), edge...) {
		f = normFact(f)
		k, ct, ok := p.canonFact(f.cond, f.truth)
		_ = k
		bo, isBin := f.cond.(*ssa.BinOp)
		if !ok && !isBin {
			continue
		}
		if !isBin {
			continue
		}
		var other ssa.Value
		if isNilConst(bo.Y) {
			other = bo.X
		} else if isNilConst(bo.X) {
			other = bo.Y
		} else {
			continue
		}
		if p.origin(other) != v {
			continue
		}
		_ = ct
		isEq := bo.Op.String() == "=="
		if isEq == f.truth {
			return -1
		}
		return 1
	}
	return 0
}

func runEngineA5(p *Prog, o *obls) {
	storing := storingMethods(p)
	if len(storing) == 0 {
		o.undecided("A5", "Attributes", "-", "anchor unresolved: no storing method of the Attributes map type found")
		return
	}
	seen := map[string]int{}
	for _, fn := range p.Funcs {
		if storing[fn] {
			continue
		}
		instrsOf(fn, func(in ssa.Instruction) {
			c, ok := in.(*ssa.Call)
			if !ok {
				return
			}
			sc := c.Call.StaticCallee()
			if sc == nil || !storing[sc] || len(c.Call.Args) == 0 {
				return
			}
			key := fmt.Sprintf("%s:%s", funcKey(fn), sc.Name())
			seen[key]++
			if seen[key] > 1 {
				key = fmt.Sprintf("%s#%d", key, seen[key])
			}
			if p.nonNilMap(c.Call.Args[0], c.Block(), nil, 0) {
				o.ok("A5", key, p.instrPos(c), "the receiver of the storing Attributes method is a fresh map or was tested against nil on every path")
			} else {
				o.bad("A5", key, p.instrPos(c), fmt.Sprintf("%s stores into its receiver %s, which may be nil here (attributes handed in by a caller or returned by the wrapped reader may be nil; no test of this value against nil on some path): assignment to entry in nil map", sc.Name(), valueString(c.Call.Args[0])))
			}
		})
	}
}

// cellNonNilAt: forward dataflow over the function for one local cell holding a map: after `*cell = v` the content is
// non-nil iff v is; on the edge of a branch `load(cell) == nil` that says "not nil" the content is non-nil (the load
// and the branch are in one block with no store to the cell in between). A store to the cell from another function
// (a closure that captured it) makes the answer unknown.
func (p *Prog) cellNonNilAt(cell *ssa.Alloc, use *ssa.UnOp) bool {
	fn := cell.Parent()
	for _, f := range allNested(fn) {
		if f == fn {
			continue
		}
		bad := false
		instrsOf(f, func(in ssa.Instruction) {
			if st, ok := in.(*ssa.Store); ok && cellAddr(st.Addr) == ssa.Value(cell) {
				bad = true
			}
		})
		if bad {
			return false
		}
	}
	const (
		unk = 0
		nn  = 1
		mn  = 2
	)
	in := map[*ssa.BasicBlock]int{}
	out := map[*ssa.BasicBlock]int{}
	edgeOut := map[[2]*ssa.BasicBlock]int{}
	result := unk
	step := func(b *ssa.BasicBlock, st int, record bool) int {
		var lastLoad *ssa.UnOp
		for _, ins := range b.Instrs {
			switch x := ins.(type) {
			case *ssa.Store:
				if cellAddr(x.Addr) == ssa.Value(cell) {
					if p.nonNilMap(x.Val, b, nil, 3) {
						st = nn
					} else {
						st = mn
					}
					lastLoad = nil
				}
			case *ssa.UnOp:
				if x.Op == token.MUL && cellAddr(x.X) == ssa.Value(cell) {
					lastLoad = x
					if record && x == use {
						result = st
					}
				}
			}
		}
		// branch on the last load of the cell compared with nil
		if c := ifCond(b); c != nil && lastLoad != nil && len(b.Succs) == 2 {
			f := normFact(condFact{c, true})
			if bo, ok := f.cond.(*ssa.BinOp); ok && (bo.Op == token.EQL || bo.Op == token.NEQ) {
				var other ssa.Value
				if isNilConst(bo.Y) {
					other = bo.X
				} else if isNilConst(bo.X) {
					other = bo.Y
				}
				if other == ssa.Value(lastLoad) {
					// f.truth is the polarity of the true edge w.r.t. cond; succ0 = cond true
					eqTrueOnSucc0 := (bo.Op == token.EQL) == f.truth
					if eqTrueOnSucc0 {
						edgeOut[[2]*ssa.BasicBlock{b, b.Succs[1]}] = nn
					} else {
						edgeOut[[2]*ssa.BasicBlock{b, b.Succs[0]}] = nn
					}
				}
			}
		}
		return st
	}
	in[fn.Blocks[0]] = mn
	for iter := 0; iter < 50; iter++ {
		changed := false
		for _, b := range fn.Blocks {
			if b != fn.Blocks[0] {
				st := unk
				for _, pr := range b.Preds {
					o, ok := out[pr]
					if !ok {
						continue
					}
					if e, has := edgeOut[[2]*ssa.BasicBlock{pr, b}]; has {
						o = e
					}
					switch {
					case st == unk:
						st = o
					case st != o:
						st = mn
					}
				}
				if st != in[b] {
					in[b] = st
					changed = true
				}
			}
			o := step(b, in[b], false)
			if prev, ok := out[b]; !ok || prev != o {
				out[b] = o
				changed = true
			}
		}
		if !changed {
			break
		}
	}
	for _, b := range fn.Blocks {
		step(b, in[b], true)
	}
	return result == nn
}
