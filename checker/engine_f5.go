package main

// F5 — integer division and remainder by a value that is not a constant: the divisor is known non-zero where the
// operation executes. Decided forms: a dominating comparison of the same expression with a constant that excludes
// zero (x != 0, x > 0, !(x <= 0), x >= 1 …, also `if x == 0 { return }`), a φ whose every incoming value is non-zero on
// its edge, a product of non-zero factors. A divisor that is a field assigned only by constructors and option
// closures (ring sizes, history sizes) is a configuration constant whose validation happens at construction: it is
// listed as a note, not decided. Anything else is reported: the operation panics for the input that makes the divisor
// zero.

import (
	"fmt"
	"go/token"
	"go/types"

	"golang.org/x/tools/go/ssa"
)

func fF5(p *Prog, o *obls, fn *ssa.Function) {
	seen := map[string]int{}
	instrsOf(fn, func(in ssa.Instruction) {
		bo, ok := in.(*ssa.BinOp)
		if !ok || (bo.Op != token.QUO && bo.Op != token.REM) {
			return
		}
		if b, ok := bo.Type().Underlying().(*types.Basic); !ok || b.Info()&types.IsInteger == 0 {
			// a ratio of two counts computed in floating point — float64(lost) / float64(total) — does not panic for
			// total == 0 but yields NaN (0/0) or ±Inf: fed into an exponential average the NaN stays for ever and
			// every later comparison with a threshold is false. The integer divisor is judged like an integer division.
			if ok && b.Info()&types.IsFloat != 0 && bo.Op == token.QUO {
				cx, okx := p.origin(bo.X).(*ssa.Convert)
				cy, oky := p.origin(bo.Y).(*ssa.Convert)
				if okx && oky {
					_, _, ix := intInfo(cx.X.Type())
					_, _, iy := intInfo(cy.X.Type())
					// only a *count*: a length, or a counter accumulated on the way (a φ) — differences of sequence numbers,
					// durations and configuration values are value questions this rule does not decide
					isCount := false
					switch d := p.origin(cy.X).(type) {
					case *ssa.Phi:
						isCount = true
					case *ssa.Call:
						isCount = builtinName(&d.Call) == "len"
					}
					if _, isC := cy.X.(*ssa.Const); ix && iy && !isC && isCount {
						key := fmt.Sprintf("%s:ratio by %s", funcKey(fn), shortExpr(p, cy.X))
						seen[key]++
						if seen[key] > 1 {
							key = fmt.Sprintf("%s#%d", key, seen[key])
						}
						verdict, why := p.nonZero(cy.X, bo.Block(), nil, 0)
						switch verdict {
						case 1:
							o.ok("F5", key, p.instrPos(bo), why)
						case 2:
							o.note("F5", key, p.instrPos(bo), why)
						default:
							o.bad("F5", key, p.instrPos(bo), "a ratio of counts is divided by "+shortExpr(p, cy.X)+", which is not tested against zero on the way ("+why+"): 0/0 is NaN, and a NaN that enters a running average never leaves it")
						}
					}
				}
			}
			return
		}
		if _, isC := bo.Y.(*ssa.Const); isC {
			return
		}
		key := fmt.Sprintf("%s:%s by %s", funcKey(fn), bo.Op, shortExpr(p, bo.Y))
		seen[key]++
		if seen[key] > 1 {
			key = fmt.Sprintf("%s#%d", key, seen[key])
		}
		verdict, why := p.nonZero(bo.Y, bo.Block(), nil, 0)
		switch verdict {
		case 1:
			o.ok("F5", key, p.instrPos(bo), why)
		case 2:
			o.note("F5", key, p.instrPos(bo), why)
		default:
			o.bad("F5", key, p.instrPos(bo), "integer "+bo.Op.String()+" by "+shortExpr(p, bo.Y)+", which is not tested against zero on the way ("+why+"): the operation panics for the input or setting that makes it zero")
		}
	})
}

// nonZero: 1 = proven non-zero at block b, 2 = a construction-time configuration field (not decided), 0 = unknown.
func (p *Prog) nonZero(v ssa.Value, b *ssa.BasicBlock, edge []condFact, depth int) (int, string) {
	if depth > 6 {
		return 0, "too deep"
	}
	if c, ok := constInt(p.origin(v)); ok {
		if c != 0 {
			return 1, "non-zero constant"
		}
		return 0, "constant zero"
	}
	key := p.pureKey(v)
	for _, f := range append(dominatingFacts(b), edge...) {
		f = normFact(f)
		cmp, ok := f.cond.(*ssa.BinOp)
		if !ok || !isComparison(cmp.Op) && cmp.Op != token.EQL && cmp.Op != token.NEQ {
			continue
		}
		x, y, op := cmp.X, cmp.Y, cmp.Op
		if _, isC := constInt(p.origin(x)); isC {
			x, y = y, x
			switch op {
			case token.LSS:
				op = token.GTR
			case token.LEQ:
				op = token.GEQ
			case token.GTR:
				op = token.LSS
			case token.GEQ:
				op = token.LEQ
			}
		}
		c, isC := constInt(p.origin(y))
		if !isC || p.pureKey(x) != key {
			continue
		}
		unsigned := false
		if bt, ok := x.Type().Underlying().(*types.Basic); ok && bt.Info()&types.IsUnsigned != 0 {
			unsigned = true
		}
		excl := false
		switch {
		case op == token.EQL && c == 0 && !f.truth, op == token.NEQ && c == 0 && f.truth:
			excl = true
		case op == token.GTR && c >= 0 && f.truth, op == token.GEQ && c >= 1 && f.truth:
			excl = true
		case op == token.LEQ && c >= 0 && !f.truth, op == token.LSS && c >= 1 && !f.truth: // !(x <= c), !(x < c)
			excl = true
		case op == token.LSS && c <= 0 && f.truth && !unsigned, op == token.LEQ && c <= -1 && f.truth && !unsigned:
			excl = true
		case op == token.EQL && c != 0 && f.truth:
			excl = true
		}
		if excl {
			return 1, "a dominating test excludes zero (" + valueString(cmp) + " at " + p.instrPosV(cmp) + ")"
		}
	}
	switch x := p.origin(v).(type) {
	case *ssa.Phi:
		worst := 1
		for i, e := range x.Edges {
			// the branch taken out of the predecessor into the φ's block is known on this edge
			pr := x.Block().Preds[i]
			var ef []condFact
			if c := ifCond(pr); c != nil && pr.Succs[0] != pr.Succs[1] {
				ef = append(ef, condFact{c, pr.Succs[0] == x.Block()})
			}
			r, _ := p.nonZero(e, pr, ef, depth+1)
			if r == 0 {
				return 0, "one incoming value of the merged divisor is not known non-zero"
			}
			if r == 2 {
				worst = 2
			}
		}
		if worst == 2 {
			return 2, "merged from configuration fields"
		}
		return 1, "every incoming value of the merged divisor is non-zero on its edge"
	case *ssa.BinOp:
		if x.Op == token.MUL {
			r1, _ := p.nonZero(x.X, b, edge, depth+1)
			r2, _ := p.nonZero(x.Y, b, edge, depth+1)
			if r1 == 1 && r2 == 1 {
				return 1, "product of non-zero factors"
			}
			if r1 != 0 && r2 != 0 {
				return 2, "product involving a configuration field"
			}
		}
	case *ssa.Convert:
		return p.nonZero(x.X, b, edge, depth+1)
	case *ssa.Call:
		// max(x, c) with a positive constant is at least c
		if bn := builtinName(&x.Call); bn == "max" {
			for _, a := range x.Call.Args {
				if c, ok := constInt(p.origin(a)); ok && c > 0 {
					return 1, "max(…) with a positive constant"
				}
			}
		}
		// len of a slice field every assignment of which is a make with a non-zero length (a ring that is allocated with
		// a positive capacity and only ever replaced by a bigger one)
		if bn := builtinName(&x.Call); bn == "len" || bn == "cap" {
			if u, ok := p.origin(x.Call.Args[0]).(*ssa.UnOp); ok && u.Op == token.MUL {
				if fa, ok := u.X.(*ssa.FieldAddr); ok {
					if fv := fieldOfAddr(fa); fv != nil {
						sts := p.storesToField(fv)
						all := len(sts) > 0
						for _, st := range sts {
							switch ms := p.origin(st.Val).(type) {
							case *ssa.MakeSlice:
								if r, _ := p.nonZero(ms.Len, st.Block(), nil, depth+1); r != 1 {
									all = false
								}
							case *ssa.Slice:
								// make([]T, N) with a constant N is built as a slice of a new [N]T
								al, isAl := ms.X.(*ssa.Alloc)
								at, isArr := types.Type(nil), false
								if isAl {
									at = deref(al.Type()).Underlying()
									_, isArr = at.(*types.Array)
								}
								highOK := ms.High == nil
								if c, isC := constInt(ms.High); ms.High != nil && isC && c > 0 {
									highOK = true
								}
								if !isAl || !isArr || at.(*types.Array).Len() == 0 || !highOK || ms.Low != nil {
									all = false
								}
							default:
								all = false
							}
						}
						if all {
							return 1, "length of a slice field that is only ever assigned make(…, n) with n > 0"
						}
					}
				}
			}
		}
		// len of a slice field that is only assigned at construction (a ring sized once)
		if bn := builtinName(&x.Call); bn == "len" || bn == "cap" {
			if u, ok := p.origin(x.Call.Args[0]).(*ssa.UnOp); ok && u.Op == token.MUL {
				if r, why := p.nonZero(u, b, edge, depth+1); r == 2 {
					return 2, "length of a slice that is " + why[len("the divisor is "):]
				}
			}
		}
	case *ssa.UnOp:
		if x.Op == token.MUL {
			if fa, ok := x.X.(*ssa.FieldAddr); ok {
				fv := fieldOfAddr(fa)
				onlyCtor := fv != nil
				for _, st := range p.storesToField(fv) {
					f := st.Parent()
					if !isConstructor(p, f) && !isOptionClosure(f) && sharedBase(p, f, st.Addr.(*ssa.FieldAddr).X) {
						onlyCtor = false
					}
				}
				if onlyCtor {
					return 2, "the divisor is the field " + fieldKeyAddr(fa) + ", assigned only at construction: a configuration constant whose validation is not decided here"
				}
			}
		}
	}
	return 0, "no dominating comparison of the divisor with zero"
}
