package main

// T8 — a walk that ends on equality starts from a different number. `for i := a + 1; i != b; i++` visits the numbers
// strictly between a and b — when b differs from a. With b equal to a the first value is already past the end and
// the walk goes all the way round the integer type before it meets b: 65535 iterations over a 16-bit sequence space,
// each of which releases or overwrites whatever slot the number maps to. Such loops are written behind a test that
// excludes the equal case (a duplicate of the newest packet returns early), and a clean-up that removes that test
// — "let the duplicate take the slot like any other" — turns one duplicate packet into a wipe of the whole ring.
//
// For every loop whose variable starts at x+1 (or x−1) and whose only exit condition is `i != b` / `i == b`: the loop
// is dominated by a fact that b differs from x (b != x, or the difference b−x / x−b compared with zero).

import (
	"fmt"
	"go/token"
	"strings"

	"golang.org/x/tools/go/ssa"
)

func init() {
	registerEngine("T8", []string{"T8"}, runEngineT8)
}

func runEngineT8(p *Prog, o *obls) {
	n := 0
	for _, fn := range p.Funcs {
		if fn.Blocks == nil || !p.InUniverse(fn) {
			continue
		}
		k := 0
		for _, b := range fn.Blocks {
			c := ifCond(b)
			if c == nil || len(b.Succs) != 2 {
				continue
			}
			bo, ok := c.(*ssa.BinOp)
			if !ok || bo.Op != token.NEQ && bo.Op != token.EQL {
				continue
			}
			// one side is a loop-carried φ of this block: i = φ(start, i±1)
			var phi *ssa.Phi
			var bound ssa.Value
			for _, pair := range [][2]ssa.Value{{bo.X, bo.Y}, {bo.Y, bo.X}} {
				if ph, ok := pair[0].(*ssa.Phi); ok && ph.Block() == b {
					phi, bound = ph, pair[1]
				}
			}
			if phi == nil || len(phi.Edges) != 2 {
				continue
			}
			if _, _, isInt := intInfo(phi.Type()); !isInt {
				continue
			}
			var start ssa.Value
			stepOK := false
			for _, e := range phi.Edges {
				if st, ok := e.(*ssa.BinOp); ok && (st.Op == token.ADD || st.Op == token.SUB) && st.X == ssa.Value(phi) && isConstInt(st.Y, 1) {
					stepOK = true
				} else {
					start = e
				}
			}
			if !stepOK || start == nil {
				continue
			}
			sb, ok := start.(*ssa.BinOp)
			if !ok || sb.Op != token.ADD && sb.Op != token.SUB || !isConstInt(sb.Y, 1) {
				continue
			}
			x := sb.X
			// the bound must not change inside the loop (not a φ of this block)
			if bp, ok := bound.(*ssa.Phi); ok && bp.Block() == b {
				continue
			}
			// a bound that is itself "one past" something (i != end+1, starting at last+1) walks the closed range
			// last+1 … end; its degenerate case is an invariant between the two cursors, not a missing test
			if bb, ok := p.origin(bound).(*ssa.BinOp); ok && (bb.Op == token.ADD || bb.Op == token.SUB) {
				if _, isC := bb.Y.(*ssa.Const); isC {
					continue
				}
			}
			n++
			k++
			key := fmt.Sprintf("%s:walk#%d", funcKey(fn), k)
			kx, kb := p.pureKey(x), p.pureKey(bound)
			// differsIn: among the facts, one says that the two numbers (recognised by isX / isB) differ
			differsIn := func(facts []condFact, isX, isB func(ssa.Value) bool) bool {
				// a condition kept in a variable (`isNewer := diff > 0 && diff < half; if isNewer {`) is a φ of the
				// constant false and the last conjunct: where the φ is true, the only edge that can have produced it
				// was taken, and with it everything that dominates that edge
				for k := 0; k < len(facts) && k < 64; k++ {
					f := normFact(facts[k])
					ph, ok := f.cond.(*ssa.Phi)
					if !ok || !f.truth {
						continue
					}
					var live []int
					for i, e := range ph.Edges {
						if v, isC := constBool(e); isC && !v {
							continue
						}
						live = append(live, i)
					}
					if len(live) == 1 {
						i := live[0]
						facts = append(facts, condFact{ph.Edges[i], true})
						facts = append(facts, dominatingFacts(ph.Block().Preds[i])...)
						if c := ifCond(ph.Block().Preds[i]); c != nil && len(ph.Block().Preds[i].Succs) == 2 && ph.Block().Preds[i].Succs[0] != ph.Block().Preds[i].Succs[1] {
							facts = append(facts, condFact{c, ph.Block().Preds[i].Succs[0] == ph.Block()})
						}
					}
				}
				for _, f := range facts {
					f = normFact(f)
					fb, ok := f.cond.(*ssa.BinOp)
					if !ok {
						continue
					}
					ne := fb.Op == token.NEQ && f.truth || fb.Op == token.EQL && !f.truth
					strict := (fb.Op == token.LSS || fb.Op == token.GTR) && f.truth || (fb.Op == token.LEQ || fb.Op == token.GEQ) && !f.truth
					if !ne && !strict {
						continue
					}
					if isX(fb.X) && isB(fb.Y) || isB(fb.X) && isX(fb.Y) {
						return true
					}
					// (b − x) compared with zero
					for _, pair := range [][2]ssa.Value{{fb.X, fb.Y}, {fb.Y, fb.X}} {
						d, ok := p.origin(pair[0]).(*ssa.BinOp)
						if !ok || d.Op != token.SUB || !isConstInt(pair[1], 0) {
							continue
						}
						if isX(d.X) && isB(d.Y) || isB(d.X) && isX(d.Y) {
							return true
						}
					}
				}
				return false
			}
			local := func(w ssa.Value, kw string) func(ssa.Value) bool {
				return func(v ssa.Value) bool {
					return v == w || p.origin(v) == p.origin(w) || kw != "" && p.pureKey(v) == kw
				}
			}
			differs := differsIn(dominatingFacts(b), local(x, kx), local(bound, kb))
			if !differs && kx != "" && kb != "" && fn.Parent() == nil {
				// the walk sits in a helper: the test is made by every caller (advanceEnd(seq) called behind
				// `diff := seq - s.end; if diff == 0 { return }`), on the caller's names for the same two numbers
				differs = p.allCallersSatisfy(fn, func(site ssa.CallInstruction) bool {
					args := site.Common().Args
					cx, cb := kx, kb
					for i, par := range fn.Params {
						if i < len(args) {
							pk := p.pureKey(par)
							if pk == "" {
								continue
							}
							ak := p.pureKey(p.origin(args[i]))
							cx = strings.ReplaceAll(cx, pk, ak)
							cb = strings.ReplaceAll(cb, pk, ak)
						}
					}
					byKey := func(k string) func(ssa.Value) bool {
						return func(v ssa.Value) bool { return k != "" && (p.pureKey(v) == k || p.pureKey(p.origin(v)) == k) }
					}
					return differsIn(dominatingFactsInstr(site), byKey(cx), byKey(cb))
				}, 2)
			}
			if differs {
				o.ok("T8", key, p.instrPos(b.Instrs[len(b.Instrs)-1]), "the walk starts next to a number that is known to differ from the one it ends on")
			} else {
				o.bad("T8", key, p.instrPos(b.Instrs[len(b.Instrs)-1]), fmt.Sprintf("the loop at %s starts at %s±1 and ends when its variable equals %s, and nothing before it excludes that the two are equal: in that case the walk goes all the way round the integer type (65535 steps on a 16-bit number), visiting every slot", p.instrPos(b.Instrs[len(b.Instrs)-1]), shortExpr(p, x), shortExpr(p, bound)))
			}
		}
	}
	o.ok("T8", "inspected", "-", fmt.Sprintf("%d walk(s) that end on equality", n))
}
