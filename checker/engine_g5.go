package main

import (
	"fmt"
	"go/token"
	"go/types"
	"sort"
	"strings"

	"golang.org/x/tools/go/ssa"
)

// G5 — the last report wins, for every figure alike. A function that copies several fields of one acknowledgement
// object (a parameter of a repository struct type) into fields of one record overwrites each of them from that
// acknowledgement: no boolean status among the copied figures also depends — by data or through the test that selects the stored
// value — on the record's own previous value of that field. A status that sticks (`p.Arrived = p.Arrived ||
// ack.arrived`) beside an arrival time and an ECN mark that are overwritten reports, after an overlapping older
// feedback, a combination no feedback ever carried: arrived, at time zero.
func init() {
	registerEngine("G5", []string{"G5"}, runEngineG5)
}

func runEngineG5(p *Prog, o *obls) {
	n := 0
	for _, fn := range p.Funcs {
		if fn.Blocks == nil || !p.InUniverse(fn) {
			continue
		}
		for _, par := range fn.Params {
			if fn.Signature.Recv() != nil && par == fn.Params[0] {
				continue
			}
			nt := namedOf(deref(par.Type()))
			if nt == nil || nt.Obj().Pkg() == nil {
				continue
			}
			if _, isStruct := nt.Underlying().(*types.Struct); !isStruct {
				continue
			}
			if !strings.HasPrefix(nt.Obj().Pkg().Path(), modPath) && !strings.HasPrefix(nt.Obj().Pkg().Path(), "fixtures/") {
				continue
			}
			fromAck := func(v ssa.Value) bool {
				switch x := v.(type) {
				case *ssa.Field:
					return p.origin(x.X) == ssa.Value(par)
				case *ssa.UnOp:
					if x.Op == token.MUL {
						if fa, ok := x.X.(*ssa.FieldAddr); ok {
							return p.origin(fa.X) == ssa.Value(par) || cellOfParam(p, fa.X, par)
						}
					}
				}
				return false
			}
			type copyStore struct {
				st   *ssa.Store
				fa   *ssa.FieldAddr
				base string
			}
			var copies []copyStore
			instrsOf(fn, func(in ssa.Instruction) {
				st, ok := in.(*ssa.Store)
				if !ok {
					return
				}
				fa, ok := st.Addr.(*ssa.FieldAddr)
				if !ok || p.origin(fa.X) == ssa.Value(par) {
					return
				}
				if p.backwardReaches(st.Val, fromAck) {
					copies = append(copies, copyStore{st, fa, p.pureKey(fa.X)})
				}
			})
			// the copy group: plain copies (the stored value is a field of the acknowledgement, conversions aside)
			perBase := map[string]int{}
			for _, c := range copies {
				v := c.st.Val
				for {
					if cv, ok := v.(*ssa.Convert); ok {
						v = cv.X
						continue
					}
					break
				}
				if fromAck(v) {
					perBase[c.base]++
				}
			}
			var bad []string
			sites := 0
			var pdom map[*ssa.BasicBlock]map[*ssa.BasicBlock]bool
			for _, c := range copies {
				if perBase[c.base] < 2 {
					continue
				}
				// a status: counters and sums legitimately build on their previous value
				if bt, ok := deref(c.fa.Type()).Underlying().(*types.Basic); !ok || bt.Kind() != types.Bool {
					continue
				}
				sites++
				own := func(v ssa.Value) bool {
					u, ok := v.(*ssa.UnOp)
					if !ok || u.Op != token.MUL {
						return false
					}
					fa2, ok := u.X.(*ssa.FieldAddr)
					return ok && fa2.Field == c.fa.Field && p.pureKey(fa2.X) == c.base
				}
				mixes := p.backwardReaches(c.st.Val, own)
				if phi, isPhi := p.origin(c.st.Val).(*ssa.Phi); isPhi && !mixes {
					if pdom == nil {
						pdom = postDominators(fn)
					}
					// the test that chooses between the φ's values
					if idom := phi.Block().Idom(); idom != nil {
						if cnd := ifCond(idom); cnd != nil && p.backwardReaches(cnd, own) {
							mixes = true
						}
					}
				}
				if mixes {
					bad = append(bad, fmt.Sprintf("%s is assigned at %s a value that depends on its own previous value, while the other figures of the same %s are overwritten", describeAddr(p, c.fa), p.instrPos(c.st), par.Name()))
				}
			}
			if sites == 0 {
				continue
			}
			n++
			key := funcKey(fn) + ":" + par.Name()
			if len(bad) > 0 {
				sort.Strings(bad)
				o.bad("G5", key, strings.Fields(strings.SplitN(bad[0], " at ", 2)[1])[0], strings.Join(dedupe(bad), "; ")+": after an overlapping older report the record holds a combination that no report carried")
			} else {
				o.ok("G5", key, p.Pos(fn.Pos()), fmt.Sprintf("%d figure(s) copied from %s into one record, each overwritten from it", sites, par.Name()))
			}
		}
	}
	o.ok("G5", "inspected", "-", fmt.Sprintf("%d function(s) that copy several fields of one parameter object into one record", n))
}

// cellOfParam: addr is the spill cell of the by-value struct parameter par.
func cellOfParam(p *Prog, addr ssa.Value, par *ssa.Parameter) bool {
	al, ok := addr.(*ssa.Alloc)
	if !ok {
		return false
	}
	for _, st := range p.storesInto(al) {
		if st.Addr == ssa.Value(al) && st.Val == ssa.Value(par) {
			return true
		}
	}
	return false
}
