package main

// F7 — re-used scratch memory is reset before it is partially filled. A result slice that is allocated per call starts
// zeroed, so positions a decoding loop skips (an acknowledgement for a packet that is no longer in the history) stay
// zero-valued. If the slice is instead cut out of storage that outlives the call (a field of the receiver, directly or
// through a helper that returns `f.scratch[:n]`), the skipped positions keep whatever an earlier call left there and
// are reported as if they were this call's results. For every slice value that (1) denotes longer-lived storage
// (rule A6's classification) re-sliced to a requested length and (2) is filled by indexed stores inside a loop that
// has an iteration path performing none of those stores, the storage must be cleared first: a clear() builtin on it
// (in the function or in the helper that hands it out) or an exhaustive zeroing loop.

import (
	"fmt"
	"go/types"

	"golang.org/x/tools/go/ssa"
)

func init() {
	registerEngine("F7", []string{"F7"}, runEngineF7)
}

func hasClearBuiltin(fn *ssa.Function) bool {
	found := false
	instrsOf(fn, func(in ssa.Instruction) {
		if c, ok := in.(*ssa.Call); ok && builtinName(&c.Call) == "clear" {
			found = true
		}
	})
	return found
}

func runEngineF7(p *Prog, o *obls) {
	n := 0
	for _, fn := range p.Funcs {
		// candidate scratch values: slice-typed call results and re-slices
		var cands []ssa.Value
		instrsOf(fn, func(in ssa.Instruction) {
			v, ok := in.(ssa.Value)
			if !ok {
				return
			}
			if _, isSlice := v.Type().Underlying().(*types.Slice); !isSlice {
				return
			}
			switch x := in.(type) {
			case *ssa.Call:
				if sc := x.Call.StaticCallee(); sc != nil && p.InUniverse(sc) && sc.Blocks != nil {
					cands = append(cands, v)
				}
			case *ssa.Slice:
				if x.High != nil {
					cands = append(cands, v)
				}
			}
		})
		k := 0
		for _, r := range cands {
			// indexed element stores through r
			var stores []*ssa.Store
			if r.Referrers() == nil {
				continue
			}
			for _, ref := range *r.Referrers() {
				ia, ok := ref.(*ssa.IndexAddr)
				if !ok || ia.X != r || ia.Referrers() == nil {
					continue
				}
				for _, r2 := range *ia.Referrers() {
					if st, ok := r2.(*ssa.Store); ok && st.Addr == ssa.Value(ia) {
						stores = append(stores, st)
					}
				}
			}
			if len(stores) == 0 {
				continue
			}
			cls, why := storageOf(p, r, fn, 0, map[ssa.Value]bool{})
			if cls != stPersistent {
				continue
			}
			n++
			k++
			key := fmt.Sprintf("%s:scratch", funcKey(fn))
			if k > 1 {
				key = fmt.Sprintf("%s#%d", key, k)
			}
			pos := p.instrPosV(r)
			// a loop iteration that stores nothing
			storeBlocks := map[*ssa.BasicBlock]bool{}
			for _, st := range stores {
				storeBlocks[st.Block()] = true
			}
			partial := false
			var header *ssa.BasicBlock
			for _, st := range stores {
				// the header of the innermost loop that contains the store: the nearest dominator with a back edge from
				// a block the store can reach
				reach := reachableFrom(st.Block())
				for d := st.Block(); d != nil; d = d.Idom() {
					isHeader := false
					for _, pr := range d.Preds {
						if d.Dominates(pr) && (pr == st.Block() || reach[pr]) {
							isHeader = true
						}
					}
					if !isHeader {
						continue
					}
					if cycleAvoiding(d, storeBlocks) {
						partial = true
						header = d
					}
					break
				}
			}
			if !partial {
				o.ok("F7", key, pos, "re-used storage ("+why+") is assigned on every iteration of the loop that fills it")
				continue
			}
			// cleared before the loop?
			cleared := false
			instrsOf(fn, func(in ssa.Instruction) {
				c, ok := in.(*ssa.Call)
				if !ok || builtinName(&c.Call) != "clear" {
					return
				}
				if a := c.Call.Args[0]; (p.origin(a) == r || p.pureKey(a) == p.pureKey(r)) && (c.Block() == header || c.Block().Dominates(header)) {
					cleared = true
				}
			})
			if c, ok := r.(*ssa.Call); ok {
				if sc := c.Call.StaticCallee(); sc != nil && hasClearBuiltin(sc) {
					cleared = true
				}
			}
			for _, l := range findRangeLoops(fn) {
				if p.origin(l.Slice) != r || len(l.Exits) != 0 || !(l.Header == header || l.Header.Dominates(header)) || l.Blocks[header] {
					continue
				}
				for b := range l.Blocks {
					for _, in := range b.Instrs {
						if st, ok := in.(*ssa.Store); ok {
							if ia, ok := st.Addr.(*ssa.IndexAddr); ok && ia.X == r && ia.Index == l.Index {
								cleared = true
							}
						}
					}
				}
			}
			if cleared {
				o.ok("F7", key, pos, "re-used storage ("+why+") is cleared before the loop that fills it partially")
				continue
			}
			o.bad("F7", key, pos, fmt.Sprintf("the slice filled by the loop at %s is %s and is not cleared first, but an iteration can skip its position: skipped positions keep what an earlier call stored there and are handed on as this call's results", p.Pos(header.Instrs[0].Pos()), why))
		}
	}
	o.ok("F7", "inspected", "-", fmt.Sprintf("%d partially or fully filled slice(s) cut out of longer-lived storage", n))
}
