package main

import (
	"fmt"
	"go/token"
	"go/types"
	"sort"
	"strings"

	"golang.org/x/tools/go/ssa"
)

// Y2 — Close passes Close on. An object whose Close method is the only handle its user has on the things it holds (the
// estimator's pacer and delay controller, the interceptor's estimator) closes each of them: for every field of the
// receiver whose static type has a Close method, every path of T.Close to a return calls that field's Close (directly
// or through a repository helper) — except paths through the error branch of another Close call, which report the
// failure instead. A Close that skips a held object on a condition (an "is it ours?" flag set by an option) leaves its
// goroutine running and everything it references reachable, with nobody left who could stop it.
func init() {
	registerEngine("Y2", []string{"Y2"}, runEngineY2)
}

func runEngineY2(p *Prog, o *obls) {
	hasClose := func(t types.Type) bool {
		ms := types.NewMethodSet(t)
		for i := 0; i < ms.Len(); i++ {
			if ms.At(i).Obj().Name() == "Close" {
				if sig, ok := ms.At(i).Type().(*types.Signature); ok && sig.Params().Len() == 0 {
					return true
				}
			}
		}
		return false
	}
	n := 0
	for _, fn := range p.Funcs {
		if fn.Blocks == nil || !p.InUniverse(fn) || fn.Name() != "Close" || fn.Signature.Recv() == nil || fn.Signature.Params().Len() != 0 {
			continue
		}
		nt := namedOf(deref(fn.Signature.Recv().Type()))
		if nt == nil {
			continue
		}
		st, ok := nt.Underlying().(*types.Struct)
		if !ok {
			continue
		}
		recv := ssa.Value(fn.Params[0])
		for i := 0; i < st.NumFields(); i++ {
			f := st.Field(i)
			if f.Embedded() || !hasClose(f.Type()) {
				continue
			}
			if _, isChan := f.Type().Underlying().(*types.Chan); isChan {
				continue
			}
			// calls of the field's Close: x.f.Close() with x the receiver, in Close itself or one helper down
			isFieldClose := func(in ssa.Instruction, root ssa.Value) bool {
				ci, ok := in.(ssa.CallInstruction)
				if !ok {
					return false
				}
				cc := ci.Common()
				var on ssa.Value
				if cc.IsInvoke() && cc.Method.Name() == "Close" {
					on = cc.Value
				} else if sc := cc.StaticCallee(); sc != nil && sc.Name() == "Close" && len(cc.Args) > 0 {
					on = cc.Args[0]
				} else {
					return false
				}
				u, ok := p.origin(on).(*ssa.UnOp)
				if !ok || u.Op != token.MUL {
					return false
				}
				fa, ok := u.X.(*ssa.FieldAddr)
				return ok && fieldOfAddr(fa) == f && p.origin(fa.X) == root
			}
			closes := func(in ssa.Instruction) bool {
				if isFieldClose(in, recv) {
					return true
				}
				if c, ok := in.(*ssa.Call); ok {
					if sc := c.Call.StaticCallee(); sc != nil && sc != fn && sc.Blocks != nil && p.InUniverse(sc) && len(c.Call.Args) > 0 && p.origin(c.Call.Args[0]) == recv && len(sc.Params) > 0 {
						found := false
						instrsOf(sc, func(in2 ssa.Instruction) {
							if isFieldClose(in2, sc.Params[0]) {
								found = true
							}
						})
						return found
					}
				}
				if d, ok := in.(*ssa.Defer); ok {
					_ = d
					return isFieldClose(in, recv)
				}
				return false
			}
			any := false
			instrsOf(fn, func(in ssa.Instruction) {
				if closes(in) {
					any = true
				}
			})
			if !any {
				continue // not an owned handle by this type's own account (never closed here): out of this rule's reach
			}
			n++
			key := fmt.Sprintf("%s:%s", funcKey(fn), f.Name())
			// a path from the entry to a return on which no such call is made, not through the error branch of a Close
			errEdge := func(from, to *ssa.BasicBlock) bool {
				c := ifCond(from)
				if c == nil || len(from.Succs) != 2 {
					return false
				}
				bo, ok := c.(*ssa.BinOp)
				if !ok || !isNilConst(bo.Y) && !isNilConst(bo.X) {
					return false
				}
				v := bo.X
				if isNilConst(v) {
					v = bo.Y
				}
				if !isErrorType(v.Type()) {
					return false
				}
				// the non-nil successor
				nonNil := from.Succs[0]
				if bo.Op == token.EQL {
					nonNil = from.Succs[1]
				}
				return to == nonNil
			}
			seen := map[*ssa.BasicBlock]bool{}
			var missing string
			var walk func(b *ssa.BasicBlock)
			walk = func(b *ssa.BasicBlock) {
				if seen[b] || missing != "" {
					return
				}
				seen[b] = true
				for _, in := range b.Instrs {
					if closes(in) {
						return
					}
					if ret, ok := in.(*ssa.Return); ok {
						missing = p.instrPos(ret)
						return
					}
				}
				for _, s := range b.Succs {
					if errEdge(b, s) {
						continue
					}
					walk(s)
				}
			}
			walk(fn.Blocks[0])
			if missing != "" {
				o.bad("Y2", key, missing, fmt.Sprintf("the return at %s can be reached without %s.Close having been called (and not through the error branch of another Close): what the field holds — its goroutine, the streams it references — stays alive with nobody left to stop it", missing, f.Name()))
			} else {
				o.ok("Y2", key, p.Pos(fn.Pos()), fmt.Sprintf("%s.Close is called on every path to a return that is not the error branch of another Close", f.Name()))
			}
		}
	}
	_ = sort.Strings
	_ = strings.Join
	o.ok("Y2", "inspected", "-", fmt.Sprintf("%d closable field(s) that their owner's Close closes", n))
}
