package main

import (
	"fmt"
	"go/token"
	"go/types"
	"strings"

	"golang.org/x/tools/go/ssa"
)

// Engine T — retain/release typestate of pooled packets (DESIGN.md §3 T).

func init() {
	registerEngine("T", []string{"T1", "T2", "T6", "T7"}, runEngineT)
}

// refcounted describes a reference-counted type: how references are obtained, retained and released.
type refcountSpec struct {
	typ     string // element type
	get     string // full name of the accessor that hands out a retained reference
	retain  string
	release string
	slots   string // field key of the ring that owns one reference per slot
	started string // field whose false value means "all slots empty"
	tag     string // field of the element that records which key it was stored under
}

var refcountSpecs = []refcountSpec{
	{"internal/rtpbuffer.RetainablePacket", "(*github.com/pion/interceptor/internal/rtpbuffer.RTPBuffer).Get",
		"(*github.com/pion/interceptor/internal/rtpbuffer.RetainablePacket).Retain", "(*github.com/pion/interceptor/internal/rtpbuffer.RetainablePacket).Release",
		"internal/rtpbuffer.RTPBuffer.packets", "internal/rtpbuffer.RTPBuffer.started", "internal/rtpbuffer.RetainablePacket.sequenceNumber"},
	{"fixtures/fx.refPkt", "(*fixtures/fx.refRing).Get", "(*fixtures/fx.refPkt).Retain", "(*fixtures/fx.refPkt).Release", "fixtures/fx.refRing.slots", "fixtures/fx.refRing.started", "fixtures/fx.refPkt.seq"},
}

// seededCounts is pathCounts started at a given block with count 0 (only paths through `start` are considered).
func seededCounts(fn *ssa.Function, start *ssa.BasicBlock, isEvent func(ssa.Instruction) bool) map[ssa.Instruction]countMask {
	in := map[*ssa.BasicBlock]countMask{start: 1}
	out := map[*ssa.BasicBlock]countMask{}
	changed := true
	for changed {
		changed = false
		for _, b := range fn.Blocks {
			m := in[b]
			if b != start {
				for _, pr := range b.Preds {
					m |= out[pr]
				}
			} else {
				// back edges into start keep accumulating
				for _, pr := range b.Preds {
					if out[pr] != 0 && start.Dominates(pr) {
						m |= out[pr]
					}
				}
			}
			if m != in[b] {
				in[b] = m
				changed = true
			}
			o := m
			for _, ins := range b.Instrs {
				if o != 0 && isEvent(ins) {
					o = o.inc()
				}
			}
			if o != out[b] {
				out[b] = o
				changed = true
			}
		}
	}
	before := map[ssa.Instruction]countMask{}
	for _, b := range fn.Blocks {
		m := in[b]
		for _, ins := range b.Instrs {
			before[ins] = m
			if m != 0 && isEvent(ins) {
				m = m.inc()
			}
		}
	}
	return before
}

// nonNilSuccessors returns the blocks entered when v is known non-nil by a test v != nil / v == nil.
func nonNilSuccessors(p *Prog, fn *ssa.Function, v ssa.Value) []*ssa.BasicBlock {
	var out []*ssa.BasicBlock
	for _, b := range fn.Blocks {
		c := ifCond(b)
		bo, ok := c.(*ssa.BinOp)
		if !ok || (bo.Op != token.NEQ && bo.Op != token.EQL) {
			continue
		}
		var other ssa.Value
		if isNilConst(bo.Y) {
			other = bo.X
		} else if isNilConst(bo.X) {
			other = bo.Y
		} else {
			continue
		}
		if p.origin(other) != v {
			continue
		}
		if bo.Op == token.NEQ {
			out = append(out, b.Succs[0])
		} else {
			out = append(out, b.Succs[1])
		}
	}
	return out
}

func runEngineT(p *Prog, o *obls) {
	for _, spec := range refcountSpecs {
		if p.Fixture != strings.HasPrefix(spec.typ, "fixtures/") {
			continue
		}
		found := 0
		for _, fn := range p.Funcs {
			instrsOf(fn, func(in ssa.Instruction) {
				call, ok := in.(*ssa.Call)
				if !ok || calleeName(&call.Call) != spec.get {
					return
				}
				found++
				t1Caller(p, o, fn, call, spec)
			})
			t1Slots(p, o, fn, spec, &found)
			t6Vacated(p, o, fn, spec)
			t7Window(p, o, fn, spec)
			t2Tag(p, o, fn, spec)
			if fullFuncName(fn) == spec.get {
				found++
				t1bGet(p, o, fn, spec)
			}
		}
		// accessors that hand the retained packet on to their caller (`func (s *stream) retained(seq) *Packet { lock;
		// p := buf.Get(seq); unlock; return p }`): the obligation to release moves to the caller
		fwd := map[*ssa.Function]bool{}
		for _, fn := range p.Funcs {
			instrsOf(fn, func(in ssa.Instruction) {
				call, ok := in.(*ssa.Call)
				if !ok || calleeName(&call.Call) != spec.get {
					return
				}
				for _, b := range fn.Blocks {
					if ret, ok := b.Instrs[len(b.Instrs)-1].(*ssa.Return); ok {
						for _, r := range ret.Results {
							if p.origin(r) == ssa.Value(call) {
								fwd[fn] = true
							}
						}
					}
				}
			})
		}
		for _, fn := range p.Funcs {
			instrsOf(fn, func(in ssa.Instruction) {
				call, ok := in.(*ssa.Call)
				if !ok {
					return
				}
				if sc := call.Call.StaticCallee(); sc != nil && fwd[sc] {
					t1Caller(p, o, fn, call, spec)
				}
			})
		}
		if found == 0 {
			o.undecided("T1", spec.typ, "-", "anchor unresolved: no accessor call / slot store found for the reference-counted type")
		}
	}
}

// t1Caller: a reference obtained from Get is released exactly once on every path where it is non-nil, and not used
// after the release.
func t1Caller(p *Prog, o *obls, fn *ssa.Function, get *ssa.Call, spec refcountSpec) {
	key := fmt.Sprintf("%s:Get→Release", funcKey(fn))
	pos := p.instrPos(get)
	isRelease := func(in ssa.Instruction) bool {
		c, ok := in.(*ssa.Call)
		return ok && calleeName(&c.Call) == spec.release && p.origin(c.Call.Args[0]) == ssa.Value(get)
	}
	// `defer pkt.Release()` releases once at function exit on every path that executed the defer statement: for the
	// balance at the returns it counts where it is registered; it never precedes a use
	isReleaseOrDefer := func(in ssa.Instruction) bool {
		if isRelease(in) {
			return true
		}
		d, ok := in.(*ssa.Defer)
		return ok && calleeName(&d.Call) == spec.release && len(d.Call.Args) > 0 && p.origin(d.Call.Args[0]) == ssa.Value(get)
	}
	starts := nonNilSuccessors(p, fn, get)
	var problems []string
	var before, beforeAll map[ssa.Instruction]countMask
	if len(starts) == 0 {
		before = seededCounts(fn, get.Block(), isRelease)
		beforeAll = seededCounts(fn, get.Block(), isReleaseOrDefer)
	}
	check := func(before, beforeAll map[ssa.Instruction]countMask) {
		for _, b := range fn.Blocks {
			last := b.Instrs[len(b.Instrs)-1]
			if _, isRet := last.(*ssa.Return); !isRet || b == fn.Recover {
				continue
			}
			m := beforeAll[last]
			if m == 0 {
				continue
			}
			// the reference is handed to the caller: the caller releases it (checked at the caller)
			handsOn := false
			for _, r := range last.(*ssa.Return).Results {
				if p.origin(r) == ssa.Value(get) {
					handsOn = true
				}
			}
			if handsOn {
				if m&6 != 0 {
					problems = append(problems, fmt.Sprintf("the packet is returned to the caller at %s after it was released", p.instrPos(last)))
				}
				continue
			}
			if m&1 != 0 && p.nilnessAt(get, b) == -1 {
				m &^= 1 // this return lies on the branch where the accessor returned nil: nothing to release
			}
			if m&1 != 0 {
				problems = append(problems, fmt.Sprintf("leak: the return at %s can be reached with the non-nil packet not released (the pooled buffer is never handed back)", p.instrPos(last)))
			}
			if m&4 != 0 {
				problems = append(problems, fmt.Sprintf("double release: the return at %s can be reached after releasing the packet twice (a buffer still being retransmitted goes back to the pool)", p.instrPos(last)))
			}
		}
		// uses after release: of the packet itself, or of memory obtained from it (Header(), Payload())
		derived := map[ssa.Value]bool{}
		instrsOf(fn, func(in ssa.Instruction) {
			if c, ok := in.(*ssa.Call); ok && !isRelease(in) && len(c.Call.Args) > 0 && p.origin(c.Call.Args[0]) == ssa.Value(get) && isRefType(c.Type()) {
				derived[c] = true
			}
		})
		instrsOf(fn, func(in ssa.Instruction) {
			if isRelease(in) {
				return
			}
			if _, isDbg := in.(*ssa.DebugRef); isDbg {
				return
			}
			usesPkt, usesMem := false, false
			for _, op := range in.Operands(nil) {
				if *op == nil {
					continue
				}
				if p.origin(*op) == ssa.Value(get) {
					usesPkt = true
				}
				if derived[p.origin(*op)] {
					usesMem = true
				}
			}
			if !usesPkt && !usesMem {
				return
			}
			c, isCall := in.(*ssa.Call)
			if !isCall {
				return
			}
			if before[in]&6 != 0 && before[in]&1 == 0 {
				what := "the packet"
				if usesMem && !usesPkt {
					what = "the packet's header/payload memory"
				}
				problems = append(problems, fmt.Sprintf("use after release: %s is used by %s at %s after the reference was released (the pooled buffers may already be recycled)", what, shortCallee(calleeName(&c.Call)), p.instrPos(in)))
			}
		})
	}
	if len(starts) == 0 {
		check(before, beforeAll)
	}
	for _, s := range starts {
		check(seededCounts(fn, s, isRelease), seededCounts(fn, s, isReleaseOrDefer))
	}
	if len(problems) > 0 {
		o.bad("T1", key, pos, strings.Join(dedupe(problems), "; "))
	} else {
		o.ok("T1", key, pos, "the retained packet is released exactly once on every path where it is non-nil, after its last use")
	}
}

func dedupe(s []string) []string {
	seen := map[string]bool{}
	var out []string
	for _, x := range s {
		if !seen[x] {
			seen[x] = true
			out = append(out, x)
		}
	}
	return out
}

// t1Slots: every store that replaces a slot of the ring releases the previous occupant exactly once (when non-nil),
// unless the ring is known to be empty (not started).
func t1Slots(p *Prog, o *obls, fn *ssa.Function, spec refcountSpec, found *int) {
	if isConstructor(p, fn) {
		return
	}
	n := 0
	instrsOf(fn, func(in ssa.Instruction) {
		st, ok := in.(*ssa.Store)
		if !ok {
			return
		}
		ia, ok := st.Addr.(*ssa.IndexAddr)
		if !ok {
			return
		}
		if u, ok := ia.X.(*ssa.UnOp); !ok || u.Op != token.MUL {
			return
		} else if fa, ok := u.X.(*ssa.FieldAddr); !ok || fieldKeyAddr(fa) != spec.slots {
			return
		}
		if !sharedBase(p, fn, ia.X) {
			return
		}
		*found++
		n++
		key := fmt.Sprintf("%s:slot-store#%d", funcKey(fn), n)
		pos := p.instrPos(st)
		idxKey := p.pureKey(ia.Index)
		// previous occupant: a load of the same slot that dominates the store
		var loads []*ssa.UnOp
		instrsOf(fn, func(in2 ssa.Instruction) {
			u, ok := in2.(*ssa.UnOp)
			if !ok || u.Op != token.MUL {
				return
			}
			ia2, ok := u.X.(*ssa.IndexAddr)
			if !ok || p.pureKey(ia2.X) != p.pureKey(ia.X) || p.pureKey(ia2.Index) != idxKey {
				return
			}
			if instrDominates(u, st) {
				loads = append(loads, u)
			}
		})
		// a range loop element over the same slice with the loop index is also the previous occupant
		for _, l := range findRangeLoops(fn) {
			if p.pureKey(l.Slice) == p.pureKey(ia.X) && l.Index == ia.Index {
				instrsOf(fn, func(in2 ssa.Instruction) {
					if u, ok := in2.(*ssa.UnOp); ok && l.isElem(p, u) && instrDominates(u, st) {
						loads = append(loads, u)
					}
				})
			}
		}
		if len(loads) == 0 {
			// the release may have been delegated to a helper: r.releaseAt(idx); r.slots[idx] = p
			delegated := false
			instrsOf(fn, func(in2 ssa.Instruction) {
				c, ok := in2.(*ssa.Call)
				if !ok || !instrDominates(c, st) {
					return
				}
				g := c.Call.StaticCallee()
				if g == nil || !p.InUniverse(g) {
					return
				}
				if pi, ok := releasesSlotParam(p, g, spec); ok && pi < len(c.Call.Args) {
					if !slotParamModular[g] && p.pureKey(c.Call.Args[pi]) == idxKey {
						delegated = true
					}
					// the helper is told the sequence number and reduces it itself (`idx := seq % r.size`): the store's
					// index is the same reduction of the same number
					if bo, isBo := p.origin(ia.Index).(*ssa.BinOp); slotParamModular[g] && isBo && bo.Op == token.REM && p.pureKey(bo.X) == p.pureKey(c.Call.Args[pi]) {
						delegated = true
					}
				}
			})
			if delegated {
				o.ok("T1", key, pos, "previous occupant is released by a helper called with the same index before the slot is overwritten")
				return
			}
			// permitted only when the ring is empty
			for _, f := range dominatingFactsInstr(st) {
				f = normFact(f)
				if u, ok := f.cond.(*ssa.UnOp); ok && u.Op == token.MUL {
					if fa, ok := u.X.(*ssa.FieldAddr); ok && fieldKeyAddr(fa) == spec.started && !f.truth {
						o.ok("T1", key, pos, "slot written while the ring is empty (not started): no previous occupant")
						return
					}
				}
			}
			o.bad("T1", key, pos, "a ring slot is overwritten without loading and releasing its previous occupant: the replaced packet's pooled buffer leaks")
			return
		}
		okAny := false
		var why []string
		for _, l := range loads {
			isRelease := func(in ssa.Instruction) bool {
				c, ok := in.(*ssa.Call)
				if !ok || calleeName(&c.Call) != spec.release {
					return false
				}
				if p.origin(c.Call.Args[0]) == ssa.Value(l) {
					return true
				}
				// the slot read again for the call (`if r.slots[i] != nil { r.slots[i].Release() }`): the same occupant
				for _, l2 := range loads {
					if p.origin(c.Call.Args[0]) == ssa.Value(l2) {
						return true
					}
				}
				return false
			}
			starts := nonNilSuccessors(p, fn, l)
			if len(starts) == 0 {
				why = append(why, "previous occupant is not tested for nil")
				continue
			}
			good := true
			for _, s := range starts {
				m := seededCounts(fn, s, isRelease)[st]
				if m == 0 {
					continue // store not reachable from the non-nil branch (the nil case stores directly)
				}
				if m != 2 {
					good = false
					why = append(why, fmt.Sprintf("on the path where the previous occupant is non-nil it is released %s times before the store", m))
				}
			}
			if good {
				okAny = true
			}
		}
		if okAny {
			o.ok("T1", key, pos, "previous occupant is released exactly once before the slot is overwritten")
		} else {
			o.bad("T1", key, pos, strings.Join(dedupe(why), "; "))
		}
	})
}

// t1bGet: every non-nil value Get returns has passed a successful Retain on the same path.
func t1bGet(p *Prog, o *obls, fn *ssa.Function, spec refcountSpec) {
	key := funcKey(fn) + ":retain-before-return"
	var problems []string
	for _, b := range fn.Blocks {
		ret, ok := b.Instrs[len(b.Instrs)-1].(*ssa.Return)
		if !ok || len(ret.Results) == 0 || b == fn.Recover {
			continue
		}
		v := p.origin(ret.Results[0])
		if isNilConst(v) {
			continue
		}
		if _, isPtr := v.Type().Underlying().(*types.Pointer); !isPtr {
			continue
		}
		isRetain := func(in ssa.Instruction) bool {
			c, ok := in.(*ssa.Call)
			return ok && calleeName(&c.Call) == spec.retain && p.origin(c.Call.Args[0]) == v
		}
		starts := nonNilSuccessors(p, fn, v)
		if len(starts) == 0 {
			problems = append(problems, fmt.Sprintf("the value returned at %s is not tested for nil before being handed out", p.instrPos(ret)))
			continue
		}
		for _, s := range starts {
			m := seededCounts(fn, s, isRetain)[ret]
			if m == 0 {
				continue
			}
			if m != 2 {
				problems = append(problems, fmt.Sprintf("the return at %s can hand out a non-nil packet that was retained %s times (the caller will release it once)", p.instrPos(ret), m))
			}
		}
		// the failing branch of Retain must not reach this return
		instrsOf(fn, func(in ssa.Instruction) {
			if !isRetain(in) {
				return
			}
			call := in.(*ssa.Call)
			var errV ssa.Value = call
			for _, b2 := range fn.Blocks {
				c := ifCond(b2)
				bo, ok := c.(*ssa.BinOp)
				if !ok || p.origin(bo.X) != errV || !isNilConst(bo.Y) {
					continue
				}
				failing := b2.Succs[0]
				if bo.Op == token.EQL {
					failing = b2.Succs[1]
				}
				if failing == b || reachableFrom(failing)[b] {
					problems = append(problems, fmt.Sprintf("the return at %s is reachable from the failing branch of Retain", p.instrPos(ret)))
				}
			}
		})
	}
	if len(problems) > 0 {
		o.bad("T1", key, p.Pos(fn.Pos()), strings.Join(dedupe(problems), "; "))
	} else {
		o.ok("T1", key, p.Pos(fn.Pos()), "every non-nil packet handed out has passed exactly one successful Retain")
	}
}

// t2Tag: a function that hands out (returns) an element loaded from a direct-mapped slot ring[k % n] compares the
// element's tag with the key first — otherwise a colliding entry stored under another key is returned.
func t2Tag(p *Prog, o *obls, fn *ssa.Function, spec refcountSpec) {
	if spec.tag == "" {
		return
	}
	instrsOf(fn, func(in ssa.Instruction) {
		u, ok := in.(*ssa.UnOp)
		if !ok || u.Op != token.MUL {
			return
		}
		ia, ok := u.X.(*ssa.IndexAddr)
		if !ok {
			return
		}
		if uu, ok := ia.X.(*ssa.UnOp); !ok || uu.Op != token.MUL {
			return
		} else if fa, ok := uu.X.(*ssa.FieldAddr); !ok || fieldKeyAddr(fa) != spec.slots {
			return
		}
		// index is key % n
		bo, ok := p.origin(ia.Index).(*ssa.BinOp)
		if !ok || bo.Op != token.REM {
			if cv, ok := p.origin(ia.Index).(*ssa.Convert); ok {
				bo, ok = p.origin(cv.X).(*ssa.BinOp)
				if !ok || bo.Op != token.REM {
					return
				}
			} else {
				return
			}
		}
		keyLeaves := exprLeaves(p, bo.X)
		// is the loaded element returned?
		for _, b := range fn.Blocks {
			ret, ok := b.Instrs[len(b.Instrs)-1].(*ssa.Return)
			if !ok || len(ret.Results) == 0 || p.origin(ret.Results[0]) != ssa.Value(u) {
				continue
			}
			key := funcKey(fn) + ":slot-tag"
			// on the non-nil path to this return a comparison of elem.tag with the key must hold
			okTag := false
			for _, s := range nonNilSuccessors(p, fn, u) {
				// every path from s to ret passes a block dominated by the tag-equal fact: approximate by requiring a
				// tag comparison whose mismatch branch does not reach ret
				for _, b2 := range fn.Blocks {
					c := ifCond(b2)
					cb, ok := c.(*ssa.BinOp)
					if !ok || (cb.Op != token.NEQ && cb.Op != token.EQL) {
						continue
					}
					if !(s == b2 || s.Dominates(b2)) {
						continue
					}
					isTag := func(v ssa.Value) bool {
						if l, ok := v.(*ssa.UnOp); ok && l.Op == token.MUL {
							if fa, ok := l.X.(*ssa.FieldAddr); ok && fieldKeyAddr(fa) == spec.tag && p.origin(fa.X) == ssa.Value(u) {
								return true
							}
						}
						return false
					}
					isKey := func(v ssa.Value) bool {
						for _, l := range keyLeaves {
							if p.origin(v) == p.origin(l) {
								return true
							}
						}
						return false
					}
					if !((p.mentions(cb.X, isTag) && p.mentions(cb.Y, isKey)) || (p.mentions(cb.Y, isTag) && p.mentions(cb.X, isKey))) {
						continue
					}
					mismatch := b2.Succs[0]
					if cb.Op == token.EQL {
						mismatch = b2.Succs[1]
					}
					if mismatch != b && !reachableFrom(mismatch)[b] {
						okTag = true
					}
				}
			}
			if okTag {
				o.ok("T2", key, p.instrPos(u), "the element taken from slot key%n is only handed out after its tag was compared with the key")
			} else {
				o.bad("T2", key, p.instrPos(u), "an element taken from the direct-mapped slot key%n is returned without comparing its tag with the key: a packet stored under a colliding key is handed out as if it were the requested one")
			}
		}
	})
}

// releasesSlotParam: g loads ring[param], and on the path where that element is non-nil releases it exactly once
// before every return; returns the index of that parameter.
// slotParamModular: the helper reduces the parameter modulo the ring size itself.
var slotParamModular = map[*ssa.Function]bool{}

func releasesSlotParam(p *Prog, g *ssa.Function, spec refcountSpec) (int, bool) {
	res, found := -1, false
	instrsOf(g, func(in ssa.Instruction) {
		u, ok := in.(*ssa.UnOp)
		if !ok || u.Op != token.MUL || found {
			return
		}
		ia, ok := u.X.(*ssa.IndexAddr)
		if !ok {
			return
		}
		if uu, ok := ia.X.(*ssa.UnOp); !ok || uu.Op != token.MUL {
			return
		} else if fa, ok := uu.X.(*ssa.FieldAddr); !ok || fieldKeyAddr(fa) != spec.slots {
			return
		}
		par, ok := p.origin(ia.Index).(*ssa.Parameter)
		modular := false
		if !ok {
			// idx := seq % r.size with seq the parameter
			bo, isBo := p.origin(ia.Index).(*ssa.BinOp)
			if !isBo || bo.Op != token.REM {
				return
			}
			if par, ok = p.origin(bo.X).(*ssa.Parameter); !ok {
				return
			}
			if u2, isLoad := p.origin(bo.Y).(*ssa.UnOp); !isLoad || u2.Op != token.MUL {
				return
			} else if _, isField := u2.X.(*ssa.FieldAddr); !isField {
				return
			}
			modular = true
		}
		isRelease := func(i2 ssa.Instruction) bool {
			c, ok := i2.(*ssa.Call)
			return ok && calleeName(&c.Call) == spec.release && p.origin(c.Call.Args[0]) == ssa.Value(u)
		}
		starts := nonNilSuccessors(p, g, u)
		if len(starts) == 0 {
			return
		}
		good := true
		for _, s := range starts {
			before := seededCounts(g, s, isRelease)
			for _, b := range g.Blocks {
				last := b.Instrs[len(b.Instrs)-1]
				if _, isRet := last.(*ssa.Return); isRet && b != g.Recover {
					if m := before[last]; m != 0 && m != 2 {
						good = false
					}
				}
			}
		}
		if good {
			for i, pp := range g.Params {
				if pp == par {
					res, found = i, true
					slotParamModular[g] = modular
				}
			}
		}
	})
	return res, found
}

// t6Vacated (rule T6): a slot whose occupant was released does not keep pointing at it. When the ring gives up its
// reference to the packet in a slot — directly or through a helper that releases the slot it is told to — the slot
// must be assigned (nil or the new occupant) on every path from that release to the function's return, or the ring
// be reset as a whole. A slot that still holds the released packet is released again the next time it is visited (the
// count goes wrong while a retransmission may be holding the packet) and keeps it reachable for Get.
func t6Vacated(p *Prog, o *obls, fn *ssa.Function, spec refcountSpec) {
	slotsOf := func(v ssa.Value) bool { return loadsFieldKey(p, v, spec.slots) }
	// slotKeyOfValue: v is the occupant loaded from slots[idx] (or the value variable of a range over the slots):
	// returns a key identifying the slot
	slotKeyOfValue := func(v ssa.Value) string {
		switch x := p.origin(v).(type) {
		case *ssa.UnOp:
			if x.Op == token.MUL {
				if ia, ok := x.X.(*ssa.IndexAddr); ok && slotsOf(ia.X) {
					return "idx:" + p.pureKey(ia.Index)
				}
			}
		case *ssa.Extract:
			if nx, ok := x.Tuple.(*ssa.Next); ok && x.Index == 2 {
				if rg, ok := nx.Iter.(*ssa.Range); ok && slotsOf(rg.X) {
					return fmt.Sprintf("range:%p", nx)
				}
			}
		}
		return ""
	}
	slotKeyOfIndex := func(idx ssa.Value) string {
		if ex, ok := p.origin(idx).(*ssa.Extract); ok && ex.Index == 1 {
			if nx, ok := ex.Tuple.(*ssa.Next); ok {
				if rg, ok := nx.Iter.(*ssa.Range); ok && slotsOf(rg.X) {
					return fmt.Sprintf("range:%p", nx)
				}
			}
		}
		return "idx:" + p.pureKey(idx)
	}
	// releasesParamSlot: helper g releases slots[param k] and does not assign that slot afterwards on some path
	releasesParamSlot := func(g *ssa.Function) int {
		res := -1
		if g == nil || g.Blocks == nil || !p.InUniverse(g) {
			return res
		}
		instrsOf(g, func(in ssa.Instruction) {
			c, ok := in.(*ssa.Call)
			if !ok || calleeName(&c.Call) != spec.release || len(c.Call.Args) == 0 {
				return
			}
			u, ok := p.origin(c.Call.Args[0]).(*ssa.UnOp)
			if !ok || u.Op != token.MUL {
				return
			}
			ia, ok := u.X.(*ssa.IndexAddr)
			if !ok || !slotsOf(ia.X) {
				return
			}
			par, ok := p.origin(ia.Index).(*ssa.Parameter)
			if !ok {
				return
			}
			// does g itself assign the slot on every path after the release?
			assigned := true
			if vacatedUnassigned(p, g, c, "idx:"+p.pureKey(ia.Index), slotsOf, slotKeyOfIndex, spec) {
				assigned = false
			}
			if !assigned {
				for i, q := range g.Params {
					if q == par {
						res = i
					}
				}
			}
		})
		return res
	}
	n := 0
	var bad []string
	instrsOf(fn, func(in ssa.Instruction) {
		c, ok := in.(*ssa.Call)
		if !ok {
			return
		}
		key := ""
		if calleeName(&c.Call) == spec.release && len(c.Call.Args) > 0 {
			key = slotKeyOfValue(c.Call.Args[0])
			// a helper that releases the slot it is told to is judged where it is called (the caller may assign the
			// slot right after the call)
			if u, ok := p.origin(c.Call.Args[0]).(*ssa.UnOp); ok && key != "" {
				if ia, ok := u.X.(*ssa.IndexAddr); ok {
					if _, isPar := p.origin(ia.Index).(*ssa.Parameter); isPar {
						if sites, closed := p.staticCallSites(fn); closed && len(sites) > 0 {
							return
						}
					}
				}
			}
		} else if k := releasesParamSlot(c.Call.StaticCallee()); k >= 0 && k < len(c.Call.Args) {
			key = "idx:" + p.pureKey(c.Call.Args[k])
		}
		if key == "" {
			return
		}
		n++
		if vacatedUnassigned(p, fn, c, key, slotsOf, slotKeyOfIndex, spec) {
			bad = append(bad, fmt.Sprintf("the occupant of a ring slot is released at %s, but a return can be reached without that slot being assigned nil or a new packet (and without the ring being reset): the slot keeps pointing at a packet the ring no longer owns and releases it again when it is next visited", p.instrPos(c)))
		}
	})
	if n == 0 {
		return
	}
	okey := funcKey(fn) + ":vacated"
	if len(bad) > 0 {
		o.bad("T6", okey, p.Pos(fn.Pos()), strings.Join(dedupe(bad), "; "))
	} else {
		o.ok("T6", okey, p.Pos(fn.Pos()), fmt.Sprintf("%d release(s) of slot occupants, each followed by an assignment of the slot (or a reset of the ring) on every path", n))
	}
}

// vacatedUnassigned: from just after `rel` a return of fn can be reached without a store to the slot `key` and without
// a reset of the whole ring.
func vacatedUnassigned(p *Prog, fn *ssa.Function, rel ssa.Instruction, key string, slotsOf func(ssa.Value) bool, slotKeyOfIndex func(ssa.Value) string, spec refcountSpec) bool {
	fills := func(in ssa.Instruction) bool {
		switch x := in.(type) {
		case *ssa.Store:
			if ia, ok := x.Addr.(*ssa.IndexAddr); ok && slotsOf(ia.X) && slotKeyOfIndex(ia.Index) == key {
				return true
			}
			if fa, ok := x.Addr.(*ssa.FieldAddr); ok && fieldKeyAddr(fa) == spec.slots {
				return true // the ring replaced as a whole
			}
			// through a pointer to the slot (slot := &r.packets[i]; *slot = x)
			if ia, ok := p.origin(x.Addr).(*ssa.IndexAddr); ok && slotsOf(ia.X) && slotKeyOfIndex(ia.Index) == key {
				return true
			}
		case *ssa.Call:
			if builtinName(&x.Call) == "clear" && len(x.Call.Args) == 1 && slotsOf(x.Call.Args[0]) {
				return true
			}
		}
		return false
	}
	b0 := rel.Block()
	idx := instrIndex(rel)
	for i := idx + 1; i < len(b0.Instrs); i++ {
		if fills(b0.Instrs[i]) {
			return false
		}
		if _, isRet := b0.Instrs[i].(*ssa.Return); isRet {
			return true
		}
	}
	seen := map[*ssa.BasicBlock]bool{}
	work := append([]*ssa.BasicBlock{}, b0.Succs...)
	for len(work) > 0 {
		b := work[len(work)-1]
		work = work[:len(work)-1]
		if seen[b] {
			continue
		}
		seen[b] = true
		filled := false
		for _, in := range b.Instrs {
			if b == b0 && in == rel {
				break // came round to the release again: that execution is judged on its own
			}
			if fills(in) {
				filled = true
				break
			}
			if _, isRet := in.(*ssa.Return); isRet && b != fn.Recover {
				return true
			}
		}
		if filled || b == b0 {
			continue
		}
		work = append(work, b.Succs...)
	}
	return false
}
