package main

import (
	"fmt"
	"go/token"
	"go/types"
	"strings"

	"golang.org/x/tools/go/ssa"
)

// Engine T — retain/release typestate of pooled packets (DESIGN.md §3 T).

func init() {
	registerEngine("T", []string{"T1", "T2"}, runEngineT)
}

// refcounted describes a reference-counted type: how references are obtained, retained and released.
type refcountSpec struct {
	typ     string // element type
	get     string // full name of the accessor that hands out a retained reference
	retain  string
	release string
	slots   string // field key of the ring that owns one reference per slot
	started string // field whose false value means "all slots empty"
	tag     string // field of the element that records which key it was stored under
}

var refcountSpecs = []refcountSpec{
	{"internal/rtpbuffer.RetainablePacket", "(*github.com/pion/interceptor/internal/rtpbuffer.RTPBuffer).Get",
		"(*github.com/pion/interceptor/internal/rtpbuffer.RetainablePacket).Retain", "(*github.com/pion/interceptor/internal/rtpbuffer.RetainablePacket).Release",
		"internal/rtpbuffer.RTPBuffer.packets", "internal/rtpbuffer.RTPBuffer.started", "internal/rtpbuffer.RetainablePacket.sequenceNumber"},
	{"fixtures/fx.refPkt", "(*fixtures/fx.refRing).Get", "(*fixtures/fx.refPkt).Retain", "(*fixtures/fx.refPkt).Release", "fixtures/fx.refRing.slots", "fixtures/fx.refRing.started", "fixtures/fx.refPkt.seq"},
}

// seededCounts is pathCounts started at a given block with count 0 (only paths through `start` are considered).
func seededCounts(fn *ssa.Function, start *ssa.BasicBlock, isEvent func(ssa.Instruction) bool) map[ssa.Instruction]countMask {
	in := map[*ssa.BasicBlock]countMask{start: 1}
	out := map[*ssa.BasicBlock]countMask{}
	changed := true
	for changed {
		changed = false
		for _, b := range fn.Blocks {
			m := in[b]
			if b != start {
				for _, pr := range b.Preds {
					m |= out[pr]
				}
			} else {
				// back edges into start keep accumulating
				for _, pr := range b.Preds {
					if out[pr] != 0 && start.Dominates(pr) {
						m |= out[pr]
					}
				}
			}
			if m != in[b] {
				in[b] = m
				changed = true
			}
			o := m
			for _, ins := range b.Instrs {
				if o != 0 && isEvent(ins) {
					o = o.inc()
				}
			}
			if o != out[b] {
				out[b] = o
				changed = true
			}
		}
	}
	before := map[ssa.Instruction]countMask{}
	for _, b := range fn.Blocks {
		m := in[b]
		for _, ins := range b.Instrs {
			before[ins] = m
			if m != 0 && isEvent(ins) {
				m = m.inc()
			}
		}
	}
	return before
}

// nonNilSuccessors returns the blocks entered when v is known non-nil by a test v != nil / v == nil.
func nonNilSuccessors(p *Prog, fn *ssa.Function, v ssa.Value) []*ssa.BasicBlock {
	var out []*ssa.BasicBlock
	for _, b := range fn.Blocks {
		c := ifCond(b)
		bo, ok := c.(*ssa.BinOp)
		if !ok || (bo.Op != token.NEQ && bo.Op != token.EQL) {
			continue
		}
		var other ssa.Value
		if isNilConst(bo.Y) {
			other = bo.X
		} else if isNilConst(bo.X) {
			other = bo.Y
		} else {
			continue
		}
		if p.origin(other) != v {
			continue
		}
		if bo.Op == token.NEQ {
			out = append(out, b.Succs[0])
		} else {
			out = append(out, b.Succs[1])
		}
	}
	return out
}

func runEngineT(p *Prog, o *obls) {
	for _, spec := range refcountSpecs {
		if p.Fixture != strings.HasPrefix(spec.typ, "fixtures/") {
			continue
		}
		found := 0
		for _, fn := range p.Funcs {
			instrsOf(fn, func(in ssa.Instruction) {
				call, ok := in.(*ssa.Call)
				if !ok || calleeName(&call.Call) != spec.get {
					return
				}
				found++
				t1Caller(p, o, fn, call, spec)
			})
			t1Slots(p, o, fn, spec, &found)
			t2Tag(p, o, fn, spec)
			if fullFuncName(fn) == spec.get {
				found++
				t1bGet(p, o, fn, spec)
			}
		}
		// accessors that hand the retained packet on to their caller (`func (s *stream) retained(seq) *Packet { lock;
		// p := buf.Get(seq); unlock; return p }`): the obligation to release moves to the caller
		fwd := map[*ssa.Function]bool{}
		for _, fn := range p.Funcs {
			instrsOf(fn, func(in ssa.Instruction) {
				call, ok := in.(*ssa.Call)
				if !ok || calleeName(&call.Call) != spec.get {
					return
				}
				for _, b := range fn.Blocks {
					if ret, ok := b.Instrs[len(b.Instrs)-1].(*ssa.Return); ok {
						for _, r := range ret.Results {
							if p.origin(r) == ssa.Value(call) {
								fwd[fn] = true
							}
						}
					}
				}
			})
		}
		for _, fn := range p.Funcs {
			instrsOf(fn, func(in ssa.Instruction) {
				call, ok := in.(*ssa.Call)
				if !ok {
					return
				}
				if sc := call.Call.StaticCallee(); sc != nil && fwd[sc] {
					t1Caller(p, o, fn, call, spec)
				}
			})
		}
		if found == 0 {
			o.undecided("T1", spec.typ, "-", "anchor unresolved: no accessor call / slot store found for the reference-counted type")
		}
	}
}

// t1Caller: a reference obtained from Get is released exactly once on every path where it is non-nil, and not used
// after the release.
func t1Caller(p *Prog, o *obls, fn *ssa.Function, get *ssa.Call, spec refcountSpec) {
	key := fmt.Sprintf("%s:Get→Release", funcKey(fn))
	pos := p.instrPos(get)
	isRelease := func(in ssa.Instruction) bool {
		c, ok := in.(*ssa.Call)
		return ok && calleeName(&c.Call) == spec.release && p.origin(c.Call.Args[0]) == ssa.Value(get)
	}
	starts := nonNilSuccessors(p, fn, get)
	var problems []string
	var before map[ssa.Instruction]countMask
	if len(starts) == 0 {
		before = seededCounts(fn, get.Block(), isRelease)
	}
	check := func(before map[ssa.Instruction]countMask) {
		for _, b := range fn.Blocks {
			last := b.Instrs[len(b.Instrs)-1]
			if _, isRet := last.(*ssa.Return); !isRet || b == fn.Recover {
				continue
			}
			m := before[last]
			if m == 0 {
				continue
			}
			// the reference is handed to the caller: the caller releases it (checked at the caller)
			handsOn := false
			for _, r := range last.(*ssa.Return).Results {
				if p.origin(r) == ssa.Value(get) {
					handsOn = true
				}
			}
			if handsOn {
				if m&6 != 0 {
					problems = append(problems, fmt.Sprintf("the packet is returned to the caller at %s after it was released", p.instrPos(last)))
				}
				continue
			}
			if m&1 != 0 && p.nilnessAt(get, b) == -1 {
				m &^= 1 // this return lies on the branch where the accessor returned nil: nothing to release
			}
			if m&1 != 0 {
				problems = append(problems, fmt.Sprintf("leak: the return at %s can be reached with the non-nil packet not released (the pooled buffer is never handed back)", p.instrPos(last)))
			}
			if m&4 != 0 {
				problems = append(problems, fmt.Sprintf("double release: the return at %s can be reached after releasing the packet twice (a buffer still being retransmitted goes back to the pool)", p.instrPos(last)))
			}
		}
		// uses after release: of the packet itself, or of memory obtained from it (Header(), Payload())
		derived := map[ssa.Value]bool{}
		instrsOf(fn, func(in ssa.Instruction) {
			if c, ok := in.(*ssa.Call); ok && !isRelease(in) && len(c.Call.Args) > 0 && p.origin(c.Call.Args[0]) == ssa.Value(get) && isRefType(c.Type()) {
				derived[c] = true
			}
		})
		instrsOf(fn, func(in ssa.Instruction) {
			if isRelease(in) {
				return
			}
			if _, isDbg := in.(*ssa.DebugRef); isDbg {
				return
			}
			usesPkt, usesMem := false, false
			for _, op := range in.Operands(nil) {
				if *op == nil {
					continue
				}
				if p.origin(*op) == ssa.Value(get) {
					usesPkt = true
				}
				if derived[p.origin(*op)] {
					usesMem = true
				}
			}
			if !usesPkt && !usesMem {
				return
			}
			c, isCall := in.(*ssa.Call)
			if !isCall {
				return
			}
			if before[in]&6 != 0 && before[in]&1 == 0 {
				what := "the packet"
				if usesMem && !usesPkt {
					what = "the packet's header/payload memory"
				}
				problems = append(problems, fmt.Sprintf("use after release: %s is used by %s at %s after the reference was released (the pooled buffers may already be recycled)", what, shortCallee(calleeName(&c.Call)), p.instrPos(in)))
			}
		})
	}
	if len(starts) == 0 {
		check(before)
	}
	for _, s := range starts {
		check(seededCounts(fn, s, isRelease))
	}
	if len(problems) > 0 {
		o.bad("T1", key, pos, strings.Join(dedupe(problems), "; "))
	} else {
		o.ok("T1", key, pos, "the retained packet is released exactly once on every path where it is non-nil, after its last use")
	}
}

func dedupe(s []string) []string {
	seen := map[string]bool{}
	var out []string
	for _, x := range s {
		if !seen[x] {
			seen[x] = true
			out = append(out, x)
		}
	}
	return out
}

// t1Slots: every store that replaces a slot of the ring releases the previous occupant exactly once (when non-nil),
// unless the ring is known to be empty (not started).
func t1Slots(p *Prog, o *obls, fn *ssa.Function, spec refcountSpec, found *int) {
	if isConstructor(p, fn) {
		return
	}
	n := 0
	instrsOf(fn, func(in ssa.Instruction) {
		st, ok := in.(*ssa.Store)
		if !ok {
			return
		}
		ia, ok := st.Addr.(*ssa.IndexAddr)
		if !ok {
			return
		}
		if u, ok := ia.X.(*ssa.UnOp); !ok || u.Op != token.MUL {
			return
		} else if fa, ok := u.X.(*ssa.FieldAddr); !ok || fieldKeyAddr(fa) != spec.slots {
			return
		}
		if !sharedBase(p, fn, ia.X) {
			return
		}
		*found++
		n++
		key := fmt.Sprintf("%s:slot-store#%d", funcKey(fn), n)
		pos := p.instrPos(st)
		idxKey := p.pureKey(ia.Index)
		// previous occupant: a load of the same slot that dominates the store
		var loads []*ssa.UnOp
		instrsOf(fn, func(in2 ssa.Instruction) {
			u, ok := in2.(*ssa.UnOp)
			if !ok || u.Op != token.MUL {
				return
			}
			ia2, ok := u.X.(*ssa.IndexAddr)
			if !ok || p.pureKey(ia2.X) != p.pureKey(ia.X) || p.pureKey(ia2.Index) != idxKey {
				return
			}
			if instrDominates(u, st) {
				loads = append(loads, u)
			}
		})
		// a range loop element over the same slice with the loop index is also the previous occupant
		for _, l := range findRangeLoops(fn) {
			if p.pureKey(l.Slice) == p.pureKey(ia.X) && l.Index == ia.Index {
				instrsOf(fn, func(in2 ssa.Instruction) {
					if u, ok := in2.(*ssa.UnOp); ok && l.isElem(p, u) && instrDominates(u, st) {
						loads = append(loads, u)
					}
				})
			}
		}
		if len(loads) == 0 {
			// the release may have been delegated to a helper: r.releaseAt(idx); r.slots[idx] = p
			delegated := false
			instrsOf(fn, func(in2 ssa.Instruction) {
				c, ok := in2.(*ssa.Call)
				if !ok || !instrDominates(c, st) {
					return
				}
				g := c.Call.StaticCallee()
				if g == nil || !p.InUniverse(g) {
					return
				}
				if pi, ok := releasesSlotParam(p, g, spec); ok && pi < len(c.Call.Args) && p.pureKey(c.Call.Args[pi]) == idxKey {
					delegated = true
				}
			})
			if delegated {
				o.ok("T1", key, pos, "previous occupant is released by a helper called with the same index before the slot is overwritten")
				return
			}
			// permitted only when the ring is empty
			for _, f := range dominatingFactsInstr(st) {
				f = normFact(f)
				if u, ok := f.cond.(*ssa.UnOp); ok && u.Op == token.MUL {
					if fa, ok := u.X.(*ssa.FieldAddr); ok && fieldKeyAddr(fa) == spec.started && !f.truth {
						o.ok("T1", key, pos, "slot written while the ring is empty (not started): no previous occupant")
						return
					}
				}
			}
			o.bad("T1", key, pos, "a ring slot is overwritten without loading and releasing its previous occupant: the replaced packet's pooled buffer leaks")
			return
		}
		okAny := false
		var why []string
		for _, l := range loads {
			isRelease := func(in ssa.Instruction) bool {
				c, ok := in.(*ssa.Call)
				return ok && calleeName(&c.Call) == spec.release && p.origin(c.Call.Args[0]) == ssa.Value(l)
			}
			starts := nonNilSuccessors(p, fn, l)
			if len(starts) == 0 {
				why = append(why, "previous occupant is not tested for nil")
				continue
			}
			good := true
			for _, s := range starts {
				m := seededCounts(fn, s, isRelease)[st]
				if m == 0 {
					continue // store not reachable from the non-nil branch (the nil case stores directly)
				}
				if m != 2 {
					good = false
					why = append(why, fmt.Sprintf("on the path where the previous occupant is non-nil it is released %s times before the store", m))
				}
			}
			if good {
				okAny = true
			}
		}
		if okAny {
			o.ok("T1", key, pos, "previous occupant is released exactly once before the slot is overwritten")
		} else {
			o.bad("T1", key, pos, strings.Join(dedupe(why), "; "))
		}
	})
}

// t1bGet: every non-nil value Get returns has passed a successful Retain on the same path.
func t1bGet(p *Prog, o *obls, fn *ssa.Function, spec refcountSpec) {
	key := funcKey(fn) + ":retain-before-return"
	var problems []string
	for _, b := range fn.Blocks {
		ret, ok := b.Instrs[len(b.Instrs)-1].(*ssa.Return)
		if !ok || len(ret.Results) == 0 || b == fn.Recover {
			continue
		}
		v := p.origin(ret.Results[0])
		if isNilConst(v) {
			continue
		}
		if _, isPtr := v.Type().Underlying().(*types.Pointer); !isPtr {
			continue
		}
		isRetain := func(in ssa.Instruction) bool {
			c, ok := in.(*ssa.Call)
			return ok && calleeName(&c.Call) == spec.retain && p.origin(c.Call.Args[0]) == v
		}
		starts := nonNilSuccessors(p, fn, v)
		if len(starts) == 0 {
			problems = append(problems, fmt.Sprintf("the value returned at %s is not tested for nil before being handed out", p.instrPos(ret)))
			continue
		}
		for _, s := range starts {
			m := seededCounts(fn, s, isRetain)[ret]
			if m == 0 {
				continue
			}
			if m != 2 {
				problems = append(problems, fmt.Sprintf("the return at %s can hand out a non-nil packet that was retained %s times (the caller will release it once)", p.instrPos(ret), m))
			}
		}
		// the failing branch of Retain must not reach this return
		instrsOf(fn, func(in ssa.Instruction) {
			if !isRetain(in) {
				return
			}
			call := in.(*ssa.Call)
			var errV ssa.Value = call
			for _, b2 := range fn.Blocks {
				c := ifCond(b2)
				bo, ok := c.(*ssa.BinOp)
				if !ok || p.origin(bo.X) != errV || !isNilConst(bo.Y) {
					continue
				}
				failing := b2.Succs[0]
				if bo.Op == token.EQL {
					failing = b2.Succs[1]
				}
				if failing == b || reachableFrom(failing)[b] {
					problems = append(problems, fmt.Sprintf("the return at %s is reachable from the failing branch of Retain", p.instrPos(ret)))
				}
			}
		})
	}
	if len(problems) > 0 {
		o.bad("T1", key, p.Pos(fn.Pos()), strings.Join(dedupe(problems), "; "))
	} else {
		o.ok("T1", key, p.Pos(fn.Pos()), "every non-nil packet handed out has passed exactly one successful Retain")
	}
}

// t2Tag: a function that hands out (returns) an element loaded from a direct-mapped slot ring[k % n] compares the
// element's tag with the key first — otherwise a colliding entry stored under another key is returned.
func t2Tag(p *Prog, o *obls, fn *ssa.Function, spec refcountSpec) {
	if spec.tag == "" {
		return
	}
	instrsOf(fn, func(in ssa.Instruction) {
		u, ok := in.(*ssa.UnOp)
		if !ok || u.Op != token.MUL {
			return
		}
		ia, ok := u.X.(*ssa.IndexAddr)
		if !ok {
			return
		}
		if uu, ok := ia.X.(*ssa.UnOp); !ok || uu.Op != token.MUL {
			return
		} else if fa, ok := uu.X.(*ssa.FieldAddr); !ok || fieldKeyAddr(fa) != spec.slots {
			return
		}
		// index is key % n
		bo, ok := p.origin(ia.Index).(*ssa.BinOp)
		if !ok || bo.Op != token.REM {
			if cv, ok := p.origin(ia.Index).(*ssa.Convert); ok {
				bo, ok = p.origin(cv.X).(*ssa.BinOp)
				if !ok || bo.Op != token.REM {
					return
				}
			} else {
				return
			}
		}
		keyLeaves := exprLeaves(p, bo.X)
		// is the loaded element returned?
		for _, b := range fn.Blocks {
			ret, ok := b.Instrs[len(b.Instrs)-1].(*ssa.Return)
			if !ok || len(ret.Results) == 0 || p.origin(ret.Results[0]) != ssa.Value(u) {
				continue
			}
			key := funcKey(fn) + ":slot-tag"
			// on the non-nil path to this return a comparison of elem.tag with the key must hold
			okTag := false
			for _, s := range nonNilSuccessors(p, fn, u) {
				// every path from s to ret passes a block dominated by the tag-equal fact: approximate by requiring a
				// tag comparison whose mismatch branch does not reach ret
				for _, b2 := range fn.Blocks {
					c := ifCond(b2)
					cb, ok := c.(*ssa.BinOp)
					if !ok || (cb.Op != token.NEQ && cb.Op != token.EQL) {
						continue
					}
					if !(s == b2 || s.Dominates(b2)) {
						continue
					}
					isTag := func(v ssa.Value) bool {
						if l, ok := v.(*ssa.UnOp); ok && l.Op == token.MUL {
							if fa, ok := l.X.(*ssa.FieldAddr); ok && fieldKeyAddr(fa) == spec.tag && p.origin(fa.X) == ssa.Value(u) {
								return true
							}
						}
						return false
					}
					isKey := func(v ssa.Value) bool {
						for _, l := range keyLeaves {
							if p.origin(v) == p.origin(l) {
								return true
							}
						}
						return false
					}
					if !((p.mentions(cb.X, isTag) && p.mentions(cb.Y, isKey)) || (p.mentions(cb.Y, isTag) && p.mentions(cb.X, isKey))) {
						continue
					}
					mismatch := b2.Succs[0]
					if cb.Op == token.EQL {
						mismatch = b2.Succs[1]
					}
					if mismatch != b && !reachableFrom(mismatch)[b] {
						okTag = true
					}
				}
			}
			if okTag {
				o.ok("T2", key, p.instrPos(u), "the element taken from slot key%n is only handed out after its tag was compared with the key")
			} else {
				o.bad("T2", key, p.instrPos(u), "an element taken from the direct-mapped slot key%n is returned without comparing its tag with the key: a packet stored under a colliding key is handed out as if it were the requested one")
			}
		}
	})
}

// releasesSlotParam: g loads ring[param], and on the path where that element is non-nil releases it exactly once
// before every return; returns the index of that parameter.
func releasesSlotParam(p *Prog, g *ssa.Function, spec refcountSpec) (int, bool) {
	res, found := -1, false
	instrsOf(g, func(in ssa.Instruction) {
		u, ok := in.(*ssa.UnOp)
		if !ok || u.Op != token.MUL || found {
			return
		}
		ia, ok := u.X.(*ssa.IndexAddr)
		if !ok {
			return
		}
		if uu, ok := ia.X.(*ssa.UnOp); !ok || uu.Op != token.MUL {
			return
		} else if fa, ok := uu.X.(*ssa.FieldAddr); !ok || fieldKeyAddr(fa) != spec.slots {
			return
		}
		par, ok := p.origin(ia.Index).(*ssa.Parameter)
		if !ok {
			return
		}
		isRelease := func(i2 ssa.Instruction) bool {
			c, ok := i2.(*ssa.Call)
			return ok && calleeName(&c.Call) == spec.release && p.origin(c.Call.Args[0]) == ssa.Value(u)
		}
		starts := nonNilSuccessors(p, g, u)
		if len(starts) == 0 {
			return
		}
		good := true
		for _, s := range starts {
			before := seededCounts(g, s, isRelease)
			for _, b := range g.Blocks {
				last := b.Instrs[len(b.Instrs)-1]
				if _, isRet := last.(*ssa.Return); isRet && b != g.Recover {
					if m := before[last]; m != 0 && m != 2 {
						good = false
					}
				}
			}
		}
		if good {
			for i, pp := range g.Params {
				if pp == par {
					res, found = i, true
				}
			}
		}
	})
	return res, found
}
