package main

// O5 — the header handed to the next RTP writer belongs to the goroutine that hands it over. Downstream writers may
// modify the header they are given (the transport-wide-CC interceptor sets an extension on it; that is how the chain
// works). A function that can run on several goroutines at once — it is started with `go` per event — and passes
// downstream a header object that lives in shared long-lived state (the header kept inside a retained packet of the
// retransmission ring) lets two of those goroutines hand the *same* object to a writer that mutates it: a data race
// in rtp.Header.SetExtension, and a corrupted extension list on the buffered packet. Such a function must pass a
// header it owns (a clone made for this write).

import (
	"fmt"
	"strings"

	"golang.org/x/tools/go/ssa"
)

func init() {
	registerEngine("O5", []string{"O5"}, runEngineO5)
}

func runEngineO5(p *Prog, o *obls) {
	// functions that run once per `go` statement inside a function that is itself per-event (not a service loop
	// started once from Bind under the lifecycle protocol): here simply every go target whose go statement is inside
	// a per-packet closure or a function reachable from one
	closures, _ := p.PktClosures()
	var roots []*ssa.Function
	for _, c := range closures {
		roots = append(roots, c.Fn)
	}
	perPacket := reachableFuncs(p, roots, false)
	multi := map[*ssa.Function]string{}
	for f := range perPacket {
		instrsOf(f, func(in ssa.Instruction) {
			if g, ok := in.(*ssa.Go); ok {
				for _, c := range p.Callees(g) {
					if p.InUniverse(c) {
						multi[c] = p.instrPos(g)
					}
				}
			}
		})
	}
	var entries []*ssa.Function
	for f := range multi {
		entries = append(entries, f)
	}
	n := 0
	seen := map[*ssa.Function]bool{}
	for _, e := range entries {
		for f := range reachableFuncs(p, []*ssa.Function{e}, false) {
			if seen[f] {
				continue
			}
			seen[f] = true
			k := 0
			instrsOf(f, func(in ssa.Instruction) {
				w, ok := in.(*ssa.Call)
				if !ok || !isChainWrite(p, w) || len(w.Call.Args) == 0 {
					return
				}
				n++
				k++
				key := fmt.Sprintf("%s:header-owner", funcKey(f))
				if k > 1 {
					key = fmt.Sprintf("%s#%d", key, k)
				}
				c, why := storageOf(p, w.Call.Args[0], f, 0, map[ssa.Value]bool{})
				if c == stFresh {
					// a local header *value* that was filled by dereferencing the stored one (`header := *p.Header()`) is
					// a shallow copy: its CSRC and Extensions slices are the stored header's — a writer that sets an
					// extension on it writes into the buffered packet all the same
					if al, ok := p.origin(w.Call.Args[0]).(*ssa.Alloc); ok {
						for _, st := range p.storesInto(al) {
							ld, ok := st.Val.(*ssa.UnOp)
							if !ok || st.Addr != ssa.Value(al) || ld.Op.String() != "*" {
								continue
							}
							if c2, why2 := storageOf(p, ld.X, f, 0, map[ssa.Value]bool{}); c2 == stPersistent {
								c, why = stPersistent, "a shallow copy (`*h`) of "+strings.TrimSpace(why2)+": the copy's CSRC and extension slices are still the stored header's"
							}
						}
					}
				}
				switch c {
				case stPersistent:
					o.bad("O5", key, p.instrPos(w), fmt.Sprintf("this function runs on a goroutine of its own per event (started at %s), and the header it passes downstream at %s is %s: two such goroutines hand the same header object to writers that may modify it (SetExtension), a data race on the buffered packet's header", multi[e], p.instrPos(w), strings.TrimSpace(why)))
				case stFresh:
					o.ok("O5", key, p.instrPos(w), "the header passed downstream is "+why)
				default:
					o.note("O5", key, p.instrPos(w), "origin of the header passed downstream not classified")
				}
			})
		}
	}
	o.ok("O5", "inspected", "-", fmt.Sprintf("%d downstream RTP write(s) in functions started with go per event", n))
}
