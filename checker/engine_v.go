package main

// V1 — an update made to a copy is not lost. A method with a pointer receiver that writes through its receiver, called
// on (part of) a *copy* of existing state — the value variable of a range loop over an array or slice of structs, a
// struct received or assigned by value — changes the copy. Unless the copy is afterwards read, handed on or copied
// back, the original never sees the update: `for _, m := range masks { m.Reset() }` clears nothing, a helper that takes
// the statistics struct by value and calls its unwrapper forgets every sequence number it has seen. For every such
// call the local object (the part the callee writes) must be observed after the call: a load of one of its fields, a
// load of the whole value (return it, store it back), or its address passed on.

import (
	"fmt"
	"go/token"
	"go/types"
	"sort"

	"golang.org/x/tools/go/ssa"
)

func init() {
	registerEngine("V", []string{"V1"}, runEngineV)
}

// mutatesReceiver: the method stores through its receiver parameter (directly, or by calling such a method on it or on
// a part of it).
func mutatesReceiver(p *Prog, fn *ssa.Function, depth int, memo map[*ssa.Function]int) bool {
	if v, ok := memo[fn]; ok {
		return v == 1
	}
	memo[fn] = 0
	if fn == nil || fn.Blocks == nil || len(fn.Params) == 0 || fn.Signature.Recv() == nil || depth > 4 {
		return false
	}
	recv := ssa.Value(fn.Params[0])
	res := false
	instrsOf(fn, func(in ssa.Instruction) {
		switch x := in.(type) {
		case *ssa.Store:
			if p.origin(addrRoot(x.Addr)) == recv {
				res = true
			}
		case *ssa.MapUpdate:
			if u, ok := p.origin(x.Map).(*ssa.UnOp); ok && u.Op == token.MUL && p.origin(addrRoot(u.X)) == recv {
				res = true
			}
		case *ssa.Call:
			sc := x.Call.StaticCallee()
			if sc == nil || !p.InUniverse(sc) || len(x.Call.Args) == 0 || sc.Signature.Recv() == nil {
				return
			}
			if _, isPtr := sc.Signature.Recv().Type().(*types.Pointer); !isPtr {
				return
			}
			if p.origin(addrRoot(x.Call.Args[0])) == recv && mutatesReceiver(p, sc, depth+1, memo) {
				res = true
			}
		}
	})
	if res {
		memo[fn] = 1
	}
	return res
}

func runEngineV(p *Prog, o *obls) {
	memo := map[*ssa.Function]int{}
	perPkg := map[string]int{}
	pkgs := map[string]bool{}
	for _, fn := range p.Funcs {
		pk := pkgRelOf(fn)
		pkgs[pk] = true
		k := 0
		instrsOf(fn, func(in ssa.Instruction) {
			call, ok := in.(*ssa.Call)
			if !ok || len(call.Call.Args) == 0 {
				return
			}
			sc := call.Call.StaticCallee()
			if sc == nil || !p.InUniverse(sc) || sc.Signature.Recv() == nil {
				return
			}
			if _, isPtr := sc.Signature.Recv().Type().(*types.Pointer); !isPtr {
				return
			}
			recvAddr := call.Call.Args[0]
			al, ok := cellAddr(addrRoot(recvAddr)).(*ssa.Alloc)
			if !ok || al.Parent() != fn {
				return
			}
			if _, isStruct := deref(al.Type()).Underlying().(*types.Struct); !isStruct {
				if _, isArr := deref(al.Type()).Underlying().(*types.Array); !isArr {
					return
				}
			}
			// a copy of existing state: some whole value was stored into the local object
			var copiedFrom ssa.Instruction
			for _, st := range p.storesInto(al) {
				if st.Addr == ssa.Value(al) {
					if _, isConst := st.Val.(*ssa.Const); !isConst {
						copiedFrom = st
					}
				}
			}
			if copiedFrom == nil {
				return // built here: a temporary the function owns
			}
			if !mutatesReceiver(p, sc, 0, memo) {
				return
			}
			perPkg[pk]++
			k++
			key := fmt.Sprintf("%s:copy.%s", funcKey(fn), sc.Name())
			if k > 1 {
				key = fmt.Sprintf("%s#%d", key, k)
			}
			// observed afterwards?
			observed := ""
			for _, f := range allNested(fn) {
				instrsOf(f, func(u ssa.Instruction) {
					if observed != "" || u == ssa.Instruction(call) {
						return
					}
					if f == fn && !canReach(call, u) {
						return
					}
					for _, op := range u.Operands(nil) {
						if *op == nil || cellAddr(addrRoot(*op)) != ssa.Value(al) {
							continue
						}
						switch x := u.(type) {
						case *ssa.UnOp:
							if x.Op == token.MUL && overlaps(x.X, recvAddr) {
								observed = "read at " + p.instrPos(u)
							}
						case *ssa.FieldAddr, *ssa.IndexAddr, *ssa.DebugRef:
						case *ssa.Store:
							if x.Val == *op {
								observed = "its address is stored at " + p.instrPos(u)
							}
						case ssa.CallInstruction:
							if overlaps(*op, recvAddr) {
								observed = "handed on at " + p.instrPos(u)
							}
						case *ssa.MakeClosure:
							observed = "captured at " + p.instrPos(u)
						default:
							observed = "used at " + p.instrPos(u)
						}
					}
				})
			}
			if observed != "" {
				o.ok("V1", key, p.instrPos(call), "the copy updated by "+sc.Name()+" is "+observed)
				return
			}
			o.bad("V1", key, p.instrPos(call), fmt.Sprintf("%s writes through its receiver, but here the receiver is (part of) a copy (made at %s) that is never read, handed on or copied back after the call: the update is lost and the original keeps its old state", shortCallee(funcKey(sc)), p.instrPos(copiedFrom)))
		})
	}
	var ps []string
	for k := range pkgs {
		ps = append(ps, k)
	}
	sort.Strings(ps)
	for _, pk := range ps {
		o.trivial("V1", pk+":inspected", "-", fmt.Sprintf("%d call(s) of mutating methods on copies inspected", perPkg[pk]))
	}
}

// overlaps: two addresses rooted in the same object select overlapping memory (one field path is a prefix of the other).
func overlaps(a, b ssa.Value) bool {
	pa, pb := fieldPathOf(a), fieldPathOf(b)
	n := len(pa)
	if len(pb) < n {
		n = len(pb)
	}
	for i := 0; i < n; i++ {
		if pa[i] != pb[i] {
			return false
		}
	}
	return true
}

func fieldPathOf(v ssa.Value) []int {
	var rev []int
	for i := 0; i < 12; i++ {
		switch x := v.(type) {
		case *ssa.FieldAddr:
			rev = append(rev, x.Field)
			v = x.X
			continue
		case *ssa.IndexAddr:
			rev = append(rev, -1)
			v = x.X
			continue
		}
		break
	}
	out := make([]int, len(rev))
	for i := range rev {
		out[i] = rev[len(rev)-1-i]
	}
	return out
}
