package main

// F6 — definite assignment before a fixed-width access. A call binary.{Big,Little}Endian.PutUintNN(s, …) / UintNN(s)
// panics unless len(s) ≥ NN/8. When s is a slice-typed field of an object this function has just allocated, the field
// starts as nil: on every feasible path class from the allocation to the access some store must have given the field
// a value. The walk prunes edges whose (canonical) branch fact contradicts the path class of the access, so two tests
// that partition the cases (`if p != nil {…}` … `if p == nil {…}`) are credited, while a pair that leaves a gap
// (`if len(p) > 0 {…}` … `if p == nil {…}`: non-nil and empty) is reported. Not decided: that the stored slice is
// long enough.

import (
	"fmt"
	"go/token"
	"go/types"
	"strings"

	"golang.org/x/tools/go/ssa"
)

func fixedWidthAccess(c *ssa.Call) (ssa.Value, int) {
	name := calleeName(&c.Call)
	if !strings.HasPrefix(name, "(encoding/binary.") {
		return nil, 0
	}
	for _, w := range []struct {
		suf string
		n   int
	}{{"Uint16", 2}, {"Uint32", 4}, {"Uint64", 8}} {
		if strings.HasSuffix(name, ")."+w.suf) && len(c.Call.Args) >= 1 {
			return c.Call.Args[len(c.Call.Args)-1], w.n
		}
		if strings.HasSuffix(name, ").Put"+w.suf) && len(c.Call.Args) >= 2 {
			return c.Call.Args[len(c.Call.Args)-2], w.n
		}
	}
	return nil, 0
}

func fF6(p *Prog, o *obls, fn *ssa.Function) {
	instrsOf(fn, func(in ssa.Instruction) {
		call, ok := in.(*ssa.Call)
		if !ok {
			return
		}
		s, width := fixedWidthAccess(call)
		if s == nil {
			return
		}
		u, ok := s.(*ssa.UnOp)
		if !ok || u.Op != token.MUL {
			return
		}
		fa, ok := u.X.(*ssa.FieldAddr)
		if !ok {
			return
		}
		if _, isSlice := deref(fa.Type()).Underlying().(*types.Slice); !isSlice {
			return
		}
		al, ok := p.origin(fa.X).(*ssa.Alloc)
		if !ok || !al.Heap || al.Parent() != fn {
			return
		}
		key := fmt.Sprintf("%s:%s(%s)", funcKey(fn), shortCallee(calleeName(&call.Call)), shortExpr(p, s))
		isStore := func(i ssa.Instruction) bool {
			st, ok := i.(*ssa.Store)
			if !ok {
				return false
			}
			f2, ok := st.Addr.(*ssa.FieldAddr)
			return ok && f2.Field == fa.Field && p.origin(f2.X) == ssa.Value(al) && !isNilConst(p.origin(st.Val))
		}
		var gaps []string
		for _, class := range p.factsAt(call.Block()) {
			want := map[string]bool{}
			for _, f := range class {
				f = normFact(f)
				if k, ct, ok := p.canonFact(f.cond, f.truth); ok {
					want[k] = ct
				}
			}
			// is there a store-free path from the allocation to the access that is consistent with the class?
			seen := map[*ssa.BasicBlock]bool{}
			var reach func(b *ssa.BasicBlock, from int) bool
			reach = func(b *ssa.BasicBlock, from int) bool {
				for i := from; i < len(b.Instrs); i++ {
					if b.Instrs[i] == ssa.Instruction(call) {
						return true
					}
					if isStore(b.Instrs[i]) {
						return false
					}
				}
				c := ifCond(b)
				for si, sc := range b.Succs {
					if seen[sc] {
						continue
					}
					if c != nil && b.Succs[0] != b.Succs[1] {
						f := normFact(condFact{c, si == 0})
						if k, ct, ok := p.canonFact(f.cond, f.truth); ok {
							if w, has := want[k]; has && w != ct {
								continue
							}
						}
					}
					seen[sc] = true
					if reach(sc, 0) {
						return true
					}
				}
				return false
			}
			start := instrIndex(al)
			if reach(al.Block(), start+1) {
				var desc []string
				for _, f := range class {
					f = normFact(f)
					if _, _, ok := p.canonFact(f.cond, f.truth); ok {
						t := "false"
						if f.truth {
							t = "true"
						}
						desc = append(desc, valueString(f.cond)+" is "+t)
					}
				}
				gaps = append(gaps, "when "+strings.Join(desc, " and "))
			}
		}
		if len(gaps) > 0 {
			o.bad("F6", key, p.instrPos(call), fmt.Sprintf("a %d-byte access to %s, a field of the object allocated at %s, is reachable without any assignment to that field (%s): the slice is still nil there and the access panics", width, shortExpr(p, s), p.instrPos(al), strings.Join(dedupe(gaps), "; ")))
		} else {
			o.ok("F6", key, p.instrPos(call), "on every feasible path class the field was assigned before the fixed-width access")
		}
	})
}
