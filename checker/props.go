package main

// Property definitions: which rule instances decide which property (DESIGN.md §0, §4).

const buffering = `pkg/(pacing|jitterbuffer)\.`

func init() {
	def := func(pd *propDef) { props[pd.id] = pd }

	def(&propDef{
		id:    "C01",
		title: "Media transparency of any chain of pass-through interceptors",
		explanation: "Decides structural necessary clauses on every path of every per-packet closure of the non-buffering interceptors and of Chain/Registry: " +
			"A0 each Bind* returns its argument or a closure wrapping it; A1 every writer closure forwards the caller's header/payload (same SSA values) exactly once on every path and returns the downstream error, or rejects with a non-nil error not selected by packet contents; " +
			"A2 every reader closure reads the wrapped reader once, runs every effect only on the success branch of the read's error test, returns the read's error and the read's length; " +
			"A3 no store through the caller's header/payload/packet slice in the closure or any repository callee (only the negotiated transport-wide-CC SetExtension is permitted); " +
			"A4 the read buffer is parsed only as buffer[:n]; K1/K2 Chain visits every member once in order, folds Bind results, keeps every Close error; Registry builds one member per factory. " +
			"Composition over chains follows by induction over the fold K1 establishes.",
		notDecided: "byte equality as seen by the downstream writer under concurrent injections; option combinations that fail construction; the buffering interceptors (pacing, jitterbuffer, cc pacer) which C01 excludes; ordering between concurrent callers",
		sels: []sel{s("A0"), s("A1"), s("A2"), s("A3"), sx("A4", buffering), s("K1"), s("K2")},
		assumptions: []string{
			"go/ssa and go/types model the program faithfully; callees are resolved by type information (static callee or CHA/VTA call graph)",
			"pion/rtp Header methods are classified by a frozen table read off pion/rtp v1.10.5 (mutators: SetExtension, SetExtensionWithProfile, DelExtension, ClearExtensions, Unmarshal)",
			"a call result is treated as reported by the callee (not as a packet-content predicate written in the closure)",
		},
	})
}
