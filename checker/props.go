package main

// Property definitions: which rule instances decide which property (DESIGN.md §0, §4).

const buffering = `pkg/(pacing|jitterbuffer)\.`

func init() {
	def := func(pd *propDef) { props[pd.id] = pd }

	def(&propDef{
		id:    "C01",
		title: "Media transparency of any chain of pass-through interceptors",
		explanation: "Decides structural necessary clauses on every path of every per-packet closure of the non-buffering interceptors and of Chain/Registry: " +
			"A0 each Bind* returns its argument or a closure wrapping it; A1 every writer closure forwards the caller's header/payload (same SSA values) exactly once on every path and returns the downstream error, or rejects with a non-nil error not selected by packet contents; " +
			"A2 every reader closure reads the wrapped reader once, runs every effect only on the success branch of the read's error test, returns the read's error and the read's length; " +
			"A3 no store through the caller's header/payload/packet slice in the closure or any repository callee (only the negotiated transport-wide-CC SetExtension is permitted); " +
			"A4 the read buffer is parsed only as buffer[:n]; K1/K2 Chain visits every member once in order, folds Bind results, keeps every Close error; Registry builds one member per factory. " +
			"Composition over chains follows by induction over the fold K1 establishes.",
		notDecided: "byte equality as seen by the downstream writer under concurrent injections; option combinations that fail construction; the buffering interceptors (pacing, jitterbuffer, cc pacer) which C01 excludes; ordering between concurrent callers",
		sels: []sel{s("F9"), s("X5"), s("V2"), s("O3"), s("A7"), so("A6"), s("K3", `\|interceptor[.:]`), s("A0"), s("A1"), s("A2"), s("A3"), sx("A4", buffering), s("K1"), s("K2")},
		assumptions: []string{
			"go/ssa and go/types model the program faithfully; callees are resolved by type information (static callee or CHA/VTA call graph)",
			"pion/rtp Header methods are classified by a frozen table read off pion/rtp v1.10.5 (mutators: SetExtension, SetExtensionWithProfile, DelExtension, ClearExtensions, Unmarshal)",
			"a call result is treated as reported by the callee (not as a packet-content predicate written in the closure)",
		},
	})
}

func init() {
	def := func(pd *propDef) { props[pd.id] = pd }
	stdAssume := []string{
		"go/ssa and go/types model the program faithfully; callees are resolved by type information (static callee or CHA/VTA call graph)",
	}
	def(&propDef{
		id: "C02", title: "No untrusted packet can crash or wedge an interceptor",
		explanation: "Decides structural necessary clauses over every function of the library: F1 every index into a slice taken from a received RTCP/RTP value (field of a parsed pion/rtcp|rtp struct, []*rtcp.X parameter, packet bytes of an entry point) by a counter is dominated — on every feasible path class — by a comparison of the index with that slice's length, and s[len(s)-c] by a test of len(s); " +
			"F2 every copy into a fixed-size pooled buffer is bounded by guards whose constants fit the buffer including the destination offset (or the buffer is re-allocated to the source length), and re-slices of pooled buffers use lengths derived from the buffer; F3 two-sided slices have ordered bounds (or the MarshalSize-of-a-header-parsed-from-the-same-bytes idiom) and length-relative bounds are tested; " +
			"F4 results of Attributes.GetRTPHeader/GetRTCPPackets, rtcp.Unmarshal and pion/rtp Unmarshal are used only on the success branch of their error; A4 read buffers are used only as buffer[:n]; D3 no blocking send/receive on an internal channel on an API path without a close-channel case or default (no wedge).",
		notDecided:  "crash-freedom itself: panics whose absence rests on arithmetic invariants (ring/bitmap indices seq%size, packetArrivalTimeMap capacity arithmetic, flexfec XOR lengths and constant header offsets), nil dereferences, panics inside pion/rtp and pion/rtcp, termination of loops (all loops over untrusted counts are bounded by 16-bit fields; not checked mechanically), one-sided slices s[n:] whose bound a callee computed",
		sels:        []sel{s("N4"), s("W4"), s("W3"), s("T8"), s("N3"), s("W2"), s("X5"), s("F8"), s("X3"), s("X2"), s("A7"), s("D7"), s("T5"), s("N1"), s("N2"), s("C7"), s("A5"), so("F6"), so("F5"), so("L4", `jitterbuffer`), s("F1"), s("F2"), so("F3"), s("F4"), s("A4"), s("D3")},
		assumptions: append([]string{"comparisons are credited as guards whatever their direction/strictness (a missing guard is detected, an off-by-one in a present guard is not, except for constant guards of pooled-buffer copies where the arithmetic is checked)", "two evaluations of a condition built only from parameters and constants agree (path classes are split on such conditions)"}, stdAssume...),
	})
	def(&propDef{
		id: "C10", title: "Interceptors are free of data races under every permitted concurrent use",
		explanation: "Decides a lock discipline over the whole library: C1 every access to a field of the frozen guard table (≈100 fields of 25 lock-bearing types, confirmed by reading; DESIGN.md App. A) on an object that may be shared happens with the guarding mutex held — exclusively for writes, including writes through deep fields (map elements, pointees, mutating method calls) — using per-function must-hold locksets, entry locksets propagated from static call sites, synchronous-literal inheritance and pruning of infeasible !ok branches of typed containers; " +
			"C2 state declared goroutine-confined is only accessed in functions reachable (call graph) from its owner goroutine's entry; C3 fields used with sync/atomic are only used with sync/atomic; C4 every other field of a lock-bearing type is never stored to on a shared object outside constructors/option closures (setup-time setters listed); " +
			"C5 the held→acquired lock graph is acyclic, no mutex is re-acquired while held on the same object, and no WaitGroup.Wait/blocking channel operation happens under a lock its counterpart can need; D4 the close of each lifecycle channel and the isClosed/Add/go start sequence run under the same mutex; H3 every plain send on a channel that a Close method closes is made on the not-closed branch of a closed test while a lock is read-held that the closing site holds exclusively (Close racing with traffic cannot send on a closed channel).",
		notDecided:  "races on memory the table does not name (fields of pion/rtp, pion/rtcp, x/time/rate objects; the Attributes map handed to packetdump's logger goroutine), lost updates that are not data races, liveness, stalls while a private lock is held across a downstream Write (noted, not a violation)",
		sels:        []sel{s("Z1"), s("R1"), s("V2"), s("O5"), s("O4"), s("C9"), s("C8"), s("C7"), s("C1"), s("C2"), s("C3"), s("C4"), s("C5"), s("C6"), s("D4"), s("H3")},
		assumptions: append([]string{"locks are identified by (struct type, field): two instances of one type are not distinguished", "the guard table and confinement table are hand-confirmed; every row must resolve to at least one access or the check fails", "exported methods are entry points with an empty lockset"}, stdAssume...),
	})
	def(&propDef{
		id: "C11", title: "Lifecycle: Close and Unbind stop activity and never strand a caller",
		explanation: "Decides for every go statement, goroutine loop, API-path channel operation, lifecycle channel and per-stream container: D1 each goroutine is dominated by WaitGroup.Add on a field of its owner, its entry defers Done, the owner's Close reaches Wait on every path; D2 every blocking loop in a goroutine has a select case on (or ranges over) a channel that a Close method closes, and that case leaves the loop; " +
			"D3 every send/receive on an internal channel in a function reachable from the API sits in a select with a close-channel case or a default; D4 close(lifecycle) and the start sequence share a mutex; D5 every container keyed by StreamInfo.SSRC that Bind{Local,Remote}Stream fills is emptied by the Unbind of the same direction and binding installs fresh state; D6 Bind starts a goroutine only on the not-closed branch of a closed test; C5(wait) a WaitGroup.Wait or blocking channel operation executed while a lock is held (including a lock held by the caller of Close) has no counterpart goroutine that can need that lock — Close cannot deadlock against the goroutine it waits for.",
		notDecided:  "wall-clock promptness; goroutines blocked inside a user-supplied writer; that nothing is written after Close returns when the goroutine is accounted but slow; double Close",
		sels:        []sel{s("N4"), s("Y1"), s("F9"), s("N3"), s("U3"), s("D9"), s("D8"), s("D7"), s("N1"), s("N2"), s("C7"), s("D1"), s("D2"), s("D3"), s("D4"), s("D5"), s("D6"), s("C5", `\|wait:`)},
		assumptions: append([]string{"channels are identified by the struct fields / make sites they flow through (parameters resolved through static call sites)", "only closes executed from a Close method count as shutdown signals"}, stdAssume...),
	})
}

func init() {
	def := func(pd *propDef) { props[pd.id] = pd }
	stdAssume := []string{
		"go/ssa and go/types model the program faithfully; callees are resolved by type information (static callee or CHA/VTA call graph)",
	}
	def(&propDef{
		id: "C13", title: "Caller-owned buffers are not retained or modified after a call returns",
		explanation: "Decides two structural clauses for every per-packet writer/reader closure and every pacer Write: B — a forward taint analysis with function summaries from the caller's header pointer, payload slice and read buffer (including shallow struct copies, sub-slices, references loaded out of them, local carriers, closures capturing them) finds no flow into memory that outlives the call (fields of shared objects, globals, maps, channels, goroutines, sync.Pool/list/sync.Map) except through copy/Clone/append-of-bytes; " +
			"A3 — no store through the caller's header/payload in the closure or any repository callee (only the negotiated transport-wide-CC SetExtension). Documented exceptions are frozen one by one (PacketFactoryNoOp = DisableCopy; the per-packet Attributes map).",
		notDecided:  "aliasing manufactured inside pion/rtp parsing (extension payload slices of a header returned by Attributes.GetRTPHeader(b[:n]) point into b); the Attributes map itself; direct use of JitterBuffer.Push (excluded by the property)",
		sels:        []sel{s("V2"), s("A9"), s("B"), s("A3")},
		assumptions: append([]string{"library calls outside the deny-list (sync.Pool.Put, container/list insertions, sync.Map.Store, atomic.Value.Store) do not retain their arguments; results of external methods other than Clone/Marshal/MarshalSize may alias their receiver"}, stdAssume...),
	})
	def(&propDef{
		id: "C04", title: "NACK responder retransmits exactly what was sent",
		explanation: "Decides the structural clauses that make the retransmission buffer hold what was sent: F2 — the copy into the 1460-byte pooled buffer is bounded on every path class including the 2-byte RTX offset (no silent truncation); B — what the responder stores is the factory's deep copy, never the caller's memory (DisableCopy excepted); " +
			"T1 — retain/release typestate: every packet obtained from RTPBuffer.Get is released exactly once after its last use, every slot overwrite in RTPBuffer.Add/Clear releases the previous occupant exactly once, Get hands out only packets that passed a successful Retain (a double release would recycle a buffer that is still being retransmitted); " +
			"C1 — ring, stream table and reference count are only touched under their mutexes; A1 — the original packet is forwarded exactly once after the copy; D5 — unbind removes the stream's ring.",
		notDecided:  "which sequence numbers the ring holds (window arithmetic seq%size, half-range tests), RTX header field values, the padding arithmetic, that the retransmission goroutine has finished when Close returns (known finding under C11)",
		sels: []sel{s("O6"), s("T8", `inspected|\|(internal/rtpbuffer|pkg/nack)[.:]`), so("T7"), s("O5", `inspected|pkg/nack`), s("O2", `inspected|pkg/nack`), s("U2", `\|(internal/rtpbuffer|pkg/nack)[.:]`), s("U1", `\|(internal/rtpbuffer|pkg/nack)[.:]`), s("T6"), s("W1", `\|(internal/rtpbuffer|pkg/nack)[.:]`), s("V1", `\|(internal/rtpbuffer|pkg/nack)[.:]`), so("T5", `rtpbuffer`), so("C6", `nack\..*lookup-delete`), s("J5", `\|(internal/rtpbuffer|pkg/nack)[.:]`), so("T4", `rtpbuffer`), s("C8", `nack\.|inspected`), s("J4", `\|(internal/rtpbuffer|pkg/nack)[.:]`), so("F6", `rtpbuffer`), s("P3", `rtpbuffer\.RTPBuffer`), s("F2", `rtpbuffer`), s("B", `nack\.\(\*ResponderInterceptor\)`), s("T1"), so("T2"), s("C1", `pkg/nack\.(localStream|ResponderInterceptor)\.|rtpbuffer\.RetainablePacket\.`),
			s("A1", `nack\.\(\*ResponderInterceptor\)`), s("D5", `nack\.ResponderInterceptor`)},
		assumptions: stdAssume,
	})
}

func init() {
	props["C12"] = &propDef{
		id: "C12", title: "Memory held per interceptor is bounded regardless of stream length",
		explanation: "Decides a necessary structural clause for every long-lived container of the library (every map, slice, list, sync.Map and channel field of a struct type that another struct holds, plus slices local to goroutine loops and the jitter buffer's linked list): E1 — a container that grows on a traffic path (reachable from a per-packet closure, a goroutine entry or a pacer/estimator entry point) also shrinks on a traffic path, or is of a bounded kind (channel with a configured capacity, map keyed by a ≤16-bit type, owner struct replaced as a whole, per-call temporary); " +
			"E2 — a shrink site that only executes when a struct field is set counts only if something in the program sets that field; E3 — where a growing slice is processed on an equality trigger len(x)==N, every path from that branch resets it (otherwise the length passes N and the trigger never fires again); D5 — per-stream containers filled by Bind*Stream are emptied by the matching Unbind*Stream.",
		notDecided:  "the numeric bound itself; whether an existing shrink runs often enough; GC reachability through third-party objects; growth hidden inside pion/rtp, pion/rtcp or x/time/rate",
		sels:        []sel{s("Y1"), s("E7"), s("E6"), s("E5"), s("E4", `\|pkg/stats[.:]`), s("K4", `\|pkg/stats[.:]`), s("C6", `keyed-update`), s("E1"), s("E2"), so("E3"), s("D5")},
		assumptions: []string{"go/ssa and go/types model the program faithfully", "traffic paths are the call-graph closure of per-packet closures, goroutine entries and the exported per-packet entry points of pacers/estimators/recorders"},
	}
}

func init() {
	std := []string{"go/ssa and go/types model the program faithfully; callees are resolved by type information"}
	props["C15"] = &propDef{
		id: "C15", title: "Transport-wide sequence numbers are gap-free and unique across streams",
		explanation: "Decides the structural clauses from which gap-freedom and uniqueness follow: I1 — the extension value derives from the result of one sync/atomic read-modify-write Add(&counter, 1) (never from a separate load, never from Load+Store), and C3 — the counter field is only ever accessed through sync/atomic; I2 — on every path of the writer closure at most one number is allocated, the allocation dominates SetExtension and is not in a loop; " +
			"A1 — after the extension is set the packet is forwarded exactly once or an error is returned; A3 — nothing else in the caller's header/payload is written; A0 — a stream that did not negotiate the extension gets its writer back unchanged. A single atomic fetch-and-add by 1 hands every caller a distinct consecutive uint32; truncation of consecutive integers to 16 bits is consecutive modulo 2^16.",
		notDecided:  "a number is consumed when SetExtension fails (ids outside 1..14 / foreign extension profile — outside the quantifier); ordering between allocation and the downstream write of concurrent writers",
		sels:        []sel{s("X4", `inspected|\|pkg/twcc[.:]`), s("I4"), s("I3"), s("J5", `\|pkg/twcc[.:]`), so("A6", `twcc`), s("J3", `\|pkg/twcc[.:]`), s("I1"), s("I2"), s("C3", `twcc\.HeaderExtensionInterceptor`), s("A1", `twcc\.\(\*HeaderExtensionInterceptor\)`), s("A3", `twcc\.\(\*HeaderExtensionInterceptor\)`), s("A0", `twcc\.\(\*HeaderExtensionInterceptor\)`)},
		assumptions: std,
	}
	props["C18"] = &propDef{
		id: "C18", title: "Jitter buffer emits pushed packets in sequence order, at most once",
		explanation: "Decides three structural clauses: L1 — every exported Pop* method of JitterBuffer reaches the queue only on the playing branch of the state test and the other branch returns an error (sibling agreement over Pop, PopAtSequence, PopAtTimestamp); L2 — the playout head is only advanced where the queue call's error is known nil (a failed pop does not disturb the buffer); " +
			"L3 — every Clear resets each root from which queries traverse (PriorityQueue.next, JitterBuffer.packets, RTPBuffer.packets): assigned nil/fresh, element-cleared over the whole range, or delegated — otherwise Find/PopAt/PopAtTimestamp still return what was buffered before Clear.",
		notDecided:  "sortedness of the linked list for arbitrary push orders (plain < on uint16, not wrap-aware), length bookkeeping, that PopAtSequence advances the head by one whatever sequence was popped, scalar playout state (playoutReady/playoutHead) after Clear(true)",
		sels:        []sel{s("X1", `inspected|jitterbuffer`), so("E5", `jitterbuffer`), s("O1", `inspected|jitterbuffer`), s("W1", `\|pkg/jitterbuffer[.:]`), s("V1", `\|pkg/jitterbuffer[.:]`), so("L5", `jitterbuffer`), s("J5", `\|pkg/jitterbuffer[.:]`), s("J4", `\|pkg/jitterbuffer[.:]`), so("L4", `jitterbuffer`), s("J3", `\|pkg/jitterbuffer[.:]`), s("L1"), s("L2"), s("L3")},
		assumptions: std,
	}
	props["C20"] = &propDef{
		id: "C20", title: "Sequence-number unwrapping: congruence and non-negativity clauses",
		explanation: "Decides one clause by abstract interpretation of (*Unwrapper).Unwrap's SSA: J1 — with symbols i (the uint16 input) and L (the previous result), every integer value is tracked as an affine form a·i + b·L + c over ℤ/2^16 (constants reduced modulo 65536, width conversions are class-preserving, φ joins must agree, branches are ignored so the clause holds on every path); at every return the result and the stored state are exactly 1·i + 0·L + 0. This proves for all inputs and all prior states that the value returned is congruent to the input modulo 2^16. J2 — by induction on the state (hypothesis: previous result ≥ 0): every path alternative of the stored state and of the returned value, written as an integer linear form over the previous state and the unsigned quantities, is a sum of non-negative terms or is guarded by a dominating `E >= 0` branch whose E is exactly that linear form; hence the result is non-negative for every input sequence.",
		notDecided:  "the ±2^15 proximity to the previous result (needs interval reasoning coupled to the half-range predicate), and every NTP clause (float64 rounding, monotonicity, 1 µs round trip) — numerical, not decidable by a structural rule",
		sels:        []sel{s("W3", `inspected|\|internal/(sequencenumber|ntp)[.:]`), s("U2", `\|internal/sequencenumber[.:]`), s("U1", `\|internal/sequencenumber[.:]`), s("W1", `\|internal/sequencenumber[.:]`), s("V1", `\|internal/sequencenumber[.:]`), s("J5", `\|internal/sequencenumber[.:]`), s("J4", `\|internal/sequencenumber[.:]`), s("J3", `\|internal/sequencenumber[.:]`), s("J1"), s("J2")},
		assumptions: std,
	}
}

func init() {
	std := []string{"go/ssa and go/types model the program faithfully; callees are resolved by type information"}
	props["C09"] = &propDef{
		id: "C09", title: "Feedback decoding attributes each acknowledgement to the right sent packet",
		explanation: "Decides the structural clauses the statement singles out: G1 — in every function that walks []*rtcp.RecvDelta with a cursor, no instruction that advances the cursor is control-dependent (post-dominator based, transitively) on a condition derived from a lookup in long-lived state (a comma-ok map lookup on a field, or a (T,bool) lookup predicate such as feedbackHistory.get): the arrival time decoded for a packet is independent of whether neighbouring packets are still in the history; " +
			"G2 — in every symbol loop, the counter that feeds the attribution key (feedbackHistoryKey.sequenceNumber / acknowledgement.sequenceNumber) is advanced exactly once on every path through the loop body (path counting), or is the range index; F1 — every index into RecvDeltas / packet-derived slices is guarded; E2 — the flag that lets history.delete release the TWCC mapping is actually set.",
		notDecided:  "arrival-time arithmetic (reference time ×64 ms, 250 µs deltas, RFC 8888 offsets), LRU contents of the sent-packet history, that each sent packet is reported at most once and in send order (value properties of history.buildReport), zero-valued acknowledgements emitted for unknown packets",
		sels:        []sel{s("G5"), s("X6"), s("W4", `inspected|\|(pkg/(rtpfb|twcc|rfc8888|gcc|cc)|internal/cc)[.:]`), s("Z1", `inspected|\|(pkg/(rtpfb|twcc|rfc8888)|internal/cc)[.:]`), s("W2", `inspected|\|(pkg/(rtpfb|twcc|rfc8888)|internal/cc)[.:]`), s("E7"), s("X4", `inspected|\|pkg/(rtpfb|twcc|rfc8888|cc|gcc)[.:]`), s("G4", `inspected|internal/cc|rtpfb`), s("O4", `inspected|rtpfb|internal/cc`), s("O2", `inspected|rtpfb`), s("A9"), s("W1", `\|(pkg/rtpfb|internal/cc)[.:]`), s("V1", `\|(pkg/rtpfb|internal/cc)[.:]`), s("J5", `\|(pkg/rtpfb|internal/cc)[.:]`), s("F7"), s("G3", `rtpfb`), s("P3", `rtpfb\.history`), s("J3", `\|(pkg/rtpfb|internal/cc)[.:]`), so("G1"), so("G2"), so("F1", `rtpfb\.convertTWCC|FeedbackAdapter|rtpfb\.convert`), so("E2", `rtpfb\.history`), so("E1", `rtpfb\.history`)},
		assumptions: std,
	}
	props["C16"] = &propDef{
		id: "C16", title: "GCC target bitrate stays finite, within bounds, and consistent",
		explanation: "Decides: H1 — every store to rateController.target and to SendSideBWE.latestBitrate outside construction/option closures stores the result of a clamp (clampInt or max/min nest) whose bounds are the configured minBitrate/maxBitrate fields of the same object, so the published int is within bounds by construction whatever NaN/Inf the float stages produced; " +
			"H2 — in the publishing function every pacer.SetTargetBitrate call and every invocation of the change callback receives the stored value itself (same SSA value or a reload of the field), and GetTargetBitrate returns that field (under SendSideBWE.lock by C1); " +
			"H3 — every call path to a plain send on a channel that a Close method closes passes a closed test on its not-closed branch while a lock is read-held that the closing site holds exclusively (no send on a closed pipe, documented closed error otherwise); C5 — that wait-under-lock is deadlock-free; C1/C2 rows of the gcc types.",
		notDecided:  "anything about the floating-point pipeline itself (rate = bits/dt with dt = 0, 0/0 in increase) beyond the fact that the clamp absorbs it; that feedback never blocks for long (consumers are goroutines fed through unbuffered pipes)",
		sels:        []sel{s("F9", `inspected|\|pkg/(cc|gcc)[.:]`), s("R1", `inspected|\|pkg/gcc[.:]`), s("O4", `inspected|makers|\|pkg/(cc|gcc)[.:]`), s("D9", `pkg/gcc\.`), s("D8", `pkg/gcc\.`), s("U2", `\|pkg/gcc[.:]`), s("U1", `\|pkg/gcc[.:]`), s("W1", `\|pkg/(gcc|cc)[.:]`), s("V1", `\|pkg/(gcc|cc)[.:]`), s("C9", `inspected|gcc\.`), s("A5", `pkg/(cc|gcc)\.`), s("C7", `pkg/gcc\.`), s("H1"), s("H2"), s("H3"), s("C5", `gcc\.`), s("C1", `pkg/gcc\.`), s("C2", `pkg/gcc\.`)},
		assumptions: std,
	}
}

func init() {
	std := []string{"go/ssa and go/types model the program faithfully; callees are resolved by type information"}
	props["C07"] = &propDef{
		id: "C07", title: "Sender reports count what was sent (counter clause only)",
		explanation: "Decides the counter clause: P1 — the sender-report writer closure calls senderStream.processRTP exactly once (path counting) before each identity forward, with the caller's own payload; inside processRTP packetCount is assigned its previous value +1 and octetCount its previous value + len(payload), each exactly once on every path (no branch skips or repeats them); A1 — every packet is forwarded exactly once or rejected; C1/C6 — both counters are only touched under senderStream.m and the read-modify-write is one critical section (no lost update).",
		notDecided:  "the RTP↔NTP clause entirely: extrapolated RTP timestamp, NTP conversion, modulo-2^32 arithmetic, the out-of-order reference rule, one report per stream per tick",
		sels:        []sel{s("V2", `inspected|\|pkg/report[.:]`), s("X4", `inspected|\|pkg/report[.:]`), s("A8", `report\.|inspected`), s("W1", `\|pkg/report[.:]`), s("V1", `\|pkg/report[.:]`), s("J5", `\|pkg/report[.:]`), s("J4", `\|pkg/report[.:]`), s("P3", `report\.senderStream`), s("P1"), s("A1", `report\.\(\*SenderInterceptor\)`), s("C1", `report\.senderStream\.`), s("C6", `report\.senderStream\.`), s("D5", `report\.SenderInterceptor`)},
		assumptions: std,
	}
	props["C14"] = &propDef{
		id: "C14", title: "FlexFEC-03 repair packets: structural clauses only",
		explanation: "Decides the structural clauses: M1 — in FlexEncoder03.encodeFlexFecPacket all accesses to the coverage table (GetCoveredBy, ExtractMask1/2/3_03) use one and the same index value, so the masks written name exactly the packets that were combined, and the repair sequence number is advanced exactly once on every path that produces a packet and on none that does not; " +
			"P2 + A1 — the application's packet is forwarded first, exactly once, unmodified (A3), and repair packets are injections issued only after it; B — what is buffered for XOR is a deep copy of what was sent (caller may reuse its buffer); F2 — the scratch buffer is re-allocated when a packet exceeds the pooled size; E3/C1 — the batch buffer is reset on every path from the batch-full trigger, under the stream mutex.",
		notDecided:  "XOR recoverability itself, bit layout of the masks, header offsets and length recovery — algebra over byte values; the coverage mask construction (flexfec_coverage.go); FlexEncoder20 and the decoder (declared work in progress)",
		sels:        []sel{so("G4", `\|pkg/flexfec[.:]`), s("U4"), so("P4"), s("V3", `inspected|\|pkg/flexfec[.:]`), s("W2", `inspected|\|pkg/flexfec[.:]`), s("X4", `inspected|\|pkg/flexfec[.:]`), s("W1", `\|pkg/flexfec`), s("V1", `\|pkg/flexfec`), s("T5", `inspected|flexfec`), so("T4", `flexfec`), s("K4", `\|pkg/flexfec[.:]`), s("T3", `flexfec`), s("M1"), so("P2", `flexfec`), s("A1", `flexfec`), s("A3", `flexfec`), s("B", `flexfec`), so("F2", `flexfec`), so("E3", `flexfec`), s("C1", `flexfec\.`)},
		assumptions: std,
	}
	props["C17"] = &propDef{
		id: "C17", title: "Pacers deliver each accepted packet once, in order, intact",
		explanation: "Decides: Q1 — FIFO discipline of the queue API: the leaky-bucket pacer's list is only used through PushBack/Front/Remove(Front())/Len, the pacing interceptor's slice queue is appended at the tail, read at element 0 and cut [1:]; Q2 — in the consumer loop at most one downstream Write per dequeued packet and exactly one unless the stream has no writer (comma-ok lookup failed), and a pacer's Write returns a nil error only on paths that enqueued exactly once; " +
			"Q3 — in the token-bucket loop every Write is dominated by a test of the limiter's budget and by a charge (AllowN) of the limiter; B — what is queued is a copy (header Clone, payload copy); F2 — the copy into the pooled buffer cannot truncate; C1 — queue and writer table under their mutexes; D2 — the consumer loops stop on Close.",
		notDecided:  "the cumulative-bits inequality as a numeric bound; ordering across the lock hand-over in Run beyond the single-consumer structure; that NoOpPacer holds its lock across the downstream write (noted)",
		sels:        []sel{so("T3", `gcc\.`), s("C9", `inspected|gcc\.|pacing\.`), so("T4", `gcc\.`), s("C7", `gcc\.\(\*(LeakyBucket|NoOp)Pacer\)|pacing\.`), s("F5", `pkg/(pacing|gcc)\.`), s("Q1"), s("Q2"), s("Q3"), s("Q4"), s("B", `gcc\.\(\*(LeakyBucket|NoOp)Pacer\)|pacing\.`), s("F2", `gcc\.`), s("C1", `gcc\.(LeakyBucket|NoOp)Pacer\.|pacing\.`), s("D2", `gcc\.\(\*LeakyBucketPacer\)|pacing\.`)},
		assumptions: std,
	}
	props["C19"] = &propDef{
		id: "C19", title: "Stream statistics equal a recount of the observed traffic (structural clauses)",
		explanation: "Decides: S1 — every store into a field of the exported *StreamStats structs in the recorder's record* methods is dominated by a branch condition computed from the recorder's own SSRC (header SSRC, MediaSSRC, report SSRC or DestinationSSRC membership compared with r.ssrc): a counter only moves for traffic addressed to that SSRC; S2 — the loops over the packets of a compound RTCP have no early exit (every packet of the compound is visited); S3 — no branch inside such a loop tests a loop-carried boolean that was computed from the recorder's SSRC for an earlier packet (each packet is judged by itself); " +
			"A1/A2 on the four stats closures — every forwarded / successfully read packet is handed to the recorder exactly once and a failed read never is; C1/C6 — latestStats is only read and updated under recorder.ms in one critical section (no lost update).",
		notDecided:  "every formula: packets lost as expected-minus-received, jitter, RTT from LSR/DLSR and DLRR, fraction lost, NTP conversions — numerical",
		sels:        []sel{s("U2", `\|pkg/stats[.:]`), s("U1", `\|pkg/stats[.:]`), s("S9"), s("S8"), s("W2", `inspected|\|pkg/stats[.:]`), s("X4", `inspected|\|pkg/stats[.:]`), s("X3", `inspected|\|pkg/stats[.:]`), s("S7"), s("S6"), s("W1", `\|pkg/stats[.:]`), s("V1", `\|pkg/stats[.:]`), s("E4", `\|pkg/stats[.:]`), s("K4", `\|pkg/stats[.:]`), s("P3", `stats\.internalStats`), s("S1"), s("S2"), s("S3"), s("S4"), s("S5"), s("A1", `stats\.`), s("A2", `stats\.`), s("C1", `stats\.`), so("C6", `stats\.`)},
		assumptions: std,
	}
}

// Clauses of rules added after the first build round (DESIGN.md §10.2, §10.9); appended here so that each property's
// explanation in the evidence names every rule its selectors use.
func init() {
	add := func(id, text string) { props[id].explanation += " " + text }
	add("C01", "K3 no loop compacts in place (out := xs[:0]) the slice it ranges over while an iteration can append more than one element (members would be dropped or bound twice).")
	add("C02", "L4 a node inserted into a linked list is linked between two neighbours that cannot be the same node (no cycle, so no traversal that never ends); F5 every integer division/remainder by a non-constant is dominated by a test that excludes zero (ring sizes fixed at construction are listed as notes).")
	add("C02", "A5 every call of an Attributes method that stores into its receiver (Set, GetRTPHeader, GetRTCPPackets) has a receiver known non-nil there: a fresh map, or a value tested against nil on every path.")
	add("C16", "A5 the cc interceptor and the estimator never store into a nil Attributes map.")
	add("C09", "G3 every lookup on an index map (integer values used as keys of the record map) is in comma-ok form and its value is used as a key only where ok is true: an acknowledgement for an unknown sequence number is never attributed to record 0.")
	add("C14", "T3 the scratch buffer taken from the shared sync.Pool is given back at most once on every path (a second Put lets two encoders share one buffer).")
	add("C12", "C6 (keyed update) per-stream state in a secondary map is only created under the critical section that read the registry the key came from: an Unbind in between cannot be undone by a late update.")
	add("C13", "B also treats pion/rtp Packet.Unmarshal / Header.Unmarshal as storing sub-slices of their argument in the receiver.")
	add("C04", "F6 the fixed-width write of the original sequence number into the RTX payload happens only after the payload field of the freshly allocated packet was assigned, on every feasible path class.")
	add("C04", "P3 the ring's newest-sequence mark is only moved under a comparison with its previous value or in the first-packet branch.")
	add("C07", "P3 the newest-sent sequence number (the reference for the in-order test) is only overwritten under a comparison with its previous value or in the first-packet branch; P1 also demands that a first-packet test of the packet counter reads it before the increment.")
	add("C09", "P3 highestAcked only moves under a comparison with its previous value; J3 no sequence number is reduced by a remainder with 2^16-1 / 2^32-1.")
	add("C10", "C7 every mutex a function acquires itself is released on every path to a return unless its unlock is deferred (may-hold analysis; infeasible !ok branches pruned).")
	add("C11", "C7 no function returns with a mutex it acquired still held (a leaked lock strands every later caller).")
	add("C16", "C7 no gcc function returns with a mutex it acquired still held.")
	add("C15", "J3 the transport-wide counter is not reduced by a remainder with 2^16-1.")
	add("C17", "Q4 the accepting side of a queue-based pacer never writes downstream itself (no bypass that overtakes queued packets); F5 the burst computation does not divide by a value that can be zero.")
	add("C18", "L3 also covers every field of the queue that points into the linked structure (derived from the types, e.g. a cached tail); L4 a node inserted into the list is linked between two neighbours that cannot be the same node; J3 no remainder by 2^16-1.")
	add("C19", "S4 in the per-packet RTP recording functions the accumulated packet/byte/header-byte counters are updated on exactly the same paths; S5 every RTCP closure of the interceptor hands each batch to every recorder (one unconditional hand-off per registry entry, no early exit, no selection outside the recorder); P3 the highest received sequence number is only raised through a comparison with its previous value.")
	add("C20", "J3 no remainder by 2^16-1 / 2^32-1 in the unwrapper's package.")
	// rules added after seed round 6 (DESIGN.md §10.10)
	add("C01", "A6 the extension payload attached to a packet's header is allocated during the call that attaches it (SetExtension keeps the slice: shared storage would let an injected or concurrent packet overwrite the value of a packet still on its way).")
	add("C15", "A6 the transport-wide-CC payload handed to SetExtension is allocated per call, not a captured scratch slice or a ring slot of the interceptor.")
	add("C02", "C7 no Unlock (explicit or deferred) can be reached after another Unlock of the same mutex without a Lock in between: unlocking an unlocked mutex is a fatal runtime error that no recover can catch.")
	add("C10", "C8 a per-packet function literal stores to variables of its Bind method (or objects that method allocated) only with a mutex held: concurrent calls for one stream share them.")
	add("C04", "T4 nothing reads, writes or keeps a pooled header/payload buffer after it was put back; C8 the responder's writer keeps no unsynchronised per-call temporaries outside the per-packet function; J4 no window size or sequence number is reinterpreted as a signed value of the same width (only wrap-around differences are).")
	add("C14", "T4 the pooled scratch buffer is not used or returned after the (deferred) Put; K4 an append stored to a slice field is based on that same field.")
	add("C17", "T4 the leaky-bucket pacer gives a payload buffer back to the pool only after the downstream Write that reads it, and touches nothing of it afterwards; C7 the pacer's consumer loop re-takes the queue lock on every path back to the loop head (no double unlock, no leaked lock).")
	add("C12", "E4 a history cut by a constant number of elements is cut after every append that can repeat; K4 each history is appended to itself, not built on another field's array.")
	add("C19", "E4/K4 the sender-report and receiver-reference-time histories are each appended to themselves and cut back after every append (otherwise round-trip matching scans stale entries).")
	add("C09", "F7 a result slice cut out of storage that outlives the call is cleared before a loop that can skip positions fills it (positions of unknown packets must stay zero, not keep an earlier chunk's acknowledgement).")
	add("C18", "J4 no sequence number is reinterpreted as signed of the same width.")
	add("C20", "J4 no 16-/32-bit magnitude is reinterpreted as signed of the same width in the unwrapper's package (only differences are).")
	add("C07", "J4 no counter or sequence number of at most 32 bits is reinterpreted as signed of the same width.")
	// rules added after seed round 7 (DESIGN.md §10.11)
	add("C02", "N1 a map field that is assigned entries is never set to nil after construction unless every entry assignment follows a nil test or a re-make (assigning into a nil map panics); N2 a pointer field that is reset to nil and tested against nil somewhere is tested before every dereference.")
	add("C11", "N1/N2 what Close or Unbind reset to nil is either never written through afterwards (maps) or tested before every use (pointers): Bind after Close and a NACK that straddles an Unbind do not panic.")
	add("C15", "I3 the Bind method hands its writer back unwrapped only under the test that the extension was not negotiated (id == 0): no other condition lets a negotiated stream leave without the extension; J5 no ordered comparison against a wrapping sum.")
	add("C09", "J5 no ordered comparison of unsigned values of at most 32 bits against a sum of two run-time quantities (first+runLength): a run that crosses the wrap must be walked with a counter or a difference.")
	add("C04", "J5 no ordered comparison against a wrapping sum of sequence numbers.")
	add("C18", "J5 no ordered comparison against a wrapping sum of sequence numbers. L5 a node is unlinked through a trailing pointer that is its predecessor in every iteration of the scan, the first included (or the unlink is unreachable in the first iteration because the head was compared before the loop); unlinking through the node's own back pointer is noted, not decided.")
	add("C20", "J5 no ordered comparison against a wrapping sum in the unwrapper's package.")
	add("C07", "J5 no ordered comparison against a wrapping sum.")
	// rules added after seed round 10 (DESIGN.md §10.14)
	add("C09", "A9 the report handed to the application through Attributes refers to memory allocated for that read, not to a buffer of the history that the next feedback refills (an earlier report would turn into the later one).")
	add("C13", "A9 values published through Attributes do not alias storage the interceptor overwrites later.")
	add("C15", "A3/I3 also: the extension id used for a stream comes from that stream's own StreamInfo — a helper that finds it must return the ID field of one of the extensions it was given (or 0) on every path, not an id remembered from another stream.")
	add("C01", "O3 in an RTP reader, a header extension fetched with GetExtension (nil when the packet does not carry it) is parsed only under a presence test, or the parse error is not what the read returns: a packet the upstream reader delivered is not turned into an error because an optional extension is absent.")
	add("C02", "F4 also covers the repository's own fallible constructors — calls returning (object, error) whose every failing return hands back nil (PacketFactory.NewPacket): the object is used only where the error is known nil or the object was tested itself; an error that is merely logged lets the nil object reach a dereference.")
	add("C09", "O2 the writer closures file the outgoing packet in the history before the downstream Write of the same call (no filing call is reachable from the Write): feedback that arrives while the Write returns finds the packet.")
	add("C04", "O2 the responder stores the packet in the ring before the downstream Write: a NACK that arrives at once finds it.")
	add("C12", "E3 also: from the append that precedes the length==threshold test, no path to a return goes around the test (an early return in between leaves the length at the threshold; the next append passes it for good).")
	add("C15", "I1 also: nothing in the repository overwrites the counter after construction — no atomic Store/Swap/CompareAndSwap, no plain assignment, no Add of anything but 1 (a reset on Unbind or Close repeats numbers of streams that are still sending).")
	add("C16", "D9 SendSideBWE.Close closes the lifecycle channel (or finds it closed) on every feasible path to a return — error branches of repository calls that never fail are not paths — so no failure of a later teardown step leaves a torn-down estimator that still reports open.")
	add("C11", "D9 every Close method that closes a lifecycle channel does so, or finds it closed, on every feasible path to a return.")
	add("C17", "Q1 also (slice queue): the element written is cut from the queue in the same iteration — the cut dominates the write, or no path from the write back to the loop head goes around a cut — so a failed downstream write cannot hand the same packet over twice.")
	add("C18", "L2 also: where a pop's queue call is known to have failed, no method that writes through the queue is called (a failed pop leaves the buffer as it was). L3 does not demand that Clear reset a free list — a field every store into which stores a node zeroed as a whole or taken from the field's own chain.")
	add("C12", "E5 a node taken off the front of a doubly linked list is cut off from it: after the root advances (`q.next = q.next.next`) every path resets the new first node's back pointer or finds the list empty — otherwise every node ever popped stays reachable through the chain of back pointers while the list is not empty.")
	add("C18", "X1 a field a functional option configures (the minimum packet count) is never assigned a constant after construction: Clear(true) resets state, not configuration — otherwise \"playback has started\" is judged against the default 50 after the first Clear, whatever minimum the buffer was built with.")
	add("C18", "E5 the jitter buffer's list does not keep popped nodes reachable through the new head's back pointer.")
	add("C09", "W1 no successful return hands back a named result that nothing ever assigned while sibling returns compute that position (the running reference time of the TWCC chunk unpackers restarts at zero).")
	add("C09", "O4 the factory hands every interceptor a history of its own: nothing stored into the interceptor that NewInterceptor builds is a stateful object (or a struct referring to one) taken from the factory.")
	add("C10", "O4 no NewInterceptor method shares a stateful object (mutex, map or channel inside) between the interceptors it builds.")
	add("C04", "T7 a packet stored into the ring without becoming its newest has been tested to lie within the last `size` numbers (or the store is on no such path): a late send from outside the window does not evict the in-window packet of the same slot. O5 a retransmission hands the next writer a header of its own, not the one kept in the ring (concurrent retransmissions of one packet would hand the same object to writers that modify it).")
	add("C10", "O5 a function started with `go` per event passes downstream only headers it owns.")
	add("C12", "E6 a container that gets an entry per RTP packet is cut back on the media path or by a periodic loop — removal only where feedback is read does not bound it when the peer sends none.")
	add("C09", "G4 a result slice with one slot per input position whose slots are assigned only where the history look-up succeeds is not returned whole: positions not found would be reported as zero-valued acknowledgements.")
	add("C13", "B also: objects obtained from the attributes' parse caches (GetRTPHeader, GetRTCPPackets) still refer to the read buffer — extension payloads, raw / application-defined RTCP packets, profile extensions of reports; RTCP types whose Unmarshal copies everything (frozen table, pion/rtcp v1.2.17) do not. A reference parked in a struct field that nothing ever reads is not counted.")
	add("C04", "U2 nothing reachable from RTPBuffer.Add sets `started` back to false: a jump handled by clearing the whole ring must not make the next (possibly late) packet a first packet that re-seeds highestAdded.")
	add("C04", "U1 in the function that has the ring's first-packet branch (`if !started { started = true; highestAdded = seq … }`), no field that branch initialises is read before the flag test: a fast path ahead of it would file the first packet as the successor of number 0.")
	add("C20", "U1 the unwrapper's last value is not read ahead of its first-call test.")
	add("C19", "U1 no statistics field initialised by a first-packet branch is read ahead of that branch's flag test.")
	add("C16", "D8 WriteRTCP's closed test dominates every successful return: no batch is accepted silently after Close (fast paths included); U1 no estimator state initialised by a first-sample branch is read ahead of the flag test.")
	add("C11", "D8 a function that fails with an error on the closed branch of a closed predicate has no successful return ahead of that test.")
	add("C18", "O1 a packet object handed to the jitter buffer (or any repository function that keeps the pointer), when it comes out of a field of long-lived state, is taken out of that field on every path: no object is queued while a spare slot still refers to it.")
	// rules added after seed round 9 (DESIGN.md §10.13)
	add("C07", "A8 the sender report written downstream is allocated for that report: it is not an object kept in the stream and refilled on the next tick (a receiver still holding the earlier report would see the later counts).")
	add("C16", "H1 also: a clamp applied to the initial bitrate at construction uses the configured bounds of the same object, not other constants.")
	add("C01", "A7 the length a reader reports is the wrapped reader's n, the result of a copy or MarshalTo into the caller's buffer, or 0 — never a length computed elsewhere (len of a scratch slice), which can exceed the buffer.")
	add("C02", "X2 a reader that hands its caller other bytes than the upstream read produced (a packet popped from a buffer, its length taken from MarshalTo) hands out attributes of its own: the upstream read's attributes hold the header an inner interceptor cached for another packet, and an outer interceptor slicing `bytes[header.MarshalSize():n]` by it panics in the caller of Read.")
	add("C02", "A7 no reader reports more bytes than the caller's buffer holds (callers re-slice the buffer with n).")
	add("C15", "I4 from every allocation of a number, every path to a downstream write passes the SetExtension that puts the number on the packet: a pass-through decided after the allocation would consume numbers that never leave.")
	add("C04", "T6 a ring slot whose occupant was released (directly or through a helper that releases the slot it is told to) is assigned nil or the new packet on every path to the return, or the ring is reset: no slot keeps a packet the ring no longer owns.")
	add("C09", "W4 an interface value that a function type-asserts to a basic type T is not compared (==, !=) with a constant boxed as another type: `attr != 0` on an `any` holding a uint8 compares with int(0) and is always true — extension ID 0 (\"not negotiated\") was filed on the transport-wide-CC path and the packet refused, so feedback for it found nothing.")
	add("C02", "W4 the same clause for the whole library.")
	add("C20", "W3 no comparison has an unsigned non-constant operand on one side and the constant 0 on the other with `>=` or `<`: the unwrapper's underflow guard (`last+delta−2^16 >= 0`) is a question about a signed number; on unsigned fields it is always true, the subtraction wraps around 2^64 and the result is negative after the conversion back.")
	add("C02", "W3 the same clause for the whole library: a guard that has become a tautology no longer excludes what it was written to exclude.")
	add("C10", "Z1 a function that takes the same mutex twice with a release in between makes no store to a field of the mutex's owner, map assignment or delete on its maps, or call of its methods under the second hold that is computed from what it loaded from the owner's fields under the first: the state may have changed in between, and two callers can both finish the first half on the same snapshot (every access is locked — the race detector sees nothing).")
	add("C09", "Z1 for the feedback history: collecting a report and forgetting what it reported are one critical section — otherwise two RTCP readers copy the same range and every acknowledged packet is reported twice.")
	add("C04", "T8 a loop that starts at x±1 and ends when its variable *equals* b is dominated by a fact that b differs from x (b != x, or b−x compared with zero): with b equal to x the walk goes all the way round the 16-bit space, releasing every slot of the ring — one duplicate of the newest packet wipes the retransmission window.")
	add("C02", "T8 the same clause for every such walk of the library (receive logs, report bitmaps): 65535 iterations per packet is the nearest thing to looping forever a 16-bit counter allows; F5 also judges a floating-point ratio of two counts (a length, an accumulated counter) like an integer division — 0/0 is NaN, and a NaN that enters a running average never leaves it, so the controller stops reacting to any later feedback.")
	add("C14", "P4 in a writer closure that injects packets of its own (repair packets over a batch), every forward of the protected stream's packets is preceded on every path by a statement that keeps something derived from the header or payload beyond the call, unless it lies behind a test that the packet's SSRC is not the stream's: a pass-through in front of the buffering leaves a hole in the batch, the encoder refuses it as non-consecutive, and a whole group of media packets leaves unprotected.")
	add("C04", "O2 also: in a writer closure that files its packets, no downstream Write can be reached from the entry without passing a filing call, except behind a test that the packet's SSRC is not the stream's: a packet forwarded although no copy could be kept is on the wire, will be NACKed, and the responder knows nothing of it (nor did its number advance the ring's window).")
	add("C17", "Q3 also: no charge of the limiter is made with a negated amount (a refund hands tokens back and lets the drain loop go on in the same tick).")
	add("C13", "B also: what a parse-cache getter (GetRTPHeader, GetRTCPPackets) returns is the caller's memory whatever bytes it is given, unless the attributes map was made in the same function: the cache answers with an inner interceptor's parse of the caller's buffer even when a private copy is passed in.")
	add("C11", "Y1 in every Unbind*Stream method that removes from a registry of the interceptor, a return that skips the removal lies behind a not-found test of that registry — not behind a condition computed from the StreamInfo as it looks now or from a user filter: the stream's retained packets, writer and goroutines otherwise stay registered until Close.")
	add("C12", "Y1 the same clause is what makes per-stream memory collectable after Unbind.")
	add("C01", "F9 no call of the module or of pion/rtp, pion/rtcp has its error result dropped (the tree is errcheck-clean apart from the two constructors F4 judges): an error from the wrapped reader or writer, or from what an interceptor calls on the way, reaches the caller.")
	add("C16", "F9 in pkg/cc and pkg/gcc: the estimator's error (ErrSendSideBWEClosed after Close, a malformed report) is what the RTCP reader returns — `_ = estimator.WriteRTCP(…)` reports success for feedback written through a closed estimator.")
	add("C13", "B the DisableCopy opt-out covers the non-copying packet factory where the user's choice is honoured — a call through the configured PacketFactory value; a PacketFactoryNoOp the responder builds itself (a fallback for packets the copying factory refuses) retains the caller's header and payload without being asked to.")
	add("C19", "S8 no branch is decided by a comparison of a FullIntraRequest's MediaSSRC: a FIR names its targets in its FCI entries (DestinationSSRC()), the header's media-source field is unused and zero on the wire (RFC 5104 4.3.1) — counting FIRs by it attributes a conformant FIR to no stream and one with several entries to at most one.")
	add("C19", "S9 in the recording functions, a counter incremented on a match inside a loop that searches one of the recorder's histories (lastSenderReports, lastReceiverReferenceTimes) lies outside the loop's body — the match ends the search: a history holding the same middle-32-bit value twice otherwise books one reply as several round-trip measurements.")
	add("C10", "R1 a slice or map received from a channel is only read: no element store, copy into it, append onto a re-slice, delete, or in-place algorithm of sort/slices — the sender hands the same batch to more than one consumer (the delay controller to the arrival-group accumulator and the rate calculator), unsynchronised. Selected likewise under C16.")
	add("C17", "Q3 also requires that what is tested is what is charged: the amount the budget is compared with and the amount passed to AllowN are the same quantity (same non-constant sources under the same constant factors, conversions aside) — a packet admitted against a capped cost fails the full-size charge, which deducts nothing, and leaves for free.")
	add("C02", "N3 no function with an interface result returns a pointer that may be nil boxed in that interface (a φ with a nil edge): the interface is then non-nil, the caller's `!= nil` guard passes and the method call behind it dereferences nil — a panic in whichever goroutine runs it.")
	add("C11", "N3 the same clause keeps Close from panicking a service goroutine it is waiting for (a disabled ticker returned as a typed nil, then stopped in the loop's deferred clean-up).")
	add("C02", "W2 a constant left shift is not done in a narrower integer type and widened afterwards (the bits shifted out are lost), and a slice size that is a difference of unsigned operands is dominated by a comparison of the two operands (a wrapped difference makes make panic in the caller of Read).")
	add("C09", "W2 keys built by shifting (ssrc<<16 | seq) are shifted in the width of the key: two SSRCs that agree in their low 16 bits otherwise share history entries and feedback for one stream is written onto the other's packets.")
	add("C02", "X5 the keys under which Attributes caches the parsed header and packets are constants of a package-private named type: a plain int key is equal to an application's or another interceptor's int key of the same value, and every read then fails with errInvalidType (or accounts the wrong packet).")
	add("C07", "V2 the batch handed to the next RTCP writer is not a persistent slice refilled in place (`x = append(x[:0], …)` on a field, a captured variable or a loop-carried value): a writer that reads the batch later finds the next report in it — one report twice, the other never. Selected likewise under C01, C10 (the reader races with the refill) and C13.")
	add("C14", "V3 no write through a sub-slice cut from a slice made without spare capacity can follow an append to that slice: once the payload buffer has been regrown the header view points into the abandoned array, and the header fields XOR-ed afterwards are missing from the repair packet that is sent.")
	add("C16", "C9 also follows defer: a callback deferred after `defer mu.Unlock()` runs before the unlock (LIFO) — synchronously, under the estimator's lock, on the pipeline goroutine.")
	add("C11", "U3 a copy derived from the stream table that is rebuilt only when a dirty flag is raised (a flag that is only ever assigned constants, tested and lowered where the table is re-read) is current only if every function that mutates the table raises the flag: an Unbind that deletes the stream without raising it leaves the periodic loop emitting feedback for the removed SSRC on every tick.")
	add("C02", "F8 an object a receiver-filling parser writes into (rtp.Header.Unmarshal) is filed in a map, stored through a parameter or sent on a channel only where the parse is known to have succeeded: a header cached before it is parsed stays in the attributes when the parse fails, and the next interceptor gets the half-filled header with a nil error and slices the packet by it.")
	add("C02", "X3 where the library has a reader that hands up other bytes than it read (the jitter buffer, RTP), no RTP reader uses its attributes *parameter* after the upstream read: it holds what inner interceptors cached for the packet that was read, not for the packet the reader was given (X2's panic, seen from the outer side).")
	add("C19", "X3 the recorder is given the attributes the upstream read returned with the packet, not the ones passed down: behind a jitter buffer the latter describe another packet, and the recount would use its header size and sequence number.")
	add("C09", "X4 nothing a Bind*Stream method derives from its StreamInfo (the negotiated transport-wide-CC extension ID) is stored in a plain field of the interceptor: the next Bind overwrites it and the streams bound earlier are parsed with the last stream's ID — feedback attributed to the wrong sent packets. Selected likewise under C15, C07, C14 and C19 for the interceptors they cover.")
	add("C09", "E7 the sent-packet LRU files a list element in its index only where the key is known absent (or after unlinking the previous element): a record pushed for a key already present orphans the old element, and the orphan's eviction later deletes the live record's index entry — feedback for a retransmitted packet stops matching.")
	add("C12", "E7 the same clause bounds the LRU: an orphaned element per repeated key is a list that grows with the number of retransmissions.")
	add("C16", "O4(c) a function literal that can be the per-interceptor maker a factory keeps (cc.InterceptorFactory.bweFactory) builds what it returns: handing back a captured estimator gives every PeerConnection the same SendSideBWE — one target bitrate, one pacer, one closed flag.")
	add("C19", "S7 a figure copied out of an RTCP object (a sender report's packet count, a report block's jitter) is assigned only under a comparison of the recorder's SSRC with a field of that same object: reaching the recorder because the compound packet mentions the stream is not enough — a sender report of another stream that carries a block about this one must not overwrite this stream's remote-outbound figures.")
	add("C19", "S6 the figures copied from one report block (values computed from nothing but that block's fields) are assigned on the same paths of an iteration: an early continue cannot leave one of them from an older report; V1 no mutating method is called on a discarded copy of the recorder's state (an unwrapper inside a struct passed by value).")
	add("C14", "V1 no mutating method is called on a copy that is then dropped (`for _, m := range masks { m.Reset() }` clears nothing).")
	add("C16", "V1 no update is made to a discarded copy of estimator state.")
	add("C09", "V1 no update is made to a discarded copy of history state.")
	add("C18", "V1 no update is made to a discarded copy of queue state.")
	add("C20", "V1 the unwrapper is never advanced on a copy.")
	add("C04", "V1 no update is made to a discarded copy of ring or packet state.")
	add("C07", "V1 no update is made to a discarded copy of stream state.")
	// rules added after seed round 8 (DESIGN.md §10.12)
	add("C10", "C9 no call of a user callback (a function held in a field or listener table) or of the neighbouring chain element happens with one of the object's mutexes held, beyond the (callee, mutex) pairs confirmed on the pinned tree: foreign code that calls back into the object would wait for the mutex its caller holds.")
	add("C16", "C9 the bitrate-change callback and the pacer's downstream writes are not moved under the estimator's / pacer's mutexes.")
	add("C09", "X6 a call that files or looks up a packet by header.SequenceNumber takes the SSRC from the same header (every argument for a parameter named *ssrc* is a load of that header's SSRC): retransmissions and FlexFEC repair packets travel through the media stream's writer with their own SSRC and sequence space — filed under the SSRC the stream was bound with they overwrite the media packet with the same number.")
	add("C11", "N4 a pointer read out of a map with m[k] is used (field selected, method called) only on the true branch of the lookup's ok, behind a nil test, or after a store of the same key in the same function: Unbind for a stream that was turned away at Bind, a second Unbind, an Unbind after Close all look up an SSRC that is not in the table.")
	add("C14", "U4 a field filled on first use (a store under a test of that field against nil / length zero, with a value computed from other fields of the object and from no argument) is reset by every function that writes one of those fields: a per-FEC-index list of covered packets memoised across UpdateCoverage keeps answering for the previous mask.")
	add("C16", "R1 also follows a received slice through a local variable that a closure captures (the less function of sort.Slice).")
	add("C18", "L2 also: a store to the playout head in a pop function is the head's previous value plus the constant one — a head set from the popped packet's own number (after a pop by timestamp) jumps over everything buffered in between.")
	add("C19", "S8 also (once per packet): a `…Count++` on the statistics under the type switch over a compound's members sits in no loop the switch is not in — nackCount/pliCount/firCount are numbers of packets (webrtc-stats), not of matching FCI entries.")
	add("C02", "W2 also (down-counting loops): a loop that walks a slice from the back and indexes it with the loop variable stops at a bound that cannot be negative — a constant, or len(s) − k only where k is min(len(s), …) or has been compared with the length: `i >= len(s)-limit` with a configured window ends at s[-1] while fewer than limit entries exist.")
	add("C14", "G4 in pkg/flexfec: a result slice of repair packets allocated with one slot per FEC index and returned whole has every slot assigned — a slot filled only where encoding succeeded leaves a zero-valued rtp.Packet (SSRC 0, PT 0, version 0) that the interceptor writes as a repair packet.")
	add("C07", "P3 also: every test that decides a store to the newest-sent mark is a comparison with its previous value, a configuration or first-packet test (a state field read directly and compared with a constant), or reads no mutable state of the stream — a test of something computed from other state (the age of the time reference) is a second way in for a packet the sequence comparison turned away.")
	add("C18", "L2 also (accepting side): outside the pop functions, a store that sets the playout head from a packet handed in is dominated by the fact that the queue is empty — playback starts at the first packet buffered; a later, older packet that pulls the head back makes the first pop return it and strands every pop after that.")
	add("C17", "T3 (taken elsewhere) in the leaky-bucket pacer: of two Put sites for the buffer of one dequeued item (direct, or through a repository helper that puts its parameter's buffer on some path) neither is reachable from the other without a new item being taken, unless the later one is decided by the earlier call's result — a buffer given back twice is handed to two accepted packets, and the second copy overwrites the first one's payload.")
	add("C04", "O6 the callback the responder hands to rtcp.NackPair.Range returns true on every path: Range stops at the first false, and a callback that gives up after a failed downstream write (or a packet that has left the window) drops every later sequence number of the pair, packets that are still on file.")
	add("C09", "G5 a function that copies several fields of one acknowledgement into one packet record overwrites each from that acknowledgement: a boolean status among them does not also depend on its own previous value (by data or through the test that selects the stored value) — `Arrived = Arrived || ack.arrived` beside an overwritten arrival time and ECN reports, after an overlapping older feedback, arrived-at-time-zero, a combination no feedback carried.")
	add("C02", "F3 also (count form): a prefix `s[:n]` whose n is a count field of a received RTCP/RTP object (TransportLayerCC.PacketStatusCount, a report's length) is preceded by a comparison of n with len(s) or cap(s), or s was made with that very n: the count is what the sender claims, not what the chunks decoded to.")
	add("C10", "O5 also: a local header *value* filled by dereferencing the stored header (`h := *pkt.Header()`) is not owned — its CSRC and extension slices are the stored ones; only Clone() or a fresh literal is.")
	add("C17", "Q1 also (list queue): the function that removes from the pacer's queue never inserts into it — a packet taken out and put back at the tail is behind every packet accepted since, those of its own stream included.")
	add("C19", "S9 also (what is measured): a duration obtained with time.Time.Sub and stored into the statistics under a history match is computed from the history entry (field-sensitively: the same element and field) that was compared with the echoed LSR/LRR — the round-trip time is (arrival − delay) − the time the echoed timestamp names, not the distance to a local send time kept beside it.")
	add("C17", "C9 the pacers' downstream writes are not moved under a pacer mutex (the no-op pacer's read lock is the confirmed, noted exception).")
	add("C11", "D7 a service loop (a goroutine's select loop with a lifecycle case) is left only through that case: no early return on a failed write leaves the loop's channels unserved while the interceptor is still open.")
	add("C02", "D7 no service loop dies early and leaves its producers blocked; T5 an open-ended view of a pooled buffer is only written into (never the source of a copy/XOR); F1 an index len(s)-c needs a test that bounds len(s) from below, an upper-bound test does not count.")
	add("C14", "T5 the encoder reads the pooled scratch buffer only up to the bytes it has just marshalled into it (no open-ended view of the buffer is used as a source).")
	add("C04", "T5 open-ended views of the pooled payload buffer are write destinations only; C6 a stream is removed from the table in the critical section that looked it up (or is looked up again), so a re-bind in between is not removed in its place.")
}
