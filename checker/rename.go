package main

// Rename layer. The rule tables of the engines (guard table, confinement owners, queue specs, …) name types, fields and
// functions of the tree the tables were confirmed on. A behaviour-preserving rename must not turn those anchors into
// "unresolved": this file keeps an inventory of the confirmed tree (baseline_symbols.json, regenerated with
// `ivcheck -dump symbols`), compares it with the tree being analysed, and maps every entity of the current tree that
// is a renamed baseline entity back to its baseline name. typeKey, fieldKeyAddr and funcKey return these canonical
// names, so tables, obligation keys and known-finding keys stay stable under renames.
//
// A current entity is taken for a renamed baseline entity only if the baseline name is gone, the current name is new,
// the structural fingerprint agrees (field: identical type; function: identical signature and receiver; type: same
// package and kind) and it is the best match by use (which functions touch the field / which callees the function
// has) and name similarity. Every applied rename is reported in the evidence.

import (
	"encoding/json"
	"fmt"
	"go/types"
	"os"
	"regexp"
	"sort"
	"strings"

	"golang.org/x/tools/go/ssa"
)

type symField struct {
	Name  string   `json:"name"`
	Type  string   `json:"type"`
	Users []string `json:"users,omitempty"`
}

type symType struct {
	Kind    string     `json:"kind"`
	Fields  []symField `json:"fields,omitempty"`
	Methods []string   `json:"methods,omitempty"`
}

type symFunc struct {
	Sig     string   `json:"sig"`
	Callees []string `json:"callees,omitempty"`
	Callers []string `json:"callers,omitempty"` // top-level functions that call it or start it with go ("go:" prefix)
}

type symbols struct {
	Types map[string]*symType `json:"types"`
	Funcs map[string]*symFunc `json:"funcs"`
}

// canonical names of renamed entities (current object → baseline name); filled by installRenames
var (
	canonTypeName  = map[*types.TypeName]string{}
	canonFieldName = map[*types.Var]string{}
	canonFuncName  = map[*types.Func]string{}
)

func cTypeName(o *types.TypeName) string {
	if n, ok := canonTypeName[o]; ok {
		return n
	}
	return o.Name()
}

// cFieldName is the canonical (baseline) name of a struct field.
func cFieldName(v *types.Var) string {
	if v == nil {
		return "?"
	}
	if n, ok := canonFieldName[v]; ok {
		return n
	}
	return v.Name()
}

func cFuncName(f *ssa.Function) string {
	if fo, ok := f.Object().(*types.Func); ok && fo != nil {
		if n, ok := canonFuncName[fo]; ok {
			return n
		}
		if o := fo.Origin(); o != nil && o != fo {
			if n, ok := canonFuncName[o]; ok {
				return n
			}
		}
	}
	return f.Name()
}

const baselineFile = verifDir + "/baseline_symbols.json"

func relQual(pk *types.Package) string { return relPkg(pk.Path()) }

// inventory lists the named types (with fields and their users), functions and methods of the universe.
func (p *Prog) inventory() *symbols {
	out := &symbols{Types: map[string]*symType{}, Funcs: map[string]*symFunc{}}
	users := map[*types.Var]map[string]bool{}
	top := func(f *ssa.Function) *ssa.Function {
		for f.Parent() != nil {
			f = f.Parent()
		}
		return f
	}
	for _, f := range p.Funcs {
		tk := funcKey(top(f))
		instrsOf(f, func(in ssa.Instruction) {
			var v *types.Var
			switch x := in.(type) {
			case *ssa.FieldAddr:
				v = fieldOfAddr(x)
			case *ssa.Field:
				v = fieldOfVal(x)
			}
			if v != nil {
				if users[v] == nil {
					users[v] = map[string]bool{}
				}
				users[v][tk] = true
			}
		})
	}
	for sp := range p.Universe {
		for _, m := range sp.Members {
			tn, ok := m.(*ssa.Type)
			if !ok {
				continue
			}
			n, ok := tn.Type().(*types.Named)
			if !ok {
				continue
			}
			st := &symType{Kind: fmt.Sprintf("%T", n.Underlying())}
			if s, ok := n.Underlying().(*types.Struct); ok {
				for i := 0; i < s.NumFields(); i++ {
					fv := s.Field(i)
					st.Fields = append(st.Fields, symField{Name: cFieldName(fv), Type: types.TypeString(fv.Type(), relQual), Users: sortedKeys(users[fv])})
				}
			}
			for i := 0; i < n.NumMethods(); i++ {
				st.Methods = append(st.Methods, n.Method(i).Name())
			}
			sort.Strings(st.Methods)
			out.Types[typeKey(n)] = st
		}
	}
	for _, f := range p.Funcs {
		if f.Parent() != nil {
			continue
		}
		sf := &symFunc{Sig: types.TypeString(f.Signature, relQual)}
		cs := map[string]bool{}
		for _, g := range allNested(f) {
			instrsOf(g, func(in ssa.Instruction) {
				if ci, ok := in.(ssa.CallInstruction); ok {
					if sc := ci.Common().StaticCallee(); sc != nil && sc.Parent() == nil {
						if p.InUniverse(sc) {
							cs[funcKey(sc)] = true
						} else {
							cs[sc.String()] = true
						}
					} else if ci.Common().IsInvoke() {
						cs["invoke "+ci.Common().Method.Name()] = true
					}
				}
			})
		}
		sf.Callees = sortedKeys(cs)
		out.Funcs[funcKey(f)] = sf
	}
	callers := map[string]map[string]bool{}
	for _, f := range p.Funcs {
		tk := funcKey(top(f))
		instrsOf(f, func(in ssa.Instruction) {
			ci, ok := in.(ssa.CallInstruction)
			if !ok {
				return
			}
			sc := ci.Common().StaticCallee()
			if sc == nil || sc.Parent() != nil || !p.InUniverse(sc) {
				return
			}
			k := funcKey(sc)
			if callers[k] == nil {
				callers[k] = map[string]bool{}
			}
			if _, isGo := ci.(*ssa.Go); isGo {
				callers[k]["go:"+tk] = true
			} else {
				callers[k][tk] = true
			}
		})
	}
	for k, sf := range out.Funcs {
		sf.Callers = sortedKeys(callers[k])
	}
	return out
}

func jaccard(a, b []string) float64 {
	if len(a) == 0 && len(b) == 0 {
		return 0.5
	}
	m := map[string]bool{}
	for _, x := range a {
		m[x] = true
	}
	inter := 0
	for _, x := range b {
		if m[x] {
			inter++
		}
	}
	union := len(m)
	for _, x := range b {
		if !m[x] {
			union++
			m[x] = true
		}
	}
	if union == 0 {
		return 0
	}
	return float64(inter) / float64(union)
}

// nameSim: length of the longest common subsequence (case-insensitive) over the longer length.
func nameSim(a, b string) float64 {
	a, b = strings.ToLower(a), strings.ToLower(b)
	if len(a) == 0 || len(b) == 0 {
		return 0
	}
	prev := make([]int, len(b)+1)
	for i := 1; i <= len(a); i++ {
		cur := make([]int, len(b)+1)
		for j := 1; j <= len(b); j++ {
			if a[i-1] == b[j-1] {
				cur[j] = prev[j-1] + 1
			} else if prev[j] > cur[j-1] {
				cur[j] = prev[j]
			} else {
				cur[j] = cur[j-1]
			}
		}
		prev = cur
	}
	l := len(a)
	if len(b) > l {
		l = len(b)
	}
	return float64(prev[len(b)]) / float64(l)
}

type renameCand struct {
	old, new string
	score    float64
}

// assign picks a one-to-one matching greedily by score (ties → lexicographic, deterministic).
func assign(cands []renameCand, min float64) map[string]string {
	sort.Slice(cands, func(i, j int) bool {
		if cands[i].score != cands[j].score {
			return cands[i].score > cands[j].score
		}
		if cands[i].old != cands[j].old {
			return cands[i].old < cands[j].old
		}
		return cands[i].new < cands[j].new
	})
	usedOld, usedNew := map[string]bool{}, map[string]bool{}
	out := map[string]string{}
	for _, c := range cands {
		if c.score < min || usedOld[c.old] || usedNew[c.new] {
			continue
		}
		usedOld[c.old], usedNew[c.new] = true, true
		out[c.new] = c.old
	}
	return out
}

func pkgOfKey(k string) string {
	// "pkg/x.T", "pkg/x.(*T).m", "pkg/x.f"
	if i := strings.Index(k, ".("); i >= 0 {
		return k[:i]
	}
	if i := strings.LastIndex(k, "."); i >= 0 {
		return k[:i]
	}
	return k
}

var recvRe = regexp.MustCompile(`^(.*)\.\((\*?)([A-Za-z0-9_]+)(\[.*\])?\)\.([A-Za-z0-9_]+)$`)

// installRenames compares the current tree with the baseline inventory and installs the canonical-name maps.
// It returns one line per applied rename.
func (p *Prog) installRenames() []string {
	if p.Fixture {
		return nil
	}
	data, err := os.ReadFile(baselineFile)
	if err != nil {
		return []string{"baseline inventory not found: anchors are resolved by their literal names"}
	}
	var base symbols
	if err := json.Unmarshal(data, &base); err != nil {
		return []string{"baseline inventory unreadable: " + err.Error()}
	}
	var notes []string
	p.baseline = &base
	cur := p.inventory()

	// ---- types
	{
		var cands []renameCand
		for ok_, bt := range base.Types {
			if cur.Types[ok_] != nil {
				continue
			}
			for nk, ct := range cur.Types {
				if base.Types[nk] != nil || pkgOfKey(nk) != pkgOfKey(ok_) || ct.Kind != bt.Kind {
					continue
				}
				if isExportedName(ok_[strings.LastIndex(ok_, ".")+1:]) || isExportedName(nk[strings.LastIndex(nk, ".")+1:]) {
					continue // exported names are API
				}
				var bf, cf []string
				for _, f := range bt.Fields {
					bf = append(bf, f.Name+" "+f.Type)
				}
				for _, f := range ct.Fields {
					cf = append(cf, f.Name+" "+f.Type)
				}
				sc := 0.45*jaccard(bf, cf) + 0.45*jaccard(bt.Methods, ct.Methods) + 0.1*nameSim(ok_, nk)
				cands = append(cands, renameCand{ok_, nk, sc})
			}
		}
		m := assign(cands, 0.5)
		if len(m) > 0 {
			for sp := range p.Universe {
				for _, mem := range sp.Members {
					if tn, ok := mem.(*ssa.Type); ok {
						k := relPkg(sp.Pkg.Path()) + "." + tn.Name()
						if old, ok := m[k]; ok {
							canonTypeName[tn.Object().(*types.TypeName)] = old[strings.LastIndex(old, ".")+1:]
							notes = append(notes, fmt.Sprintf("type %s is taken for the renamed %s", k, old))
						}
					}
				}
			}
			cur = p.inventory()
		}
	}
	// ---- functions and methods (receiver types are canonical by now)
	{
		var cands []renameCand
		for ok_, bf := range base.Funcs {
			if cur.Funcs[ok_] != nil {
				continue
			}
			for nk, cf := range cur.Funcs {
				if base.Funcs[nk] != nil || pkgOfKey(nk) != pkgOfKey(ok_) || cf.Sig != bf.Sig {
					continue
				}
				om, nm := recvRe.FindStringSubmatch(ok_), recvRe.FindStringSubmatch(nk)
				if (om == nil) != (nm == nil) {
					continue
				}
				on, nn := ok_[strings.LastIndex(ok_, ".")+1:], nk[strings.LastIndex(nk, ".")+1:]
				if om != nil {
					if om[3] != nm[3] || om[2] != nm[2] {
						continue
					}
					on, nn = om[5], nm[5]
				}
				if isExportedName(on) || isExportedName(nn) {
					continue // exported names are API: a different name is a different function
				}
				sc := 0.35*jaccard(bf.Callees, cf.Callees) + 0.35*jaccard(bf.Callers, cf.Callers) + 0.3*nameSim(on, nn)
				cands = append(cands, renameCand{ok_, nk, sc})
			}
		}
		m := assign(cands, 0.3)
		if len(m) > 0 {
			for _, f := range p.Funcs {
				if f.Parent() != nil {
					continue
				}
				if old, ok := m[funcKey(f)]; ok {
					if fo, ok := f.Object().(*types.Func); ok && fo != nil {
						now := funcKey(f)
						canonFuncName[fo] = old[strings.LastIndex(old, ".")+1:]
						notes = append(notes, fmt.Sprintf("function %s is taken for the renamed %s", now, old))
					}
				}
			}
			// install first, then the keys change
			cur = p.inventory()
		}
	}
	// ---- fields
	for sp := range p.Universe {
		for _, mem := range sp.Members {
			tn, ok := mem.(*ssa.Type)
			if !ok {
				continue
			}
			n, ok := tn.Type().(*types.Named)
			if !ok {
				continue
			}
			s, ok := n.Underlying().(*types.Struct)
			if !ok {
				continue
			}
			tk := typeKey(n)
			bt, ct := base.Types[tk], cur.Types[tk]
			if bt == nil || ct == nil {
				continue
			}
			bset, cset := map[string]symField{}, map[string]symField{}
			for _, f := range bt.Fields {
				bset[f.Name] = f
			}
			for _, f := range ct.Fields {
				cset[f.Name] = f
			}
			var cands []renameCand
			// ordinal of a field among the fields that kept their names: a rename usually keeps the position
			ordinal := func(fs []symField, name string, other map[string]symField) int {
				n := 0
				for _, f := range fs {
					if f.Name == name {
						return n
					}
					if _, kept := other[f.Name]; kept {
						n++
					}
				}
				return -1
			}
			missingOfType, newOfType := map[string]int{}, map[string]int{}
			for on, bf := range bset {
				if _, ok := cset[on]; !ok {
					missingOfType[bf.Type]++
				}
			}
			for nn, cf := range cset {
				if _, ok := bset[nn]; !ok {
					newOfType[cf.Type]++
				}
			}
			for on, bf := range bset {
				if _, ok := cset[on]; ok {
					continue
				}
				for nn, cf := range cset {
					if _, ok := bset[nn]; ok || cf.Type != bf.Type {
						continue
					}
					sc := 0.4*jaccard(bf.Users, cf.Users) + 0.3*nameSim(on, nn)
					if ordinal(bt.Fields, on, cset) == ordinal(ct.Fields, nn, bset) {
						sc += 0.3
					}
					if missingOfType[bf.Type] == 1 && newOfType[cf.Type] == 1 {
						sc += 1 // the only field of that type that disappeared and the only one that appeared
					}
					cands = append(cands, renameCand{on, nn, sc})
				}
			}
			m := assign(cands, 0.3)
			for i := 0; i < s.NumFields(); i++ {
				if old, ok := m[s.Field(i).Name()]; ok {
					canonFieldName[s.Field(i)] = old
					notes = append(notes, fmt.Sprintf("field %s.%s is taken for the renamed %s.%s", tk, s.Field(i).Name(), tk, old))
				}
			}
		}
	}
	sort.Strings(notes)
	return notes
}

// wrappedBaselineField: the owner type had, on the confirmed tree, exactly one field of the given (container) type that
// no longer exists — the container was wrapped into a registry type held in a new field. Returns that field's name so
// that obligations about the wrapped container keep the key they had ("" if there is no such field).
func (p *Prog) wrappedBaselineField(owner string, inner types.Type) string {
	if p.baseline == nil || inner == nil {
		return ""
	}
	bt := p.baseline.Types[owner]
	if bt == nil {
		return ""
	}
	n := p.namedByKey(owner)
	if n == nil {
		return ""
	}
	st, ok := n.Underlying().(*types.Struct)
	if !ok {
		return ""
	}
	have := map[string]bool{}
	for i := 0; i < st.NumFields(); i++ {
		have[cFieldName(st.Field(i))] = true
	}
	want := types.TypeString(inner, relQual)
	found := ""
	for _, f := range bt.Fields {
		if f.Type == want && !have[f.Name] {
			if found != "" {
				return ""
			}
			found = f.Name
		}
	}
	return found
}
