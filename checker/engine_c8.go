package main

// C8 — a per-packet closure keeps no unsynchronised state between calls. The function literal a Bind method returns is
// called for every packet of the stream, and the interface allows several goroutines to do so at once (an application
// writer and a retransmission, two readers). A variable of the Bind method that the literal captures, or an object the
// Bind method allocated and the literal reaches through a captured pointer, is therefore shared by all those calls:
// every plain store to it from inside the literal must happen with some mutex held (must-hold lockset non-empty).
// Declaring a per-call temporary one scope too far out (`var pkt *P` next to the closure instead of inside it) is the
// classic way to break this.

import (
	"fmt"
	"strings"

	"golang.org/x/tools/go/ssa"
)

func init() {
	registerEngine("C8", []string{"C8"}, runEngineC8)
}

func runEngineC8(p *Prog, o *obls) {
	la := p.Locks()
	closures, _ := p.PktClosures()
	for _, c := range closures {
		if c.Method || c.Fn.Parent() == nil {
			continue // method/object forms keep their state in fields: the guard table (C1) covers those
		}
		outer := map[*ssa.Function]bool{}
		for f := c.Fn.Parent(); f != nil; f = f.Parent() {
			outer[f] = true
		}
		var bad []string
		n := 0
		for _, f := range allNested(c.Fn) {
			li := la.info[f]
			instrsOf(f, func(in ssa.Instruction) {
				st, ok := in.(*ssa.Store)
				if !ok {
					return
				}
				root := cellAddr(addrRoot(st.Addr))
				// through a captured pointer to an object the Bind method allocated
				if u, ok := root.(*ssa.UnOp); ok {
					root = p.origin(u)
				} else {
					root = p.origin(root)
				}
				al, ok := root.(*ssa.Alloc)
				if !ok || !outer[al.Parent()] {
					return
				}
				n++
				held := 0
				if li != nil {
					held = len(li.before[in])
				}
				if held == 0 {
					what := "the captured variable " + al.Comment
					if al.Comment == "" || strings.HasPrefix(al.Comment, "new") || strings.HasPrefix(al.Comment, "complit") {
						what = "an object allocated by " + funcKey(al.Parent())
					}
					bad = append(bad, fmt.Sprintf("store to %s (declared at %s, outside the per-packet function) at %s with no mutex held", what, p.instrPosV(al), p.instrPos(in)))
				}
			})
		}
		if n == 0 {
			continue
		}
		key := closureKey(c) + ":captured"
		if len(bad) > 0 {
			o.bad("C8", key, p.Pos(c.Fn.Pos()), strings.Join(dedupe(bad), "; ")+": concurrent calls for the same stream overwrite each other's value")
		} else {
			o.ok("C8", key, p.Pos(c.Fn.Pos()), fmt.Sprintf("%d store(s) to state shared between calls, each with a mutex held", n))
		}
	}
	o.ok("C8", "inspected", "-", fmt.Sprintf("%d per-packet function literal(s) inspected for stores to captured state", len(closures)))
}
