package main

// F9 — no error of the library's own calls is dropped. Every interceptor hands the errors of what it calls back to its
// caller (or logs them in a service loop): the wrapped reader's or writer's error, the estimator's "closed", a parse
// error. The tree has no call whose error result is thrown away — `errcheck` is silent on it — apart from the two
// constructors whose argument was validated when the object was built (rule F4 decides that belief). A `_ = f()` put
// in front of such a call "because it only observes" changes what the caller learns: feedback written through a
// closed estimator reports success, a packet that could not be numbered is forwarded anyway.
//
// For every call (not `defer`, not `go`) of a function or interface method of the module or of pion/rtp, pion/rtcp
// whose last result is an error: the error has a use. The fallible constructors that F4 judges are left to F4.

import (
	"fmt"
	"go/types"
	"sort"
	"strings"

	"golang.org/x/tools/go/ssa"
)

func init() {
	registerEngine("F9", []string{"F9"}, runEngineF9)
}

func runEngineF9(p *Prog, o *obls) {
	nCalls := 0
	per := map[*ssa.Function][]string{}
	seenFn := map[*ssa.Function]int{}
	for _, fn := range p.Funcs {
		if fn.Blocks == nil || !p.InUniverse(fn) {
			continue
		}
		instrsOf(fn, func(in ssa.Instruction) {
			c, ok := in.(*ssa.Call)
			if !ok {
				return
			}
			var sig *types.Signature
			pkgPath := ""
			name := ""
			if c.Call.IsInvoke() {
				sig, _ = c.Call.Method.Type().(*types.Signature)
				if c.Call.Method.Pkg() != nil {
					pkgPath = c.Call.Method.Pkg().Path()
				}
				name = c.Call.Method.Name()
			} else if sc := c.Call.StaticCallee(); sc != nil {
				sig = sc.Signature
				if o := sc.Origin(); o != nil {
					sc = o
				}
				if sc.Pkg != nil {
					pkgPath = sc.Pkg.Pkg.Path()
				}
				name = sc.Name()
			} else {
				sig, _ = c.Call.Value.Type().Underlying().(*types.Signature)
				if nt := namedOf(c.Call.Value.Type()); nt != nil && nt.Obj().Pkg() != nil {
					pkgPath = nt.Obj().Pkg().Path()
				}
				name = "(function value)"
			}
			if sig == nil || sig.Results().Len() == 0 || !isErrorType(sig.Results().At(sig.Results().Len()-1).Type()) {
				return
			}
			if !strings.HasPrefix(pkgPath, "github.com/pion/") && !strings.HasPrefix(pkgPath, "fixtures") {
				return
			}
			if failsWithNilResult(p, c) {
				return // a fallible constructor: F4's business (use under the error test, or a backed belief)
			}
			if sc := c.Call.StaticCallee(); sc != nil && sc.Blocks != nil && p.InUniverse(sc) {
				// a helper that hands back the error it was given (log-and-return): the caller already has that error
				// and used it — by passing it in
				passThrough := true
				for _, b := range sc.Blocks {
					ret, ok := b.Instrs[len(b.Instrs)-1].(*ssa.Return)
					if !ok || b == sc.Recover {
						continue
					}
					rv := p.origin(returnedValue(ret, len(ret.Results)-1))
					if cst, isC := rv.(*ssa.Const); isC && cst.IsNil() {
						continue
					}
					if _, isPar := rv.(*ssa.Parameter); !isPar {
						passThrough = false
					}
				}
				if passThrough {
					return
				}
			}
			nCalls++
			seenFn[fn]++
			used := false
			check := func(v ssa.Value) {
				if v.Referrers() == nil {
					return
				}
				for _, r := range *v.Referrers() {
					if _, isDbg := r.(*ssa.DebugRef); !isDbg {
						used = true
					}
				}
			}
			if sig.Results().Len() == 1 {
				check(c)
			} else if fe := extractN(c, sig.Results().Len()-1); fe != nil {
				check(fe)
			}
			if !used {
				per[fn] = append(per[fn], fmt.Sprintf("the error of %s called at %s is dropped", name, p.instrPos(c)))
			}
		})
	}
	var fns []*ssa.Function
	for fn := range seenFn {
		fns = append(fns, fn)
	}
	sort.Slice(fns, func(i, j int) bool { return funcKey(fns[i]) < funcKey(fns[j]) })
	for _, fn := range fns {
		key := funcKey(fn) + ":errors-kept"
		if ms := per[fn]; len(ms) > 0 {
			sort.Strings(ms)
			o.bad("F9", key, strings.Fields(strings.SplitN(ms[0], " at ", 2)[1])[0], strings.Join(dedupe(ms), "; ")+": the caller is told the operation succeeded when it did not")
		} else {
			o.ok("F9", key, p.Pos(fn.Pos()), fmt.Sprintf("%d error-returning call(s), every error used", seenFn[fn]))
		}
	}
	o.ok("F9", "inspected", "-", fmt.Sprintf("%d error-returning call(s) of the module and pion/rtp, pion/rtcp", nCalls))
}
