package main

import (
	"fmt"
	"go/token"
	"go/types"
	"sort"
	"strings"

	"golang.org/x/tools/go/ssa"
)

// X6 — a packet is identified by the SSRC and the sequence number of one header. Every local stream's writer also
// carries packets that are not of the stream's own SSRC: the NACK responder writes retransmissions (RTX SSRC, own
// sequence space) and the FlexFEC encoder writes repair packets (FEC SSRC) through the writer the media stream was
// bound with. A call that files or looks up a packet by `header.SequenceNumber` therefore takes the SSRC from the same
// header; given the SSRC the stream was bound with (a captured StreamInfo.SSRC, a parameter of the binding helper) it
// files an RTX packet in the media packet's (SSRC, sequence) slot and overwrites it.
//
// For every call in the repository one of whose arguments is (a conversion of) a load of rtp.Header.SequenceNumber:
// every argument that fills a parameter whose name contains "ssrc" is (a conversion of) a load of rtp.Header.SSRC of
// the same header object.
func x6PacketIdentity(p *Prog, o *obls) {
	hdrField := func(v ssa.Value, name string) (ssa.Value, bool) {
		for {
			switch c := v.(type) {
			case *ssa.Convert:
				v = c.X
				continue
			case *ssa.ChangeType:
				v = c.X
				continue
			}
			break
		}
		switch u := v.(type) {
		case *ssa.UnOp:
			if u.Op != token.MUL {
				return nil, false
			}
			fa, ok := u.X.(*ssa.FieldAddr)
			if !ok || !strings.HasSuffix(typeKey(deref(fa.X.Type())), "pion/rtp.Header") || fieldName(fieldKeyAddr(fa)) != name {
				return nil, false
			}
			return fa.X, true
		case *ssa.Field:
			if !strings.HasSuffix(typeKey(u.X.Type()), "pion/rtp.Header") {
				return nil, false
			}
			st, ok := u.X.Type().Underlying().(*types.Struct)
			if !ok || st.Field(u.Field).Name() != name {
				return nil, false
			}
			return u.X, true
		}
		return nil, false
	}
	n := 0
	for _, fn := range p.Funcs {
		if fn.Blocks == nil || !p.InUniverse(fn) {
			continue
		}
		var bad []string
		sites := 0
		instrsOf(fn, func(in ssa.Instruction) {
			ci, ok := in.(ssa.CallInstruction)
			if !ok {
				return
			}
			cc := ci.Common()
			sig := cc.Signature()
			if sig == nil {
				return
			}
			args := cc.Args
			off := 0
			if !cc.IsInvoke() && sig.Recv() != nil {
				off = 1 // args[0] is the receiver
			}
			var hdr ssa.Value
			for _, a := range args[off:] {
				if h, ok := hdrField(a, "SequenceNumber"); ok {
					hdr = h
				}
			}
			if hdr == nil {
				return
			}
			for i, a := range args[off:] {
				if i >= sig.Params().Len() {
					break
				}
				pn := sig.Params().At(i).Name()
				if !strings.Contains(strings.ToLower(pn), "ssrc") {
					continue
				}
				if _, isConst := a.(*ssa.Const); isConst {
					continue
				}
				sites++
				h2, ok := hdrField(a, "SSRC")
				switch {
				case !ok:
					bad = append(bad, fmt.Sprintf("the call at %s identifies the packet by its header's sequence number but is given %s for parameter %s, which is not read from that header", p.instrPos(in), x6Describe(p, a), pn))
				case p.pureKey(h2) != p.pureKey(hdr) && p.origin(h2) != p.origin(hdr):
					bad = append(bad, fmt.Sprintf("the call at %s takes the sequence number and the SSRC (parameter %s) from two different headers", p.instrPos(in), pn))
				}
			}
		})
		if sites == 0 {
			continue
		}
		n++
		key := funcKey(fn) + ":packet-identity"
		if len(bad) > 0 {
			sort.Strings(bad)
			o.bad("X6", key, strings.Fields(strings.SplitN(bad[0], " at ", 2)[1])[0], strings.Join(dedupe(bad), "; ")+": retransmissions and repair packets travel through the media stream's writer with their own SSRC and sequence space, and are filed in the media packets' slots")
		} else {
			o.ok("X6", key, p.Pos(fn.Pos()), fmt.Sprintf("%d call(s) that identify a packet by header.SequenceNumber take the SSRC from the same header", sites))
		}
	}
	o.ok("X6", "inspected", "-", fmt.Sprintf("%d function(s) that identify packets by (SSRC, sequence number) in a call", n))
}

func x6Describe(p *Prog, v ssa.Value) string {
	switch x := p.origin(v).(type) {
	case *ssa.FreeVar:
		return "the captured variable " + x.Name()
	case *ssa.Parameter:
		return "the parameter " + x.Name()
	case *ssa.UnOp:
		if x.Op == token.MUL {
			return describeAddr(p, x.X)
		}
	}
	return "a value computed elsewhere (" + v.Name() + ")"
}
