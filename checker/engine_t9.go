package main

import (
	"fmt"
	"sort"
	"strings"

	"golang.org/x/tools/go/ssa"
)

// T9 — what goes back into a pool came out of it. A struct field that holds pooled objects (some store into it stores
// what (*sync.Pool).Get returned for pool P) is what the release path later Puts into P. Every other store into that
// field stores nil or, again, something taken from P: a buffer made to measure for one packet (`buf := make([]byte,
// n); pkt.buffer = &buf`) travels the same release path into the pool, and from then on the pool hands out buffers
// that are smaller than the size its users copy into without looking.
func init() {
	registerEngine("T9", []string{"T9"}, runEngineT9)
}

func runEngineT9(p *Prog, o *obls) {
	poolOf := func(v ssa.Value) string {
		key := ""
		p.backwardReaches(v, func(x ssa.Value) bool {
			c, ok := x.(*ssa.Call)
			if !ok || !isCallTo(&c.Call, "(*sync.Pool).Get") || len(c.Call.Args) == 0 {
				return false
			}
			key = p.pureKey(c.Call.Args[0])
			if fa, ok := t9FieldAddr(c.Call.Args[0]); ok {
				key = fieldKeyAddr(fa)
			}
			return true
		})
		return key
	}
	type storeInfo struct {
		st   *ssa.Store
		fn   *ssa.Function
		pool string
	}
	byField := map[string][]storeInfo{}
	for _, fn := range p.Funcs {
		if fn.Blocks == nil || !p.InUniverse(fn) {
			continue
		}
		instrsOf(fn, func(in ssa.Instruction) {
			st, ok := in.(*ssa.Store)
			if !ok {
				return
			}
			fa, ok := st.Addr.(*ssa.FieldAddr)
			if !ok || !isPointerLike(st.Val.Type()) {
				return
			}
			byField[fieldKeyAddr(fa)] = append(byField[fieldKeyAddr(fa)], storeInfo{st, fn, poolOf(st.Val)})
		})
	}
	var fields []string
	for fk, ss := range byField {
		for _, s := range ss {
			if s.pool != "" {
				fields = append(fields, fk)
				break
			}
		}
	}
	sort.Strings(fields)
	for _, fk := range fields {
		pools := map[string]bool{}
		for _, s := range byField[fk] {
			if s.pool != "" {
				pools[s.pool] = true
			}
		}
		var bad []string
		for _, s := range byField[fk] {
			if s.pool != "" || isNilConst(s.st.Val) {
				continue
			}
			// handed on from another field that itself only holds pooled objects (item.payload = pkt.buffer): judged there
			if ld, ok := p.origin(s.st.Val).(*ssa.UnOp); ok {
				if fa2, ok := ld.X.(*ssa.FieldAddr); ok && len(byField[fieldKeyAddr(fa2)]) > 0 {
					continue
				}
			}
			if _, isParam := p.origin(s.st.Val).(*ssa.Parameter); isParam {
				continue // the caller's value: not decided here
			}
			bad = append(bad, fmt.Sprintf("%s stores at %s something that was not taken from the pool", funcKey(s.fn), p.instrPos(s.st)))
		}
		if len(bad) > 0 {
			sort.Strings(bad)
			o.bad("T9", fk, strings.Fields(strings.SplitN(bad[0], " stores at ", 2)[1])[0], fmt.Sprintf("the field holds objects taken from %s, which the release path gives back to it, but %s: that object ends up in the pool too, and the pool then hands out buffers of a size its users do not expect", strings.Join(sortedKeys(pools), ", "), strings.Join(dedupe(bad), "; ")))
		} else {
			o.ok("T9", fk, "-", fmt.Sprintf("%d store(s), each nil or an object taken from %s", len(byField[fk]), strings.Join(sortedKeys(pools), ", ")))
		}
	}
	o.ok("T9", "inspected", "-", fmt.Sprintf("%d field(s) that hold pooled objects", len(fields)))
}

func t9FieldAddr(v ssa.Value) (*ssa.FieldAddr, bool) {
	for i := 0; i < 3; i++ {
		switch x := v.(type) {
		case *ssa.FieldAddr:
			return x, true
		case *ssa.ChangeType:
			v = x.X
		case *ssa.UnOp:
			v = x.X
		default:
			return nil, false
		}
	}
	return nil, false
}
