package main

import (
	"fmt"
	"go/types"
	"sort"
	"strings"

	"golang.org/x/tools/go/ssa"
)

// X7 — an Attributes map belongs to one packet. Attributes.GetRTPHeader / GetRTCPPackets cache what they parsed in the
// map they are called on, so a map that is handed out for more than one packet keeps the first packet's header for
// all that follow: every interceptor further out — and this one, on the next read — is told the old sequence number,
// and `bytes[header.MarshalSize():n]` with the old header's size panics on a shorter packet. The Attributes a reader
// closure returns, and the Attributes it calls the parse-cache getters on, are the upstream read's, the closure's own
// parameter, or a map made in this call — never one that outlives the call (a variable of the binding function, a
// field).
func init() {
	registerEngine("X7", []string{"X7"}, runEngineX7)
}

func runEngineX7(p *Prog, o *obls) {
	cl, _ := p.PktClosures()
	n := 0
	for _, c := range cl {
		fn := c.Fn
		if fn.Blocks == nil || fn.Signature.Results().Len() != 3 {
			continue
		}
		if !strings.HasSuffix(types.TypeString(fn.Signature.Results().At(1).Type(), nil), "interceptor.Attributes") {
			continue
		}
		n++
		var bad []string
		var judge func(v ssa.Value, at string, seen map[ssa.Value]bool)
		judge = func(v ssa.Value, at string, seen map[ssa.Value]bool) {
			if seen[v] {
				return
			}
			seen[v] = true
			switch x := v.(type) {
			case *ssa.Phi:
				for _, e := range x.Edges {
					judge(e, at, seen)
				}
				return
			case *ssa.Const, *ssa.MakeMap, *ssa.Extract, *ssa.Call:
				return
			case *ssa.Parameter:
				return
			case *ssa.ChangeType:
				judge(x.X, at, seen)
				return
			case *ssa.MakeInterface:
				judge(x.X, at, seen)
				return
			case *ssa.UnOp:
				// a load: of a cell of this call (a local variable) — what was stored into it; of anything else
				// (a captured variable, a field) — outlives the call
				if al, ok := cellAddr(x.X).(*ssa.Alloc); ok && al.Parent() == fn {
					for _, st := range p.storesInto(al) {
						if st.Addr == ssa.Value(al) {
							judge(st.Val, at, seen)
						}
					}
					return
				}
				bad = append(bad, fmt.Sprintf("the attributes used at %s are %s, which outlives the call", at, x7Describe(p, x)))
				return
			case *ssa.FreeVar:
				bad = append(bad, fmt.Sprintf("the attributes used at %s are the captured variable %s, which outlives the call", at, x.Name()))
				return
			}
		}
		instrsOf(fn, func(in ssa.Instruction) {
			switch x := in.(type) {
			case *ssa.Return:
				if len(x.Results) == 3 {
					judge(x.Results[1], p.instrPos(x), map[ssa.Value]bool{})
				}
			case *ssa.Call:
				if sc := x.Call.StaticCallee(); sc != nil && len(x.Call.Args) > 0 && (strings.HasSuffix(sc.String(), "interceptor.Attributes).GetRTPHeader") || strings.HasSuffix(sc.String(), "interceptor.Attributes).GetRTCPPackets")) {
					judge(x.Call.Args[0], p.instrPos(x), map[ssa.Value]bool{})
				}
			}
		})
		key := funcKey(fn) + ":attributes-per-packet"
		if len(bad) > 0 {
			sort.Strings(bad)
			o.bad("X7", key, strings.Fields(strings.SplitN(bad[0], " used at ", 2)[1])[0], strings.Join(dedupe(bad), "; ")+": the parse cache inside it keeps the first packet's header for every packet after it")
		} else {
			o.ok("X7", key, p.Pos(fn.Pos()), "the attributes returned and parsed into are the upstream read's, the parameter or a map made in this call")
		}
	}
	o.ok("X7", "inspected", "-", fmt.Sprintf("%d reader closure(s)", n))
}

func x7Describe(p *Prog, u *ssa.UnOp) string {
	if fa, ok := u.X.(*ssa.FieldAddr); ok {
		return describeAddr(p, fa)
	}
	if fv, ok := u.X.(*ssa.FreeVar); ok {
		return "the captured variable " + fv.Name()
	}
	return "a value kept outside the call"
}
