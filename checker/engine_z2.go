package main

import (
	"fmt"
	"go/token"
	"go/types"
	"sort"
	"strings"

	"golang.org/x/tools/go/ssa"
)

// Z2 — whoever is sent to listens in every state. A goroutine that serves several channels of its object (packets,
// unbind requests) and waits in more than one place (a first select for the first packet, then the main loop's
// select) receives, in every blocking select that receives from one of the channels other code blocks on sending to,
// from all of them. A sender that blocks on a channel the goroutine does not listen to in its current state —
// `select { case <-close: case unbindChan <- ssrc: }` while the loop still waits for its first packet — is stranded
// until something unrelated moves the goroutine on.
func init() {
	registerEngine("Z2", []string{"Z2"}, runEngineZ2)
}

func runEngineZ2(p *Prog, o *obls) {
	chanField := func(v ssa.Value) (*types.Var, string) {
		u, ok := p.origin(v).(*ssa.UnOp)
		if !ok || u.Op != token.MUL {
			return nil, ""
		}
		fa, ok := u.X.(*ssa.FieldAddr)
		if !ok {
			return nil, ""
		}
		if _, isChan := deref(fa.Type()).Underlying().(*types.Chan); !isChan {
			return nil, ""
		}
		return fieldOfAddr(fa), fieldKeyAddr(fa)
	}
	// channel fields that some function blocks on sending to (plain send, or a send state of a select without default)
	sentTo := map[*types.Var]string{}
	for _, fn := range p.Funcs {
		if fn.Blocks == nil || !p.InUniverse(fn) {
			continue
		}
		instrsOf(fn, func(in ssa.Instruction) {
			switch x := in.(type) {
			case *ssa.Send:
				if fv, k := chanField(x.Chan); fv != nil {
					sentTo[fv] = k
				}
			case *ssa.Select:
				if !x.Blocking {
					return
				}
				for _, st := range x.States {
					if st.Dir == types.SendOnly {
						if fv, k := chanField(st.Chan); fv != nil {
							sentTo[fv] = k
						}
					}
				}
			}
		})
	}
	n := 0
	for _, fn := range p.Funcs {
		if fn.Blocks == nil || !p.InUniverse(fn) {
			continue
		}
		var sels []*ssa.Select
		served := map[*types.Var]string{}
		instrsOf(fn, func(in ssa.Instruction) {
			s, ok := in.(*ssa.Select)
			if !ok || !s.Blocking {
				return
			}
			any := false
			for _, st := range s.States {
				if st.Dir == types.RecvOnly {
					if fv, k := chanField(st.Chan); fv != nil && sentTo[fv] != "" {
						served[fv] = k
						any = true
					}
				}
			}
			if any {
				sels = append(sels, s)
			}
		})
		if len(sels) < 2 || len(served) == 0 {
			continue
		}
		n++
		var bad []string
		for _, s := range sels {
			has := map[*types.Var]bool{}
			for _, st := range s.States {
				if st.Dir == types.RecvOnly {
					if fv, _ := chanField(st.Chan); fv != nil {
						has[fv] = true
					}
				}
			}
			for fv, k := range served {
				if !has[fv] {
					bad = append(bad, fmt.Sprintf("the select at %s does not receive from %s, which this function serves elsewhere and other code blocks on sending to", p.instrPos(s), fieldName(k)))
				}
			}
		}
		key := funcKey(fn) + ":listens"
		if len(bad) > 0 {
			sort.Strings(bad)
			o.bad("Z2", key, strings.Fields(strings.SplitN(bad[0], " select at ", 2)[1])[0], strings.Join(dedupe(bad), "; ")+": a sender is stranded while the goroutine waits there")
		} else {
			o.ok("Z2", key, p.Pos(fn.Pos()), fmt.Sprintf("%d blocking selects, each receiving from every channel the function serves (%d)", len(sels), len(served)))
		}
	}
	o.ok("Z2", "inspected", "-", fmt.Sprintf("%d function(s) that serve channels in more than one select", n))
	// (b) a case is not switched off: the channel a blocking select receives from, where it is a channel that other code
	// blocks on sending to, is the field itself on every path — not a local copy that a branch sets to nil (the "nil
	// channel is never selected" idiom): the senders keep blocking on a channel that nobody serves any more.
	// (c) the goroutine that serves a channel does not block on sending to it: a function that receives from a channel
	// field in a select does not itself (directly or through repository functions it calls, to depth two) perform a
	// blocking send on that channel — with the only receiver busy sending, a full buffer is a deadlock.
	nb, nc := 0, 0
	for _, fn := range p.Funcs {
		if fn.Blocks == nil || !p.InUniverse(fn) {
			continue
		}
		var offs, selfs []string
		recvd := map[*types.Var]string{}
		instrsOf(fn, func(in ssa.Instruction) {
			s, ok := in.(*ssa.Select)
			if !ok || !s.Blocking {
				return
			}
			for _, st := range s.States {
				if st.Dir != types.RecvOnly {
					continue
				}
				if fv, k := chanField(st.Chan); fv != nil {
					recvd[fv] = k
					continue
				}
				// a φ (or a local cell) that is the field on one path and nil on another
				var fromField string
				hasNil := false
				seen := map[ssa.Value]bool{}
				var walk func(v ssa.Value)
				walk = func(v ssa.Value) {
					if seen[v] {
						return
					}
					seen[v] = true
					if isNilConst(v) {
						hasNil = true
						return
					}
					if fv, k := chanField(v); fv != nil && sentTo[fv] != "" {
						fromField = k
						return
					}
					if phi, ok := v.(*ssa.Phi); ok {
						for _, e := range phi.Edges {
							walk(e)
						}
					}
				}
				walk(st.Chan)
				if hasNil && fromField != "" {
					offs = append(offs, fmt.Sprintf("the select at %s receives from a local copy of %s that a branch sets to nil", p.instrPos(s), fieldName(fromField)))
				}
			}
		})
		if len(offs) > 0 {
			nb++
			sort.Strings(offs)
			o.bad("Z2", funcKey(fn)+":switched-off", strings.Fields(strings.SplitN(offs[0], " select at ", 2)[1])[0], strings.Join(dedupe(offs), "; ")+": from then on nothing serves the channel, and everything that blocks on sending to it waits for Close")
		}
		if len(recvd) == 0 {
			continue
		}
		visited := map[*ssa.Function]bool{fn: true}
		var scan func(g *ssa.Function, d int, via string)
		scan = func(g *ssa.Function, d int, via string) {
			instrsOf(g, func(in ssa.Instruction) {
				switch x := in.(type) {
				case *ssa.Send:
					if fv, k := chanField(x.Chan); fv != nil && recvd[fv] != "" {
						selfs = append(selfs, fmt.Sprintf("%s is sent to at %s%s", fieldName(k), p.instrPos(x), via))
					}
				case *ssa.Select:
					if !x.Blocking {
						return
					}
					for _, st := range x.States {
						if st.Dir == types.SendOnly {
							if fv, k := chanField(st.Chan); fv != nil && recvd[fv] != "" {
								selfs = append(selfs, fmt.Sprintf("%s is sent to at %s%s", fieldName(k), p.instrPos(x), via))
							}
						}
					}
				case *ssa.Call:
					if sc := x.Call.StaticCallee(); sc != nil && d < 2 && p.InUniverse(sc) && sc.Blocks != nil && !visited[sc] {
						visited[sc] = true
						scan(sc, d+1, fmt.Sprintf(" (reached through the call at %s)", p.instrPos(x)))
					}
				}
			})
		}
		scan(fn, 0, "")
		nc++
		key := funcKey(fn) + ":no-self-send"
		if len(selfs) > 0 {
			sort.Strings(selfs)
			o.bad("Z2", key, p.Pos(fn.Pos()), fmt.Sprintf("this function is the one that receives from the channel, and %s by the same goroutine: with a request already waiting the send blocks, and the only receiver is the blocked sender", strings.Join(dedupe(selfs), "; ")))
		} else {
			o.ok("Z2", key, p.Pos(fn.Pos()), "the serving function performs no blocking send on a channel it receives from")
		}
	}
	o.ok("Z2", "serving-inspected", "-", fmt.Sprintf("%d serving function(s), %d with a case that can be switched off", nc, nb))
}
