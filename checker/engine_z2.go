package main

import (
	"fmt"
	"go/token"
	"go/types"
	"sort"
	"strings"

	"golang.org/x/tools/go/ssa"
)

// Z2 — whoever is sent to listens in every state. A goroutine that serves several channels of its object (packets,
// unbind requests) and waits in more than one place (a first select for the first packet, then the main loop's
// select) receives, in every blocking select that receives from one of the channels other code blocks on sending to,
// from all of them. A sender that blocks on a channel the goroutine does not listen to in its current state —
// `select { case <-close: case unbindChan <- ssrc: }` while the loop still waits for its first packet — is stranded
// until something unrelated moves the goroutine on.
func init() {
	registerEngine("Z2", []string{"Z2"}, runEngineZ2)
}

func runEngineZ2(p *Prog, o *obls) {
	chanField := func(v ssa.Value) (*types.Var, string) {
		u, ok := p.origin(v).(*ssa.UnOp)
		if !ok || u.Op != token.MUL {
			return nil, ""
		}
		fa, ok := u.X.(*ssa.FieldAddr)
		if !ok {
			return nil, ""
		}
		if _, isChan := deref(fa.Type()).Underlying().(*types.Chan); !isChan {
			return nil, ""
		}
		return fieldOfAddr(fa), fieldKeyAddr(fa)
	}
	// channel fields that some function blocks on sending to (plain send, or a send state of a select without default)
	sentTo := map[*types.Var]string{}
	for _, fn := range p.Funcs {
		if fn.Blocks == nil || !p.InUniverse(fn) {
			continue
		}
		instrsOf(fn, func(in ssa.Instruction) {
			switch x := in.(type) {
			case *ssa.Send:
				if fv, k := chanField(x.Chan); fv != nil {
					sentTo[fv] = k
				}
			case *ssa.Select:
				if !x.Blocking {
					return
				}
				for _, st := range x.States {
					if st.Dir == types.SendOnly {
						if fv, k := chanField(st.Chan); fv != nil {
							sentTo[fv] = k
						}
					}
				}
			}
		})
	}
	n := 0
	for _, fn := range p.Funcs {
		if fn.Blocks == nil || !p.InUniverse(fn) {
			continue
		}
		var sels []*ssa.Select
		served := map[*types.Var]string{}
		instrsOf(fn, func(in ssa.Instruction) {
			s, ok := in.(*ssa.Select)
			if !ok || !s.Blocking {
				return
			}
			any := false
			for _, st := range s.States {
				if st.Dir == types.RecvOnly {
					if fv, k := chanField(st.Chan); fv != nil && sentTo[fv] != "" {
						served[fv] = k
						any = true
					}
				}
			}
			if any {
				sels = append(sels, s)
			}
		})
		if len(sels) < 2 || len(served) == 0 {
			continue
		}
		n++
		var bad []string
		for _, s := range sels {
			has := map[*types.Var]bool{}
			for _, st := range s.States {
				if st.Dir == types.RecvOnly {
					if fv, _ := chanField(st.Chan); fv != nil {
						has[fv] = true
					}
				}
			}
			for fv, k := range served {
				if !has[fv] {
					bad = append(bad, fmt.Sprintf("the select at %s does not receive from %s, which this function serves elsewhere and other code blocks on sending to", p.instrPos(s), fieldName(k)))
				}
			}
		}
		key := funcKey(fn) + ":listens"
		if len(bad) > 0 {
			sort.Strings(bad)
			o.bad("Z2", key, strings.Fields(strings.SplitN(bad[0], " select at ", 2)[1])[0], strings.Join(dedupe(bad), "; ")+": a sender is stranded while the goroutine waits there")
		} else {
			o.ok("Z2", key, p.Pos(fn.Pos()), fmt.Sprintf("%d blocking selects, each receiving from every channel the function serves (%d)", len(sels), len(served)))
		}
	}
	o.ok("Z2", "inspected", "-", fmt.Sprintf("%d function(s) that serve channels in more than one select", n))
}
