package main

// V3 — a view taken before a slice grows is not written through after it has grown. `hdr := buf[:n]` shares buf's
// backing array only until `buf = append(buf, …)` needs more room than the array has; from then on buf lives in a new
// array and hdr still points into the old one. Writes through hdr after that point are lost: the header of the repair
// packet that is XOR-ed field by field through `flexFecHeader` stays as it was when the payload first grew, while
// the packet that is sent is built from the regrown buffer. For every sub-slice S of a slice made with `make(T, n)`
// (no spare capacity reserved): no store through S, copy into S, or call given S is reachable after an append to the
// slice S was cut from (or to the variable that carries it round a loop), unless S was cut again from the result.

import (
	"fmt"
	"sort"
	"strings"

	"golang.org/x/tools/go/ssa"
)

func init() {
	registerEngine("V3", []string{"V3"}, runEngineV3)
}

func runEngineV3(p *Prog, o *obls) {
	n := 0
	for _, fn := range p.Funcs {
		if fn.Blocks == nil || !p.InUniverse(fn) {
			continue
		}
		// appends by the root they grow
		var appends []*ssa.Call
		instrsOf(fn, func(in ssa.Instruction) {
			if c, ok := in.(*ssa.Call); ok && builtinName(&c.Call) == "append" && len(c.Call.Args) > 0 {
				appends = append(appends, c)
			}
		})
		if len(appends) == 0 {
			continue
		}
		// rootOf: the make() a slice value goes back to through φs, re-slicings from index 0 and earlier appends
		var rootOf func(v ssa.Value, seen map[ssa.Value]bool) *ssa.MakeSlice
		rootOf = func(v ssa.Value, seen map[ssa.Value]bool) *ssa.MakeSlice {
			if v == nil || seen[v] {
				return nil
			}
			seen[v] = true
			switch x := v.(type) {
			case *ssa.MakeSlice:
				return x
			case *ssa.Phi:
				for _, e := range x.Edges {
					if r := rootOf(e, seen); r != nil {
						return r
					}
				}
			case *ssa.Call:
				if builtinName(&x.Call) == "append" && len(x.Call.Args) > 0 {
					return rootOf(x.Call.Args[0], seen)
				}
			case *ssa.UnOp:
				// a local cell (captured or address-taken variable)
				if al, ok := x.X.(*ssa.Alloc); ok {
					for _, st := range p.storesInto(al) {
						if st.Addr == ssa.Value(al) {
							if r := rootOf(st.Val, seen); r != nil {
								return r
							}
						}
					}
				}
			}
			return nil
		}
		k := 0
		instrsOf(fn, func(in ssa.Instruction) {
			s, ok := in.(*ssa.Slice)
			if !ok {
				return
			}
			ms := rootOf(s.X, map[ssa.Value]bool{})
			if ms == nil || ms.Cap != nil && ms.Cap != ms.Len {
				return // spare capacity was reserved: appends within it do not move the array (not decided)
			}
			if _, isArr := s.X.(*ssa.MakeSlice); !isArr {
				if _, isPhi := s.X.(*ssa.Phi); isPhi {
					// cut from the loop-carried value: cut again on every iteration
					return
				}
			}
			// appends that grow the same root and can run after the cut
			var later []*ssa.Call
			for _, a := range appends {
				if rootOf(a.Call.Args[0], map[ssa.Value]bool{}) == ms && canReach(s, a) && ssa.Value(a) != s.X {
					// the result must replace the variable (otherwise nothing moved for anyone)
					later = append(later, a)
				}
			}
			if len(later) == 0 {
				return
			}
			n++
			k++
			var bad []string
			var follow func(v ssa.Value, d int)
			seen := map[ssa.Value]bool{}
			follow = func(v ssa.Value, d int) {
				if seen[v] || v.Referrers() == nil || d > 3 {
					return
				}
				seen[v] = true
				for _, r := range *v.Referrers() {
					after := false
					for _, a := range later {
						if canReach(a, r) {
							after = true
						}
					}
					switch x := r.(type) {
					case *ssa.IndexAddr:
						if x.X == v && x.Referrers() != nil {
							for _, r2 := range *x.Referrers() {
								if st, ok := r2.(*ssa.Store); ok && st.Addr == ssa.Value(x) {
									for _, a := range later {
										if canReach(a, st) {
											bad = append(bad, fmt.Sprintf("written through at %s", p.instrPos(st)))
										}
									}
								}
							}
						}
					case *ssa.Slice:
						if x.X == v {
							follow(x, d+1)
						}
					case *ssa.Call:
						if !after {
							continue
						}
						if builtinName(&x.Call) == "copy" && len(x.Call.Args) > 0 && x.Call.Args[0] == v {
							bad = append(bad, fmt.Sprintf("copied into at %s", p.instrPos(x)))
						}
					}
				}
			}
			follow(s, 0)
			key := fmt.Sprintf("%s:view#%d", funcKey(fn), k)
			if len(bad) > 0 {
				sort.Strings(bad)
				o.bad("V3", key, p.instrPos(s), fmt.Sprintf("the sub-slice cut at %s from a slice made without spare capacity is %s — after the append at %s may have moved the slice to a new array: the write lands in the abandoned array and is missing from what is built from the regrown slice", p.instrPos(s), strings.Join(dedupe(bad), ", "), p.instrPos(later[0])))
			} else {
				o.ok("V3", key, p.instrPos(s), "no write through the view can follow a growth of the slice it was cut from")
			}
		})
	}
	o.ok("V3", "inspected", "-", fmt.Sprintf("%d view(s) of a slice that is appended to afterwards", n))
}
