package main

// O3 — a packet without an optional header extension still passes. rtp.Header.GetExtension returns nil when the
// packet does not carry the extension; whether it does is the remote sender's choice per packet, even on a stream that
// negotiated it. In an RTP reader closure, a parse of what GetExtension returned whose error is handed back to the
// caller of the read must therefore be guarded by a test that the extension is present (`ext != nil`, `len(ext) > 0`):
// without it every packet that lacks the extension turns a successful upstream read into an error and is dropped on
// its way to the application.

import (
	"fmt"
	"go/token"

	"golang.org/x/tools/go/ssa"
)

func init() {
	registerEngine("O3", []string{"O3"}, runEngineO3)
}

func runEngineO3(p *Prog, o *obls) {
	closures, _ := p.PktClosures()
	n := 0
	for _, c := range closures {
		if c.Kind != RTPReader {
			continue
		}
		fn := c.Fn
		k := 0
		instrsOf(fn, func(in ssa.Instruction) {
			call, ok := in.(*ssa.Call)
			if !ok || !parseRecvFuncs[calleeName(&call.Call)] || len(call.Call.Args) < 2 {
				return
			}
			src, ok := p.origin(call.Call.Args[1]).(*ssa.Call)
			if !ok {
				return
			}
			if sc := src.Call.StaticCallee(); sc == nil || sc.Name() != "GetExtension" || sc.Signature.Recv() == nil || typeKey(sc.Signature.Recv().Type()) != "github.com/pion/rtp.Header" {
				return
			}
			n++
			k++
			key := fmt.Sprintf("%s:optional-extension", closureKey(c))
			if k > 1 {
				key = fmt.Sprintf("%s#%d", key, k)
			}
			// guarded by presence?
			present := false
			for _, f := range dominatingFactsInstr(call) {
				f = normFact(f)
				bo, ok := f.cond.(*ssa.BinOp)
				if !ok {
					continue
				}
				isExt := func(v ssa.Value) bool {
					if p.origin(v) == ssa.Value(src) {
						return true
					}
					if lc, ok := p.origin(v).(*ssa.Call); ok && builtinName(&lc.Call) == "len" && p.origin(lc.Call.Args[0]) == ssa.Value(src) {
						return true
					}
					return false
				}
				switch {
				case (bo.Op == token.NEQ) == f.truth && (bo.Op == token.NEQ || bo.Op == token.EQL) && (isExt(bo.X) && (isNilConst(bo.Y) || isConstInt(bo.Y, 0)) || isExt(bo.Y) && (isNilConst(bo.X) || isConstInt(bo.X, 0))):
					present = true
				case bo.Op == token.GTR && f.truth && isExt(bo.X), bo.Op == token.LSS && f.truth && isExt(bo.Y), bo.Op == token.GEQ && f.truth && isExt(bo.X) && !isConstInt(bo.Y, 0), bo.Op == token.LEQ && !f.truth && isExt(bo.X), bo.Op == token.LSS && !f.truth && isExt(bo.X) && !isConstInt(bo.Y, 0):
					present = true
				}
			}
			if present {
				o.ok("O3", key, p.instrPos(call), "the extension is parsed only where it is known to be present")
				return
			}
			// does the parse error reach the caller of the read?
			var errV ssa.Value = call
			returned := ""
			for _, b := range fn.Blocks {
				ret, ok := b.Instrs[len(b.Instrs)-1].(*ssa.Return)
				if !ok || b == fn.Recover || len(ret.Results) == 0 {
					continue
				}
				r := returnedValue(ret, len(ret.Results)-1)
				if cst, isC := r.(*ssa.Const); isC && cst.IsNil() {
					continue
				}
				if p.backwardReaches(r, func(v ssa.Value) bool { return v == errV }) {
					returned = p.instrPos(ret)
				}
			}
			if returned != "" {
				o.bad("O3", key, p.instrPos(call), fmt.Sprintf("the header extension fetched at %s is parsed without a test that the packet carries it, and the parse error is returned to the caller of the read at %s: a packet without the (optional) extension, which the upstream reader delivered, is turned into an error and lost", p.instrPos(src), returned))
			} else {
				o.ok("O3", key, p.instrPos(call), "the extension is parsed unguarded, but the parse error is not returned to the reader's caller")
			}
		})
	}
	o.ok("O3", "inspected", "-", fmt.Sprintf("%d parse(s) of a header extension in RTP reader closures", n))
}
