package main

// N3 — a nil pointer is not returned inside a non-nil interface. A function whose result is an interface and that
// returns a pointer variable which may be nil (`var t *time.Ticker; if on { t = time.NewTicker(d) }; return t`) hands
// its caller an interface value that is *not* nil — it holds a typed nil pointer — so the caller's `if x != nil`
// guard passes and the method call behind it dereferences nil (`(*time.Ticker).Stop` on nil: a panic in the loop
// goroutine while Close waits for it). For every return of a function with an interface result: the value boxed into
// the interface is not a nil pointer constant, nor a φ of pointers one of whose edges is the nil constant.

import (
	"fmt"
	"go/types"

	"golang.org/x/tools/go/ssa"
)

func init() {
	registerEngine("N3", []string{"N3"}, runEngineN3)
}

func runEngineN3(p *Prog, o *obls) {
	n := 0
	for _, fn := range p.Funcs {
		if fn.Blocks == nil || !p.InUniverse(fn) {
			continue
		}
		res := fn.Signature.Results()
		hasIface := false
		for i := 0; i < res.Len(); i++ {
			if _, ok := res.At(i).Type().Underlying().(*types.Interface); ok {
				hasIface = true
			}
		}
		if !hasIface {
			continue
		}
		var bad []string
		sites := 0
		for _, b := range fn.Blocks {
			ret, ok := b.Instrs[len(b.Instrs)-1].(*ssa.Return)
			if !ok || b == fn.Recover {
				continue
			}
			for i := range ret.Results {
				if _, ok := res.At(i).Type().Underlying().(*types.Interface); !ok {
					continue
				}
				var mis []*ssa.MakeInterface
				seen := map[ssa.Value]bool{}
				var leaves func(v ssa.Value)
				leaves = func(v ssa.Value) {
					if seen[v] {
						return
					}
					seen[v] = true
					switch x := v.(type) {
					case *ssa.MakeInterface:
						mis = append(mis, x)
					case *ssa.Phi:
						for _, e := range x.Edges {
							leaves(e)
						}
					case *ssa.ChangeInterface:
						leaves(x.X)
					}
				}
				leaves(returnedValue(ret, i))
				for _, mi := range mis {
					if _, isPtr := mi.X.Type().Underlying().(*types.Pointer); !isPtr {
						continue
					}
					sites++
					mayNil := false
					seen2 := map[ssa.Value]bool{}
					var walk func(v ssa.Value)
					walk = func(v ssa.Value) {
						if seen2[v] {
							return
						}
						seen2[v] = true
						switch x := v.(type) {
						case *ssa.Const:
							if x.IsNil() {
								mayNil = true
							}
						case *ssa.Phi:
							for _, e := range x.Edges {
								walk(e)
							}
						}
					}
					walk(mi.X)
					if mayNil && p.nilnessAt(mi.X, mi.Block()) != 1 {
						bad = append(bad, fmt.Sprintf("the %s boxed at %s can be nil", types.TypeString(mi.X.Type(), func(*types.Package) string { return "" }), p.instrPos(mi)))
					}
				}
			}
		}
		if sites == 0 {
			continue
		}
		n++
		key := funcKey(fn) + ":typed-nil"
		if len(bad) > 0 {
			o.bad("N3", key, p.Pos(fn.Pos()), fmt.Sprintf("%s: the interface the function returns is then not nil although the pointer in it is — a caller's `!= nil` guard passes and the method call behind it dereferences nil", dedupe(bad)[0]))
		} else {
			o.ok("N3", key, p.Pos(fn.Pos()), "no pointer that may be nil is returned inside an interface")
		}
	}
	o.ok("N3", "inspected", "-", fmt.Sprintf("%d function(s) that return a pointer inside an interface", n))
}
