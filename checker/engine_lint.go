package main

// Two pattern rules over the whole universe whose expected instance count on a correct tree is zero. Each emits one
// summary obligation per package stating what was inspected, and fires on the pattern:
//   J3  a remainder by 2^16-1 or 2^32-1: sequence numbers and timestamps wrap modulo 2^16 / 2^32 (the conversion to
//       uintN), a modulus that is one less maps the top value onto 0 and shifts everything after the wrap.
//   K3  in-place compaction that can grow: `out := xs[:0]; for … range xs { out = append(out, …) }` writes into the
//       array it is still reading; as soon as one iteration can append more than one element the writes overtake the
//       reads (members are dropped and duplicated, and the caller's slice is corrupted).

import (
	"fmt"
	"go/token"
	"go/types"
	"sort"
	"strings"

	"golang.org/x/tools/go/ssa"
)

//   J4  reinterpreting a magnitude as signed: intN(x) of a uintN value of the same width (N ≤ 32) keeps the bits, so the
//       upper half of the range turns negative. That is the intended reading of a wrap-around *difference* (int16(a-b)),
//       and wrong for anything else that can reach 2^(N-1) — a window size of 32768, a sequence number, a timestamp.
//       Operands that are differences, constants, or provably below 2^(N-1) (masked, shifted right, a remainder by or a
//       widening of something smaller) are accepted.
//   J5  ordered comparison against a wrapping sum: `x < a+b` (or `a+b > x` …) on unsigned values of at most 32 bits
//       where a+b can pass the top of the range. Sequence numbers and RTP timestamps live exactly there; the wrap-safe
//       idioms compare a difference with a length, or count iterations with a separate index.
//   K4  cross-append: `a.f = append(a.g, x)` with g ≠ f builds f's new contents on g's backing array: the history kept
//       in f is replaced by g's, and the two fields then overwrite each other's elements. The base of an append whose
//       result is stored to a field of long-lived state must be that same field (or fresh / local memory).

//   E4  constant-step trim: a history field cut by a fixed number of elements (`h = h[1:]` when it is over its limit)
//       stays bounded only if at most that many elements were appended since the last cut. An append to the field that
//       can repeat (sits on a cycle of the control-flow graph) without passing the cut — the cut moved out of the loop
//       that appends — lets the history grow by the difference on every call. A cut relative to the length
//       (`h[len(h)-max:]`), or one that itself repeats until the limit holds, is not subject to this.

func init() {
	registerEngine("LINT", []string{"J3", "K3", "J4", "J5", "K4", "E4"}, runEngineLint)
}

// cycleAvoiding: block b lies on a CFG cycle that passes none of the blocks in avoid.
func cycleAvoiding(b *ssa.BasicBlock, avoid map[*ssa.BasicBlock]bool) bool {
	seen := map[*ssa.BasicBlock]bool{}
	work := append([]*ssa.BasicBlock{}, b.Succs...)
	for len(work) > 0 {
		x := work[len(work)-1]
		work = work[:len(work)-1]
		if x == b {
			return true
		}
		if seen[x] || avoid[x] {
			continue
		}
		seen[x] = true
		work = append(work, x.Succs...)
	}
	return false
}

// belowSignBit: v (an unsigned value of bits width) provably stays below 2^(bits-1).
func belowSignBit(p *Prog, v ssa.Value, bits int, d int) bool {
	if d > 6 {
		return false
	}
	v = p.origin(v)
	limit := int64(1) << uint(bits-1)
	switch x := v.(type) {
	case *ssa.Const:
		c, ok := constInt(x)
		return ok && c >= 0 && c < limit
	case *ssa.Convert:
		if b, ok := x.X.Type().Underlying().(*types.Basic); ok && b.Info()&types.IsInteger != 0 && intBits(b) < bits {
			return true
		}
		return belowSignBit(p, x.X, bits, d+1)
	case *ssa.BinOp:
		switch x.Op {
		case token.AND:
			for _, s := range []ssa.Value{x.X, x.Y} {
				if c, ok := constInt(s); ok && c >= 0 && c < limit {
					return true
				}
			}
		case token.REM:
			if c, ok := constInt(x.Y); ok && c > 0 && c <= limit {
				return true
			}
		case token.SHR:
			if c, ok := constInt(x.Y); ok && c >= 1 {
				return true
			}
		case token.QUO:
			if c, ok := constInt(x.Y); ok && c >= 2 {
				return true
			}
		}
	case *ssa.Phi:
		for _, e := range x.Edges {
			if !belowSignBit(p, e, bits, d+1) {
				return false
			}
		}
		return len(x.Edges) > 0
	case *ssa.Call:
		if b := builtinName(&x.Call); b == "min" {
			for _, a := range x.Call.Args {
				if belowSignBit(p, a, bits, d+1) {
					return true
				}
			}
		}
	}
	return false
}

func intBits(b *types.Basic) int {
	switch b.Kind() {
	case types.Int8, types.Uint8:
		return 8
	case types.Int16, types.Uint16:
		return 16
	case types.Int32, types.Uint32:
		return 32
	}
	return 64
}

func pkgRelOf(f *ssa.Function) string {
	k := funcKey(f)
	for f.Parent() != nil {
		f = f.Parent()
		k = funcKey(f)
	}
	return pkgOfKey(k)
}

func runEngineLint(p *Prog, o *obls) {
	remCount := map[string]int{}
	loopCount := map[string]int{}
	convCount := map[string]int{}
	cmpCount := map[string]int{}
	trimCount := map[string]int{}
	appCount := map[string]int{}
	pkgs := map[string]bool{}
	for _, fn := range p.Funcs {
		pk := pkgRelOf(fn)
		pkgs[pk] = true
		// ---- J3
		instrsOf(fn, func(in ssa.Instruction) {
			bo, ok := in.(*ssa.BinOp)
			if !ok || bo.Op != token.REM {
				return
			}
			remCount[pk]++
			c, ok := constInt(bo.Y)
			if !ok {
				return
			}
			if c == 65535 || c == 4294967295 {
				o.bad("J3", funcKey(fn)+":rem", p.instrPos(bo), fmt.Sprintf("remainder by %d (2^k-1): a wrapping counter is reduced modulo 2^k, this modulus maps the top value to 0 and shifts every value after the wrap by one", c))
			} else {
				o.ok("J3", funcKey(fn)+":rem", p.instrPos(bo), fmt.Sprintf("remainder by the constant %d, not an off-by-one wrap modulus", c))
			}
		})
		// ---- J4
		instrsOf(fn, func(in ssa.Instruction) {
			cv, ok := in.(*ssa.Convert)
			if !ok {
				return
			}
			from, ok1 := cv.X.Type().Underlying().(*types.Basic)
			to, ok2 := cv.Type().Underlying().(*types.Basic)
			if !ok1 || !ok2 || from.Info()&types.IsUnsigned == 0 || to.Info()&types.IsInteger == 0 || to.Info()&types.IsUnsigned != 0 {
				return
			}
			bits := intBits(from)
			if bits != intBits(to) || bits > 32 {
				return
			}
			convCount[pk]++
			key := fmt.Sprintf("%s:signed(%s)", funcKey(fn), shortExpr(p, cv.X))
			if bo, isDiff := p.origin(cv.X).(*ssa.BinOp); isDiff && bo.Op == token.SUB {
				o.ok("J4", key, p.instrPos(cv), "signed reading of a wrap-around difference")
				return
			}
			if belowSignBit(p, cv.X, bits, 0) {
				o.ok("J4", key, p.instrPos(cv), fmt.Sprintf("operand provably below 2^%d", bits-1))
				return
			}
			o.bad("J4", key, p.instrPos(cv), fmt.Sprintf("%s(%s) reinterprets an unsigned %d-bit magnitude (not a difference, not provably below 2^%d) as signed: values from %d up turn negative — the largest admitted window size or any sequence number in the upper half of the range then fails every ordered comparison", to.Name(), shortExpr(p, cv.X), bits, bits-1, int64(1)<<uint(bits-1)))
		})
		// ---- J5
		instrsOf(fn, func(in ssa.Instruction) {
			bo, ok := in.(*ssa.BinOp)
			if !ok || (bo.Op != token.LSS && bo.Op != token.LEQ && bo.Op != token.GTR && bo.Op != token.GEQ) {
				return
			}
			bt, ok := bo.X.Type().Underlying().(*types.Basic)
			if !ok || bt.Info()&types.IsUnsigned == 0 || intBits(bt) > 32 {
				return
			}
			cmpCount[pk]++
			for _, side := range []ssa.Value{bo.X, bo.Y} {
				sum, ok := p.origin(side).(*ssa.BinOp)
				if ok && sum.Op == token.SUB {
					if _, isC := p.origin(sum.Y).(*ssa.Const); !isC {
						o.ok("J5", fmt.Sprintf("%s:cmp(%s)", funcKey(fn), shortExpr(p, side)), p.instrPos(bo), "wrap-safe form: a difference is compared with a length")
					}
					continue
				}
				if !ok || sum.Op != token.ADD {
					continue
				}
				// a sum of two run-time quantities of this width (start + length) can pass the top of the range; x+const is
				// left alone: it is the shape of every counted loop (`i+1 < n`), where x < n is known
				// … unless x is the variable of a walk that ends on equality (`for i := a; i != end; i++`): such a loop
				// runs through the top of the range by design, x is not bounded by anything, and x+c wraps on the way
				walker := func(v ssa.Value) bool {
					phi, ok := p.origin(v).(*ssa.Phi)
					if !ok {
						return false
					}
					c, ok := ifCond(phi.Block()).(*ssa.BinOp)
					return ok && (c.Op == token.NEQ || c.Op == token.EQL) && (p.origin(c.X) == ssa.Value(phi) || p.origin(c.Y) == ssa.Value(phi))
				}
				if _, c1 := p.origin(sum.X).(*ssa.Const); c1 && !walker(sum.Y) {
					continue
				}
				if _, c2 := p.origin(sum.Y).(*ssa.Const); c2 && !walker(sum.X) {
					continue
				}
				bits := intBits(bt)
				if belowSignBit(p, sum.X, bits, 0) && belowSignBit(p, sum.Y, bits, 0) {
					continue // both halves below 2^(N-1): the sum fits
				}
				key := fmt.Sprintf("%s:cmp(%s)", funcKey(fn), shortExpr(p, side))
				o.bad("J5", key, p.instrPos(bo), fmt.Sprintf("ordered comparison %s %s %s of %d-bit unsigned values one of which is the sum %s: the sum wraps past the top of the range (a sequence-number run that crosses %d→0), and the comparison then has the opposite outcome; wrap-safe forms compare a difference (`a - b < n`) or count with a separate index",
					shortExpr(p, bo.X), bo.Op, shortExpr(p, bo.Y), bits, shortExpr(p, side), (int64(1)<<uint(bits))-1))
			}
		})
		// ---- K4
		instrsOf(fn, func(in ssa.Instruction) {
			st, ok := in.(*ssa.Store)
			if !ok {
				return
			}
			dst, ok := st.Addr.(*ssa.FieldAddr)
			if !ok {
				return
			}
			if _, isSlice := deref(dst.Type()).Underlying().(*types.Slice); !isSlice {
				return
			}
			bases := appendBases(p, st.Val, 0, map[ssa.Value]bool{})
			if len(bases) == 0 {
				return
			}
			appCount[pk]++
			dk := p.pureKey(dst)
			var wrong []string
			for _, b := range bases {
				u, ok := p.origin(b).(*ssa.UnOp)
				if !ok || u.Op != token.MUL {
					continue // a local, a parameter, a fresh slice
				}
				src, ok := u.X.(*ssa.FieldAddr)
				if !ok || p.pureKey(src) == dk {
					continue
				}
				if _, isSlice := deref(src.Type()).Underlying().(*types.Slice); !isSlice {
					continue
				}
				// a different field of long-lived state (same object or another one)
				// a field of a different, local object (a freshly built struct) is local memory; two fields of the same
				// object — also of a by-value copy of long-lived state, whose slices still share their arrays — are not
				if al, isAlloc := cellAddr(addrRoot(src)).(*ssa.Alloc); isAlloc && cellAddr(addrRoot(dst)) != ssa.Value(al) {
					continue
				}
				wrong = append(wrong, fmt.Sprintf("%s (read at %s)", fieldKeyAddr(src), p.instrPos(u)))
			}
			key := fmt.Sprintf("%s:append→%s", funcKey(fn), fieldKeyAddr(dst))
			if len(wrong) > 0 {
				o.bad("K4", key, p.instrPos(st), fmt.Sprintf("the value stored to %s is an append to %s: the field's own history is replaced by the other field's, and both fields now grow into one backing array", fieldKeyAddr(dst), strings.Join(dedupe(wrong), ", ")))
			} else {
				o.ok("K4", key, p.instrPos(st), "the append stored to the field is based on that field (or on local memory)")
			}
		})
		// ---- E4
		{
			type trim struct {
				st *ssa.Store
				c  int64
			}
			trims := map[string][]trim{}
			appends := map[string][]*ssa.Store{}
			instrsOf(fn, func(in ssa.Instruction) {
				st, ok := in.(*ssa.Store)
				if !ok {
					return
				}
				dst, ok := st.Addr.(*ssa.FieldAddr)
				if !ok {
					return
				}
				if _, isSlice := deref(dst.Type()).Underlying().(*types.Slice); !isSlice {
					return
				}
				dk := p.pureKey(dst)
				selfLoad := func(v ssa.Value) bool {
					u, ok := p.origin(v).(*ssa.UnOp)
					if !ok || u.Op != token.MUL {
						return false
					}
					fa, ok := u.X.(*ssa.FieldAddr)
					return ok && p.pureKey(fa) == dk
				}
				if sl, ok := p.origin(st.Val).(*ssa.Slice); ok && sl.High == nil && sl.Max == nil && sl.Low != nil && selfLoad(sl.X) {
					if c, ok := constInt(sl.Low); ok && c >= 1 {
						trims[dk] = append(trims[dk], trim{st, c})
					}
					return
				}
				for _, b := range appendBases(p, st.Val, 0, map[ssa.Value]bool{}) {
					if selfLoad(b) {
						appends[dk] = append(appends[dk], st)
						break
					}
				}
			})
			for dk, ts := range trims {
				if len(appends[dk]) == 0 {
					continue
				}
				trimCount[pk]++
				appBlocks := map[*ssa.BasicBlock]bool{}
				for _, a := range appends[dk] {
					appBlocks[a.Block()] = true
				}
				for _, t := range ts {
					dst := t.st.Addr.(*ssa.FieldAddr)
					key := fmt.Sprintf("%s:trim(%s)", funcKey(fn), fieldKeyAddr(dst))
					var bad []string
					// the cut is usually conditional (`if len(h) > max`): passing the test counts as passing the cut
					avoid := map[*ssa.BasicBlock]bool{t.st.Block(): true}
					var guard *ssa.BasicBlock
					if tb := t.st.Block(); len(tb.Preds) == 1 && ifCond(tb.Preds[0]) != nil {
						guard = tb.Preds[0]
						avoid[guard] = true
					}
					// `for len(h) > max { h = h[1:] }`: the cut jumps straight back to its own test
					repeats := false
					if guard != nil {
						for _, sc := range t.st.Block().Succs {
							if sc == guard {
								repeats = true
							}
						}
					}
					if repeats {
						o.ok("E4", key, p.instrPos(t.st), "the constant-step cut repeats (it is the body of a loop on its own test) until the limit holds")
						continue
					}
					for _, a := range appends[dk] {
						if guard != nil && a.Block() == guard {
							continue // the test follows the append in the same block
						}
						if cycleAvoiding(a.Block(), avoid) {
							bad = append(bad, fmt.Sprintf("the append at %s can repeat without passing the cut at %s, which removes only %d element(s)", p.instrPos(a), p.instrPos(t.st), t.c))
						}
					}
					if len(bad) > 0 {
						o.bad("E4", key, p.instrPos(t.st), strings.Join(dedupe(bad), "; ")+": the history grows past its limit by the difference on every call and is never cut back")
					} else {
						o.ok("E4", key, p.instrPos(t.st), fmt.Sprintf("every append to the field is followed by the cut of %d before it can repeat", t.c))
					}
				}
			}
		}
		// ---- K3
		for _, l := range findRangeLoops(fn) {
			loopCount[pk]++
			base := p.origin(l.Slice)
			var appends []*ssa.Call
			spread := false
			for b := range l.Blocks {
				for _, in := range b.Instrs {
					c, ok := in.(*ssa.Call)
					if !ok || builtinName(&c.Call) != "append" {
						continue
					}
					if !reachesEmptyResliceOf(p, c.Call.Args[0], base, 0) {
						continue
					}
					appends = append(appends, c)
					if !singletonSlice(c.Call.Args[1]) {
						spread = true
					}
				}
			}
			if len(appends) == 0 {
				continue
			}
			key := funcKey(fn) + ":in-place"
			isApp := func(in ssa.Instruction) bool {
				for _, a := range appends {
					if in == ssa.Instruction(a) {
						return true
					}
				}
				return false
			}
			twice := false
			for _, s := range l.Header.Succs {
				if !l.Blocks[s] {
					continue
				}
				before := seededCounts(fn, s, isApp)
				for _, pr := range l.Header.Preds {
					if l.Blocks[pr] && before[pr.Instrs[len(pr.Instrs)-1]]&4 != 0 {
						twice = true
					}
				}
			}
			switch {
			case spread:
				o.bad("K3", key, p.instrPos(appends[0]), "the loop compacts the slice it ranges over in place (out := xs[:0]) but one iteration can append a whole slice: the writes overtake the reads, later elements are overwritten before they are visited")
			case twice:
				o.bad("K3", key, p.instrPos(appends[0]), "the loop compacts the slice it ranges over in place (out := xs[:0]) but one iteration can append more than one element: the writes overtake the reads")
			default:
				o.ok("K3", key, p.instrPos(appends[0]), "in-place compaction appends at most one element per element read")
			}
		}
	}
	var ps []string
	for k := range pkgs {
		ps = append(ps, k)
	}
	sort.Strings(ps)
	for _, pk := range ps {
		o.trivial("J3", pk+":inspected", "-", fmt.Sprintf("%d remainder operation(s) inspected", remCount[pk]))
		o.trivial("K3", pk+":inspected", "-", fmt.Sprintf("%d range/counted loop(s) over slices inspected", loopCount[pk]))
		o.trivial("J4", pk+":inspected", "-", fmt.Sprintf("%d same-width unsigned→signed conversion(s) of at most 32 bits inspected", convCount[pk]))
		o.trivial("J5", pk+":inspected", "-", fmt.Sprintf("%d ordered comparison(s) of unsigned values of at most 32 bits inspected", cmpCount[pk]))
		o.trivial("K4", pk+":inspected", "-", fmt.Sprintf("%d append(s) stored to slice fields inspected", appCount[pk]))
		o.trivial("E4", pk+":inspected", "-", fmt.Sprintf("%d constant-step cut(s) of appended slice fields inspected", trimCount[pk]))
	}
}

// appendBases: the first arguments of the append calls v is built from (through φ, re-slices and nested appends).
func appendBases(p *Prog, v ssa.Value, d int, seen map[ssa.Value]bool) []ssa.Value {
	v = p.origin(v)
	if v == nil || seen[v] || d > 8 {
		return nil
	}
	seen[v] = true
	switch x := v.(type) {
	case *ssa.Call:
		if builtinName(&x.Call) == "append" {
			if inner := appendBases(p, x.Call.Args[0], d+1, seen); len(inner) > 0 {
				return inner
			}
			return []ssa.Value{x.Call.Args[0]}
		}
	case *ssa.Slice:
		if x.Max != nil && isConstInt(x.Max, 0) {
			return nil // s[:0:0] has no capacity: appending to it allocates (the clone idiom)
		}
		return appendBases(p, x.X, d+1, seen)
	case *ssa.Phi:
		var out []ssa.Value
		for _, e := range x.Edges {
			out = append(out, appendBases(p, e, d+1, seen)...)
		}
		return out
	}
	return nil
}

// reachesEmptyResliceOf: v is (through φ and appends) xs[:0] of the slice `base`.
func reachesEmptyResliceOf(p *Prog, v ssa.Value, base ssa.Value, d int) bool {
	seen := map[ssa.Value]bool{}
	var walk func(v ssa.Value, d int) bool
	walk = func(v ssa.Value, d int) bool {
		v = p.origin(v)
		if v == nil || seen[v] || d > 12 {
			return false
		}
		seen[v] = true
		switch x := v.(type) {
		case *ssa.Slice:
			if x.High != nil && isConstInt(x.High, 0) && (p.origin(x.X) == base || p.pureKey(x.X) == p.pureKey(base)) {
				return true
			}
		case *ssa.Phi:
			for _, e := range x.Edges {
				if walk(e, d+1) {
					return true
				}
			}
		case *ssa.Call:
			if builtinName(&x.Call) == "append" {
				return walk(x.Call.Args[0], d+1)
			}
		}
		return false
	}
	return walk(v, d)
}

// singletonSlice: the variadic argument of append(a, x): a slice of a one-element array literal.
func singletonSlice(v ssa.Value) bool {
	sl, ok := v.(*ssa.Slice)
	if !ok {
		return false
	}
	al, ok := sl.X.(*ssa.Alloc)
	if !ok {
		return false
	}
	at, ok := deref(al.Type()).Underlying().(*types.Array)
	return ok && at.Len() == 1
}

var _ = strings.HasPrefix

// probeJ6 (debug): ordered comparisons of two non-constant 16-bit unsigned values.
func probeJ6(p *Prog) {
	for _, fn := range p.Funcs {
		instrsOf(fn, func(in ssa.Instruction) {
			bo, ok := in.(*ssa.BinOp)
			if !ok || (bo.Op != token.LSS && bo.Op != token.LEQ && bo.Op != token.GTR && bo.Op != token.GEQ) {
				return
			}
			bt, ok := bo.X.Type().Underlying().(*types.Basic)
			if !ok || bt.Info()&types.IsUnsigned == 0 || intBits(bt) != 16 {
				return
			}
			if _, c := p.origin(bo.X).(*ssa.Const); c {
				return
			}
			if _, c := p.origin(bo.Y).(*ssa.Const); c {
				return
			}
			fmt.Printf("%s  %s: %s %s %s\n", p.instrPos(bo), funcKey(fn), shortExpr(p, bo.X), bo.Op, shortExpr(p, bo.Y))
		})
	}
}
