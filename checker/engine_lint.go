package main

// Two pattern rules over the whole universe whose expected instance count on a correct tree is zero. Each emits one
// summary obligation per package stating what was inspected, and fires on the pattern:
//   J3  a remainder by 2^16-1 or 2^32-1: sequence numbers and timestamps wrap modulo 2^16 / 2^32 (the conversion to
//       uintN), a modulus that is one less maps the top value onto 0 and shifts everything after the wrap.
//   K3  in-place compaction that can grow: `out := xs[:0]; for … range xs { out = append(out, …) }` writes into the
//       array it is still reading; as soon as one iteration can append more than one element the writes overtake the
//       reads (members are dropped and duplicated, and the caller's slice is corrupted).

import (
	"fmt"
	"go/token"
	"go/types"
	"sort"
	"strings"

	"golang.org/x/tools/go/ssa"
)

func init() {
	registerEngine("LINT", []string{"J3", "K3"}, runEngineLint)
}

func pkgRelOf(f *ssa.Function) string {
	k := funcKey(f)
	for f.Parent() != nil {
		f = f.Parent()
		k = funcKey(f)
	}
	return pkgOfKey(k)
}

func runEngineLint(p *Prog, o *obls) {
	remCount := map[string]int{}
	loopCount := map[string]int{}
	pkgs := map[string]bool{}
	for _, fn := range p.Funcs {
		pk := pkgRelOf(fn)
		pkgs[pk] = true
		// ---- J3
		instrsOf(fn, func(in ssa.Instruction) {
			bo, ok := in.(*ssa.BinOp)
			if !ok || bo.Op != token.REM {
				return
			}
			remCount[pk]++
			c, ok := constInt(bo.Y)
			if !ok {
				return
			}
			if c == 65535 || c == 4294967295 {
				o.bad("J3", funcKey(fn)+":rem", p.instrPos(bo), fmt.Sprintf("remainder by %d (2^k-1): a wrapping counter is reduced modulo 2^k, this modulus maps the top value to 0 and shifts every value after the wrap by one", c))
			} else {
				o.ok("J3", funcKey(fn)+":rem", p.instrPos(bo), fmt.Sprintf("remainder by the constant %d, not an off-by-one wrap modulus", c))
			}
		})
		// ---- K3
		for _, l := range findRangeLoops(fn) {
			loopCount[pk]++
			base := p.origin(l.Slice)
			var appends []*ssa.Call
			spread := false
			for b := range l.Blocks {
				for _, in := range b.Instrs {
					c, ok := in.(*ssa.Call)
					if !ok || builtinName(&c.Call) != "append" {
						continue
					}
					if !reachesEmptyResliceOf(p, c.Call.Args[0], base, 0) {
						continue
					}
					appends = append(appends, c)
					if !singletonSlice(c.Call.Args[1]) {
						spread = true
					}
				}
			}
			if len(appends) == 0 {
				continue
			}
			key := funcKey(fn) + ":in-place"
			isApp := func(in ssa.Instruction) bool {
				for _, a := range appends {
					if in == ssa.Instruction(a) {
						return true
					}
				}
				return false
			}
			twice := false
			for _, s := range l.Header.Succs {
				if !l.Blocks[s] {
					continue
				}
				before := seededCounts(fn, s, isApp)
				for _, pr := range l.Header.Preds {
					if l.Blocks[pr] && before[pr.Instrs[len(pr.Instrs)-1]]&4 != 0 {
						twice = true
					}
				}
			}
			switch {
			case spread:
				o.bad("K3", key, p.instrPos(appends[0]), "the loop compacts the slice it ranges over in place (out := xs[:0]) but one iteration can append a whole slice: the writes overtake the reads, later elements are overwritten before they are visited")
			case twice:
				o.bad("K3", key, p.instrPos(appends[0]), "the loop compacts the slice it ranges over in place (out := xs[:0]) but one iteration can append more than one element: the writes overtake the reads")
			default:
				o.ok("K3", key, p.instrPos(appends[0]), "in-place compaction appends at most one element per element read")
			}
		}
	}
	var ps []string
	for k := range pkgs {
		ps = append(ps, k)
	}
	sort.Strings(ps)
	for _, pk := range ps {
		o.trivial("J3", pk+":inspected", "-", fmt.Sprintf("%d remainder operation(s) inspected", remCount[pk]))
		o.trivial("K3", pk+":inspected", "-", fmt.Sprintf("%d range/counted loop(s) over slices inspected", loopCount[pk]))
	}
}

// reachesEmptyResliceOf: v is (through φ and appends) xs[:0] of the slice `base`.
func reachesEmptyResliceOf(p *Prog, v ssa.Value, base ssa.Value, d int) bool {
	seen := map[ssa.Value]bool{}
	var walk func(v ssa.Value, d int) bool
	walk = func(v ssa.Value, d int) bool {
		v = p.origin(v)
		if v == nil || seen[v] || d > 12 {
			return false
		}
		seen[v] = true
		switch x := v.(type) {
		case *ssa.Slice:
			if x.High != nil && isConstInt(x.High, 0) && (p.origin(x.X) == base || p.pureKey(x.X) == p.pureKey(base)) {
				return true
			}
		case *ssa.Phi:
			for _, e := range x.Edges {
				if walk(e, d+1) {
					return true
				}
			}
		case *ssa.Call:
			if builtinName(&x.Call) == "append" {
				return walk(x.Call.Args[0], d+1)
			}
		}
		return false
	}
	return walk(v, d)
}

// singletonSlice: the variadic argument of append(a, x): a slice of a one-element array literal.
func singletonSlice(v ssa.Value) bool {
	sl, ok := v.(*ssa.Slice)
	if !ok {
		return false
	}
	al, ok := sl.X.(*ssa.Alloc)
	if !ok {
		return false
	}
	at, ok := deref(al.Type()).Underlying().(*types.Array)
	return ok && at.Len() == 1
}

var _ = strings.HasPrefix
