package main

import (
	"fmt"
	"go/token"
	"go/types"
	"sort"
	"strings"

	"golang.org/x/tools/go/ssa"
)

// Lockset infrastructure shared by engines C and D: lock identification by (struct type, field), per-function
// must-hold locksets with entry locksets propagated from static call sites, pruning of infeasible !ok branches.

type lockset map[string]int // lock id → 1 (read-held) | 2 (write-held); absent = not held

func (l lockset) clone() lockset {
	n := lockset{}
	for k, v := range l {
		n[k] = v
	}
	return n
}

func (l lockset) String() string {
	if len(l) == 0 {
		return "{}"
	}
	var s []string
	for _, k := range sortedKeys(l) {
		m := "W"
		if l[k] == 1 {
			m = "R"
		}
		s = append(s, k+":"+m)
	}
	return "{" + strings.Join(s, ", ") + "}"
}

func meetLocks(a, b lockset) lockset {
	n := lockset{}
	for k, v := range a {
		if w, ok := b[k]; ok {
			if w < v {
				v = w
			}
			n[k] = v
		}
	}
	return n
}

func sameLocks(a, b lockset) bool {
	if len(a) != len(b) {
		return false
	}
	for k, v := range a {
		if b[k] != v {
			return false
		}
	}
	return true
}

type lockOp struct {
	id   string
	kind string // Lock, RLock, Unlock, RUnlock
	addr ssa.Value
}

// lockOpOf classifies a call as a mutex operation.
func lockOpOf(c *ssa.CallCommon) (lockOp, bool) {
	sc := c.StaticCallee()
	if sc == nil || sc.Signature.Recv() == nil || len(c.Args) == 0 {
		return lockOp{}, false
	}
	rt := typeKey(sc.Signature.Recv().Type())
	if rt != "sync.Mutex" && rt != "sync.RWMutex" {
		// a wrapper method whose whole body is one mutex operation on a field of its receiver (`func (s *T) lock() {
		// s.mu.Lock() }`) is that operation
		if op, ok := lockWrapperOp(sc); ok {
			op.addr = c.Args[0]
			return op, true
		}
		return lockOp{}, false
	}
	switch sc.Name() {
	case "Lock", "RLock", "Unlock", "RUnlock":
	default:
		return lockOp{}, false
	}
	return lockOp{id: lockIDOf(c.Args[0]), kind: sc.Name(), addr: c.Args[0]}, true
}

var lockWrapperCache = map[*ssa.Function]*lockOp{}

func lockWrapperOp(sc *ssa.Function) (lockOp, bool) {
	if r, ok := lockWrapperCache[sc]; ok {
		if r == nil {
			return lockOp{}, false
		}
		return *r, true
	}
	lockWrapperCache[sc] = nil
	if sc.Blocks == nil || len(sc.Blocks) != 1 || len(sc.Params) != 1 || sc.Signature.Results().Len() != 0 {
		return lockOp{}, false
	}
	var found *lockOp
	for _, in := range sc.Blocks[0].Instrs {
		switch x := in.(type) {
		case *ssa.Call:
			isc := x.Call.StaticCallee()
			if isc == nil || isc.Signature.Recv() == nil || len(x.Call.Args) == 0 || found != nil {
				return lockOp{}, false
			}
			irt := typeKey(isc.Signature.Recv().Type())
			if irt != "sync.Mutex" && irt != "sync.RWMutex" {
				return lockOp{}, false
			}
			switch isc.Name() {
			case "Lock", "RLock", "Unlock", "RUnlock":
			default:
				return lockOp{}, false
			}
			fa, ok := x.Call.Args[0].(*ssa.FieldAddr)
			if !ok || fa.X != ssa.Value(sc.Params[0]) {
				return lockOp{}, false
			}
			found = &lockOp{id: fieldKeyAddr(fa), kind: isc.Name()}
		case *ssa.FieldAddr, *ssa.Return, *ssa.DebugRef:
		default:
			return lockOp{}, false
		}
	}
	if found == nil {
		return lockOp{}, false
	}
	lockWrapperCache[sc] = found
	return *found, true
}

// lockIDOf names the mutex an address denotes: "pkg.Type.field" for struct fields, "global:name" for package-level
// mutexes, a per-value id otherwise.
func lockIDOf(addr ssa.Value) string {
	switch x := addr.(type) {
	case *ssa.FieldAddr:
		return fieldKeyAddr(x)
	case *ssa.Global:
		return "global:" + x.Name()
	case *ssa.UnOp:
		// a *sync.Mutex stored in a field
		if fa, ok := x.X.(*ssa.FieldAddr); ok && x.Op == token.MUL {
			return fieldKeyAddr(fa)
		}
	}
	return fmt.Sprintf("local:%s", addr.Name())
}

// lockInfo holds the per-function results.
type lockInfo struct {
	before map[ssa.Instruction]lockset // lockset immediately before each instruction
	exit   lockset                     // meet over returns (after deferred unlocks)
	deferU map[string]bool             // locks with a deferred unlock
	nAcq   int                         // lock acquisitions in the function
	leaks  []lockLeak                  // returns reached with a lock that this function acquired and did not release
}

// lockLeak: a return that some path reaches with a lock still held that the function itself acquired (and whose
// unlock is not deferred).
type lockLeak struct {
	ret  *ssa.Return
	lock string
	at   ssa.Instruction // the acquisition
}

type lockAnalysis struct {
	p        *Prog
	entry    map[*ssa.Function]lockset // nil entry in map = TOP (not yet constrained)
	top      map[*ssa.Function]bool
	info     map[*ssa.Function]*lockInfo
	internal map[*ssa.Function]bool // entry lockset derived from call sites
	sites    map[*ssa.Function][]ssa.CallInstruction
	syncLit  map[*ssa.Function]ssa.Instruction // function literal invoked synchronously at this instruction
	paramCalled map[*ssa.Function]bool // literal handed to a helper that calls its function parameter: sites = those calls
	pruned   []string
	prunedE  map[[2]*ssa.BasicBlock]bool
}

func (p *Prog) Locks() *lockAnalysis {
	if p.lockA != nil {
		return p.lockA
	}
	la := &lockAnalysis{p: p, entry: map[*ssa.Function]lockset{}, top: map[*ssa.Function]bool{}, info: map[*ssa.Function]*lockInfo{},
		internal: map[*ssa.Function]bool{}, sites: map[*ssa.Function][]ssa.CallInstruction{}, syncLit: map[*ssa.Function]ssa.Instruction{}, paramCalled: map[*ssa.Function]bool{},
		prunedE: map[[2]*ssa.BasicBlock]bool{}}
	p.lockA = la
	la.classify()
	la.findInfeasible()
	// fixpoint
	for _, f := range p.Funcs {
		if la.internal[f] {
			la.top[f] = true
		} else {
			la.entry[f] = lockset{}
		}
	}
	for iter := 0; iter < 30; iter++ {
		for _, f := range p.Funcs {
			if !la.top[f] {
				la.info[f] = la.analyse(f)
			}
		}
		changed := false
		for _, f := range p.Funcs {
			if !la.internal[f] {
				continue
			}
			var ne lockset
			have := false
			meetIn := func(ls lockset) {
				if !have {
					ne, have = ls.clone(), true
				} else {
					ne = meetLocks(ne, ls)
				}
			}
			for _, site := range la.sites[f] {
				caller := site.Parent()
				if la.top[caller] || la.info[caller] == nil {
					continue // not yet known
				}
				if _, isGo := site.(*ssa.Go); isGo {
					meetIn(lockset{})
					continue
				}
				if _, isDefer := site.(*ssa.Defer); isDefer {
					// runs at function exit: locks whose unlock was deferred earlier are still held
					ls := lockset{}
					for k, v := range la.info[caller].before[site] {
						if la.info[caller].deferU[k] {
							ls[k] = v
						}
					}
					meetIn(ls)
					continue
				}
				meetIn(la.info[caller].before[site])
			}
			if in, ok := la.syncLit[f]; ok {
				caller := in.Parent()
				if !la.top[caller] && la.info[caller] != nil {
					meetIn(la.info[caller].before[in])
				}
			}
			if !have {
				continue
			}
			if la.top[f] || !sameLocks(la.entry[f], ne) {
				la.top[f] = false
				la.entry[f] = ne
				changed = true
			}
		}
		if !changed {
			break
		}
	}
	// functions never constrained (no analysable caller): treat as entry points
	for _, f := range p.Funcs {
		if la.top[f] {
			la.top[f] = false
			la.entry[f] = lockset{}
		}
	}
	for _, f := range p.Funcs {
		la.info[f] = la.analyse(f)
	}
	return la
}

func isExportedName(n string) bool { return n != "" && n[0] >= 'A' && n[0] <= 'Z' }

// classify decides which functions take their entry lockset from their call sites.
func (la *lockAnalysis) classify() {
	p := la.p
	valueUse := map[*ssa.Function]bool{}
	iterCalled := map[*ssa.Function]bool{} // literals returned by an iterator constructor and called by its callers
	for _, f := range p.Funcs {
		instrsOf(f, func(in ssa.Instruction) {
			if ci, ok := in.(ssa.CallInstruction); ok {
				if sc := ci.Common().StaticCallee(); sc != nil && p.InUniverse(sc) {
					// a call of an instance of a generic function is a call of the generic body that is analysed
					if o := sc.Origin(); o != nil && o != sc && p.InUniverse(o) {
						sc = o
					}
					la.sites[sc] = append(la.sites[sc], ci)
				} else if sc == nil && !ci.Common().IsInvoke() {
					// a call of what an iterator constructor returned (`for x := range h.stored(a, b)`): the returned
					// literal runs here
					for _, lit := range p.returnedLiterals(ci.Common().Value) {
						if p.InUniverse(lit) && lit.Parent() != nil {
							la.sites[lit] = append(la.sites[lit], ci)
							iterCalled[lit] = true
						}
					}
				}
			}
			// function values used other than as the callee
			for _, op := range in.Operands(nil) {
				if *op == nil {
					continue
				}
				var fn *ssa.Function
				switch x := (*op).(type) {
				case *ssa.Function:
					fn = x
				case *ssa.MakeClosure:
					fn = x.Fn.(*ssa.Function)
				}
				if fn == nil {
					continue
				}
				if ci, ok := in.(ssa.CallInstruction); ok && ci.Common().Value == *op {
					continue
				}
				if _, isMC := in.(*ssa.MakeClosure); isMC {
					continue
				}
				valueUse[fn] = true
				// a literal handed directly to a call (Range callbacks, Once.Do, immediately used helpers) is assumed
				// to be invoked synchronously by that call
				if ci, ok := in.(*ssa.Call); ok && fn.Parent() != nil {
					// handed to a repository helper that calls its function parameter (withLock(func(){…}), a
					// visitor): the literal runs where the helper calls that parameter, with the locks held there
					sc := ci.Call.StaticCallee()
					if sc == nil && !ci.Call.IsInvoke() {
						if lits := p.returnedLiterals(ci.Call.Value); len(lits) == 1 {
							sc = lits[0] // the body of a range-over-func loop handed to the iterator
						}
					}
					if sc != nil && p.InUniverse(sc) && sc.Blocks != nil {
						var inner []ssa.CallInstruction
						async := false
						for k, a := range ci.Call.Args {
							if a != *op || k >= len(sc.Params) {
								continue
							}
							par := sc.Params[k]
							instrsOf(sc, func(in2 ssa.Instruction) {
								if c2, ok := in2.(ssa.CallInstruction); ok && !c2.Common().IsInvoke() && p.origin(c2.Common().Value) == ssa.Value(par) {
									if _, isGo := c2.(*ssa.Go); !isGo {
										inner = append(inner, c2)
									} else {
										async = true
									}
								}
								// the helper runs its parameter in a goroutine of its own (`go func() { defer wg.Done();
								// loop() }()`): the literal starts there with nothing held
								mc, ok := in2.(*ssa.MakeClosure)
								if !ok || mc.Referrers() == nil {
									return
								}
								lf := mc.Fn.(*ssa.Function)
								for bi, b := range mc.Bindings {
									isPar := p.origin(b) == ssa.Value(par)
									if al, ok := b.(*ssa.Alloc); ok && !isPar {
										// a captured parameter is spilled to a cell initialised from it
										n, all := 0, true
										for _, st := range p.storesInto(al) {
											n++
											if st.Val != ssa.Value(par) {
												all = false
											}
										}
										isPar = n > 0 && all
									}
									if !isPar || bi >= len(lf.FreeVars) {
										continue
									}
									fv := lf.FreeVars[bi]
									goOnly := true
									for _, r := range *mc.Referrers() {
										if g, isGo := r.(*ssa.Go); !isGo || g.Call.Value != ssa.Value(mc) {
											if _, isDbg := r.(*ssa.DebugRef); !isDbg {
												goOnly = false
											}
										}
									}
									instrsOf(lf, func(in3 ssa.Instruction) {
										if c3, ok := in3.(ssa.CallInstruction); ok && !c3.Common().IsInvoke() && (p.origin(c3.Common().Value) == ssa.Value(fv) || isLoadOf(c3.Common().Value, fv)) {
											if goOnly {
												async = true
											} else {
												inner = append(inner, c3)
											}
										}
									})
								}
							})
						}
						if len(inner) > 0 {
							la.sites[fn] = append(la.sites[fn], inner...)
							la.paramCalled[fn] = true
							continue
						}
						if async {
							continue // runs in a new goroutine: neither synchronous here nor internal
						}
					}
					if _, dup := la.syncLit[fn]; !dup {
						la.syncLit[fn] = ci
					} else {
						delete(la.syncLit, fn)
					}
				}
			}
		})
	}
	// an iterator literal that leaves its constructor only as the constructor's result, every call of which is
	// consumed on the spot (called or ranged over), runs only at those calls
	for lit := range iterCalled {
		g := lit.Parent()
		onlyReturned := true
		instrsOf(g, func(in ssa.Instruction) {
			mc, ok := in.(*ssa.MakeClosure)
			if !ok || mc.Fn != ssa.Value(lit) || mc.Referrers() == nil {
				return
			}
			var check func(v ssa.Value)
			check = func(v ssa.Value) {
				for _, r := range *v.Referrers() {
					switch r := r.(type) {
					case *ssa.Return, *ssa.DebugRef:
					case *ssa.ChangeType:
						check(r)
					default:
						onlyReturned = false
					}
				}
			}
			check(mc)
		})
		sites, closed := p.staticCallSites(g)
		consumed := closed && onlyReturned
		for _, cs := range sites {
			v := cs.Value()
			if v == nil || v.Referrers() == nil {
				consumed = false
				continue
			}
			for _, r := range *v.Referrers() {
				if _, isDbg := r.(*ssa.DebugRef); isDbg {
					continue
				}
				if c2, ok := r.(ssa.CallInstruction); !ok || c2.Common().Value != v {
					consumed = false
				}
			}
		}
		if consumed {
			valueUse[lit] = false
		}
	}
	for _, f := range p.Funcs {
		if f.Parent() != nil {
			// literal: synchronous argument, immediately-invoked, or deferred/go'd directly
			if _, ok := la.syncLit[f]; ok {
				la.internal[f] = true
				continue
			}
			if la.paramCalled[f] {
				la.internal[f] = true
				continue
			}
			if len(la.sites[f]) > 0 && !valueUse[f] {
				la.internal[f] = true
			}
			continue
		}
		if isExportedName(f.Name()) && !la.unexportedTypeMethodOnlyStatic(f) {
			continue
		}
		if valueUse[f] || len(la.sites[f]) == 0 {
			continue
		}
		la.internal[f] = true
	}
}

// unexportedTypeMethodOnlyStatic: an exported-named method of an unexported type that is only ever called statically
// from the universe (never through an interface, never as a method value) — callers outside the package cannot name it.
func (la *lockAnalysis) unexportedTypeMethodOnlyStatic(f *ssa.Function) bool {
	recv := f.Signature.Recv()
	if recv == nil {
		return false
	}
	n := namedOf(recv.Type())
	if n == nil || isExportedName(n.Obj().Name()) {
		return false
	}
	node := la.p.CG().Nodes[f]
	if node == nil {
		return false
	}
	cnt := 0
	for _, e := range node.In {
		if !la.p.InUniverse(e.Caller.Func) {
			continue // CHA edges from library code that calls some interface's method of the same name (io.Closer in crypto/cipher …)
		}
		if e.Site == nil || e.Site.Common().StaticCallee() != f {
			return false
		}
		cnt++
	}
	return cnt > 0
}

// analyse computes the locksets of one function for its current entry lockset.
func (la *lockAnalysis) analyse(f *ssa.Function) *lockInfo {
	li := &lockInfo{before: map[ssa.Instruction]lockset{}, deferU: map[string]bool{}}
	if len(f.Blocks) == 0 {
		return li
	}
	in := map[*ssa.BasicBlock]lockset{}
	out := map[*ssa.BasicBlock]lockset{}
	have := map[*ssa.BasicBlock]bool{}
	entry := la.entry[f]
	if entry == nil {
		entry = lockset{}
	}
	in[f.Blocks[0]] = entry.clone()
	have[f.Blocks[0]] = true
	instrsOf(f, func(i ssa.Instruction) {
		if d, ok := i.(*ssa.Defer); ok {
			if op, ok := lockOpOf(&d.Call); ok && (op.kind == "Unlock" || op.kind == "RUnlock") {
				li.deferU[op.id] = true
			}
		}
	})
	transfer := func(b *ssa.BasicBlock, ls lockset, record bool) lockset {
		ls = ls.clone()
		for _, i := range b.Instrs {
			if record {
				li.before[i] = ls.clone()
			}
			if c, ok := i.(*ssa.Call); ok {
				if op, ok := lockOpOf(&c.Call); ok {
					switch op.kind {
					case "Lock":
						ls[op.id] = 2
					case "RLock":
						ls[op.id] = 1
					case "Unlock", "RUnlock":
						delete(ls, op.id)
					}
				}
			}
		}
		return ls
	}
	for iter := 0; iter < 100; iter++ {
		changed := false
		for _, b := range f.Blocks {
			if b != f.Blocks[0] {
				var m lockset
				got := false
				for _, pr := range b.Preds {
					if !have[pr] || la.prunedE[[2]*ssa.BasicBlock{pr, b}] {
						continue
					}
					if !got {
						m, got = out[pr].clone(), true
					} else {
						m = meetLocks(m, out[pr])
					}
				}
				if !got {
					if b == f.Recover {
						m, got = lockset{}, true
					} else {
						continue
					}
				}
				if !have[b] || !sameLocks(in[b], m) {
					in[b] = m
					have[b] = true
					changed = true
				}
			}
			o := transfer(b, in[b], false)
			if _, ok := out[b]; !ok || !sameLocks(out[b], o) {
				out[b] = o
				changed = true
			}
		}
		if !changed {
			break
		}
	}
	for _, b := range f.Blocks {
		if have[b] {
			transfer(b, in[b], true)
		} else {
			for _, i := range b.Instrs {
				li.before[i] = lockset{}
			}
		}
	}
	// may-hold analysis of the locks this function acquires itself (union at joins): a lock that can still be held
	// at a return, and whose unlock is not deferred, is leaked on that path
	{
		type acq map[string]ssa.Instruction
		mIn := map[*ssa.BasicBlock]acq{f.Blocks[0]: {}}
		mOut := map[*ssa.BasicBlock]acq{}
		step := func(b *ssa.BasicBlock, s acq, atRet func(*ssa.Return, acq)) acq {
			o := acq{}
			for k, v := range s {
				o[k] = v
			}
			for _, i := range b.Instrs {
				if c, ok := i.(*ssa.Call); ok {
					if op, ok := lockOpOf(&c.Call); ok {
						switch op.kind {
						case "Lock", "RLock":
							o[op.id] = i
						case "Unlock", "RUnlock":
							delete(o, op.id)
						}
					}
				}
				if r, ok := i.(*ssa.Return); ok && atRet != nil {
					atRet(r, o)
				}
			}
			return o
		}
		for iter := 0; iter < 100; iter++ {
			changed := false
			for _, b := range f.Blocks {
				if !have[b] {
					continue
				}
				m := acq{}
				for k, v := range mIn[b] {
					m[k] = v
				}
				for _, pr := range b.Preds {
					if !have[pr] || la.prunedE[[2]*ssa.BasicBlock{pr, b}] {
						continue
					}
					for k, v := range mOut[pr] {
						if _, ok := m[k]; !ok {
							m[k] = v
						}
					}
				}
				if len(m) != len(mIn[b]) {
					mIn[b] = m
					changed = true
				}
				o := step(b, m, nil)
				if len(o) != len(mOut[b]) || mOut[b] == nil {
					mOut[b] = o
					changed = true
				}
			}
			if !changed {
				break
			}
		}
		instrsOf(f, func(i ssa.Instruction) {
			if c, ok := i.(*ssa.Call); ok {
				if op, ok := lockOpOf(&c.Call); ok && (op.kind == "Lock" || op.kind == "RLock") {
					li.nAcq++
				}
			}
		})
		li.leaks = nil
		for _, b := range f.Blocks {
			if !have[b] || b == f.Recover {
				continue
			}
			step(b, mIn[b], func(r *ssa.Return, held acq) {
				for k, at := range held {
					if !li.deferU[k] {
						li.leaks = append(li.leaks, lockLeak{r, k, at})
					}
				}
			})
		}
	}
	return li
}

// findInfeasible marks the !ok successors of comma-ok type assertions on values taken from typed containers
// (list.List elements, sync.Pool, sync.Map) when every insertion into that container in the program inserts the
// asserted type.
func (la *lockAnalysis) findInfeasible() {
	p := la.p
	// insertion types per container field
	ins := map[string]map[string]bool{} // container field key → set of inserted static types
	note := func(container ssa.Value, t types.Type) {
		k := containerKey(p, container)
		if k == "" {
			return
		}
		if ins[k] == nil {
			ins[k] = map[string]bool{}
		}
		ins[k][types.TypeString(t, nil)] = true
	}
	for _, f := range p.Funcs {
		instrsOf(f, func(in ssa.Instruction) {
			c, ok := in.(*ssa.Call)
			if !ok {
				return
			}
			name := calleeName(&c.Call)
			switch name {
			case "(*container/list.List).PushBack", "(*container/list.List).PushFront", "(*sync.Pool).Put":
				note(c.Call.Args[0], ifaceDynType(c.Call.Args[1]))
			case "(*sync.Map).Store":
				note(c.Call.Args[0], ifaceDynType(c.Call.Args[2]))
			case "(*sync.Map).LoadOrStore":
				note(c.Call.Args[0], ifaceDynType(c.Call.Args[2]))
			}
		})
	}
	for _, f := range p.Funcs {
		for _, b := range f.Blocks {
			cond := ifCond(b)
			ex, ok := cond.(*ssa.Extract)
			if !ok || ex.Index != 1 {
				continue
			}
			ta, ok := ex.Tuple.(*ssa.TypeAssert)
			if !ok || !ta.CommaOk {
				continue
			}
			cont := containerOfValue(p, ta.X)
			if cont == nil {
				continue
			}
			k := containerKey(p, cont)
			set := ins[k]
			want := types.TypeString(ta.AssertedType, nil)
			// pools: the New function's result type counts as an insertion
			if isPoolGet(p, ta.X) {
				for _, t := range poolNewTypes(p, cont) {
					if set == nil {
						set = map[string]bool{}
					}
					set[t] = true
				}
			}
			if len(set) == 0 {
				continue
			}
			all := true
			for t := range set {
				if t != want {
					all = false
				}
			}
			if all {
				la.prunedE[[2]*ssa.BasicBlock{b, b.Succs[1]}] = true
				la.pruned = append(la.pruned, fmt.Sprintf("%s: !ok branch of .(%s) at %s is infeasible: every insertion into %s inserts that type", funcKey(f), want, p.instrPos(ta), k))
			}
		}
	}
	sort.Strings(la.pruned)
}

func ifaceDynType(v ssa.Value) types.Type {
	if mi, ok := v.(*ssa.MakeInterface); ok {
		return mi.X.Type()
	}
	return v.Type()
}

// containerKey names a container by the struct field (or global) it lives in.
func containerKey(p *Prog, v ssa.Value) string {
	v0 := v
	for i := 0; i < 5; i++ {
		switch x := v0.(type) {
		case *ssa.FieldAddr:
			return fieldKeyAddr(x)
		case *ssa.Global:
			return "global:" + x.Name()
		case *ssa.UnOp:
			if x.Op == token.MUL {
				v0 = x.X
				continue
			}
		}
		break
	}
	return ""
}

// containerOfValue: v is the interface value taken out of a container; returns the container address/value.
func containerOfValue(p *Prog, v ssa.Value) ssa.Value {
	switch x := v.(type) {
	case *ssa.Call:
		name := calleeName(&x.Call)
		switch name {
		case "(*sync.Pool).Get", "(*container/list.List).Remove":
			return x.Call.Args[0]
		}
	case *ssa.Extract:
		if c, ok := x.Tuple.(*ssa.Call); ok {
			switch calleeName(&c.Call) {
			case "(*sync.Map).Load", "(*sync.Map).LoadAndDelete", "(*sync.Map).LoadOrStore":
				return c.Call.Args[0]
			}
		}
	case *ssa.UnOp:
		// elem.Value of a list element obtained from Front()/Back()
		if fa, ok := x.X.(*ssa.FieldAddr); ok && fieldKeyAddr(fa) == "container/list.Element.Value" {
			if c, ok := fa.X.(*ssa.Call); ok {
				switch calleeName(&c.Call) {
				case "(*container/list.List).Front", "(*container/list.List).Back":
					return c.Call.Args[0]
				}
			}
		}
	case *ssa.Parameter:
		// value parameter of a sync.Map.Range callback
		fn := x.Parent()
		if mc := makeClosureOf(fn); mc != nil && mc.Referrers() != nil {
			for _, r := range *mc.Referrers() {
				if c, ok := r.(*ssa.Call); ok && calleeName(&c.Call) == "(*sync.Map).Range" && len(fn.Params) == 2 && fn.Params[1] == x {
					return c.Call.Args[0]
				}
			}
		}
	}
	return nil
}

func isPoolGet(p *Prog, v ssa.Value) bool {
	c, ok := v.(*ssa.Call)
	return ok && calleeName(&c.Call) == "(*sync.Pool).Get"
}

// poolNewTypes returns the dynamic types returned by the New functions of the pool stored in the field.
func poolNewTypes(p *Prog, poolAddr ssa.Value) []string {
	var out []string
	var fv *types.Var
	if u, ok := poolAddr.(*ssa.UnOp); ok {
		if fa, ok := u.X.(*ssa.FieldAddr); ok {
			fv = fieldOfAddr(fa)
		}
	}
	if fv == nil {
		return nil
	}
	for _, st := range p.storesToField(fv) {
		al, ok := p.origin(st.Val).(*ssa.Alloc)
		if !ok {
			continue
		}
		for _, s2 := range p.storesInto(al) {
			var nf *ssa.Function
			switch x := s2.Val.(type) {
			case *ssa.Function:
				nf = x
			case *ssa.MakeClosure:
				nf = x.Fn.(*ssa.Function)
			}
			if nf == nil {
				continue
			}
			for _, b := range nf.Blocks {
				if ret, ok := b.Instrs[len(b.Instrs)-1].(*ssa.Return); ok && len(ret.Results) == 1 {
					out = append(out, types.TypeString(ifaceDynType(ret.Results[0]), nil))
				}
			}
		}
	}
	return out
}

// isLoadOf: v is `*cell`.
func isLoadOf(v, cell ssa.Value) bool {
	u, ok := v.(*ssa.UnOp)
	return ok && u.Op == token.MUL && u.X == cell
}
