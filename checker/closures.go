package main

import (
	"go/token"
	"go/types"
	"sort"

	"golang.org/x/tools/go/ssa"
)

type ClosureKind string

const (
	RTPWriter  ClosureKind = "RTPWriter"
	RTPReader  ClosureKind = "RTPReader"
	RTCPWriter ClosureKind = "RTCPWriter"
	RTCPReader ClosureKind = "RTCPReader"
)

func (k ClosureKind) isWriter() bool { return k == RTPWriter || k == RTCPWriter }

// PktClosure is a per-packet closure: a function literal converted to one of interceptor.{RTP,RTCP}{Writer,Reader}Func.
type PktClosure struct {
	Fn   *ssa.Function
	Kind ClosureKind
	// Next is the enclosing function's parameter of the matching interface type captured by the closure
	// (the downstream writer / upstream reader), nil if none is captured.
	Next *ssa.Parameter
	Conv *ssa.ChangeType
	// Pkt overrides the packet parameters (used when a helper function is analysed as if it were the closure).
	Pkt   []*ssa.Parameter
	depth int
	// Method form: the per-packet function is a method value (r.read) of a small object built in the Bind method; the
	// downstream is the field of that object that was initialised from the Bind parameter.
	NextRecv  *ssa.Parameter // the method's receiver
	NextField *types.Var     // field holding the downstream
	NextSrc   *ssa.Parameter // the Bind parameter stored in NextField at construction
	Wrapper   *ssa.Function  // the synthetic bound-method wrapper that is converted
	Owner     *ssa.Function  // function that creates the closure / object (the Bind method or a helper of it)
	Method    bool           // method form: parameter 0 of Fn is the receiver
	Obj       *ssa.MakeInterface // object form: the value returned as the chain interface
}

// hasNext: the closure has a downstream (captured parameter or field of its object).
func (c *PktClosure) hasNext() bool { return c.Next != nil || c.NextField != nil }

// nextSource is the parameter of the enclosing Bind method that the closure wraps.
func (c *PktClosure) nextSource() *ssa.Parameter {
	if c.Next != nil {
		return c.Next
	}
	return c.NextSrc
}

// ownerFn is the function that creates the closure (the Bind method or a helper of it).
func (c *PktClosure) ownerFn() *ssa.Function {
	if c.Method && c.Owner != nil {
		return c.Owner
	}
	return c.Fn
}

var funcTypeKinds = map[string]ClosureKind{
	"RTPWriterFunc": RTPWriter, "RTPReaderFunc": RTPReader, "RTCPWriterFunc": RTCPWriter, "RTCPReaderFunc": RTCPReader,
}

var kindIface = map[ClosureKind]string{
	RTPWriter: "RTPWriter", RTPReader: "RTPReader", RTCPWriter: "RTCPWriter", RTCPReader: "RTCPReader",
}

// kindOfFuncType classifies a named func type of the root package.
func (p *Prog) kindOfFuncType(t types.Type) (ClosureKind, bool) {
	n, ok := types.Unalias(t).(*types.Named)
	if !ok || n.Obj().Pkg() != p.Root {
		return "", false
	}
	k, ok := funcTypeKinds[n.Obj().Name()]
	return k, ok
}

// PktClosures discovers all per-packet closures in the universe. Conversions of something that is not a function
// literal are returned in odd (the caller reports them as undecided).
func (p *Prog) PktClosures() (out []*PktClosure, odd []*ssa.ChangeType) {
	for _, f := range p.Funcs {
		instrsOf(f, func(in ssa.Instruction) {
			ct, ok := in.(*ssa.ChangeType)
			if !ok {
				return
			}
			k, ok := p.kindOfFuncType(ct.Type())
			if !ok {
				return
			}
			mc, ok := ct.X.(*ssa.MakeClosure)
			var fn *ssa.Function
			if ok {
				fn = mc.Fn.(*ssa.Function)
			} else if sf, ok2 := ct.X.(*ssa.Function); ok2 {
				fn = sf
			}
			if fn != nil && fn.Synthetic != "" && ok && len(mc.Bindings) == 1 {
				// a bound method value r.m: analyse the method, the downstream is a field of r
				if c := p.methodValueClosure(mc, fn, k, ct); c != nil {
					out = append(out, c)
					return
				}
			}
			if fn == nil || fn.Blocks == nil || fn.Synthetic != "" {
				odd = append(odd, ct)
				return
			}
			c := &PktClosure{Fn: fn, Kind: k, Conv: ct, Owner: ct.Parent()}
			c.Next = p.findNext(fn, k)
			out = append(out, c)
		})
	}
	// objects that implement a chain interface themselves: `return &loggingReader{next: reader, …}` where
	// (*loggingReader).Read exists — the per-packet function is that method, the downstream the field set from the
	// Bind parameter
	seenM := map[*ssa.Function]bool{}
	objMethods := map[*ssa.Function]bool{} // methods found through object construction (several sites may share one)
	for _, c := range out {
		seenM[c.Fn] = true
	}
	for _, f := range p.Funcs {
		instrsOf(f, func(in ssa.Instruction) {
			mi, ok := in.(*ssa.MakeInterface)
			if !ok {
				return
			}
			var kind ClosureKind
			for k, name := range kindIface {
				if n := p.rootNamed(name); n != nil && types.Identical(mi.Type(), n) {
					kind = k
				}
			}
			if kind == "" {
				return
			}
			al, ok := p.origin(mi.X).(*ssa.Alloc)
			if !ok || !al.Heap || al.Parent() != f {
				return
			}
			nt := namedOf(mi.X.Type())
			if nt == nil || nt.Obj().Pkg() == nil {
				return
			}
			if _, isStruct := nt.Underlying().(*types.Struct); !isStruct {
				return
			}
			want := "Write"
			if !kind.isWriter() {
				want = "Read"
			}
			method := p.MethodOf(nt, want)
			if method == nil || method.Blocks == nil || !p.InUniverse(method) {
				return
			}
			if seenM[method] && !objMethods[method] {
				return // already known as a converted literal / method value
			}
			c := &PktClosure{Fn: method, Kind: kind, NextRecv: method.Params[0], Owner: f, Method: true}
			switch kind {
			case RTPWriter:
				if len(method.Params) < 3 {
					return
				}
				c.Pkt = method.Params[1:3]
			default:
				if len(method.Params) < 2 {
					return
				}
				c.Pkt = method.Params[1:2]
			}
			iface := p.rootNamed(kindIface[kind])
			for _, st := range p.storesInto(al) {
				fa, ok := st.Addr.(*ssa.FieldAddr)
				if !ok || !types.Identical(st.Val.Type(), iface) {
					continue
				}
				par, ok := p.origin(st.Val).(*ssa.Parameter)
				if !ok {
					continue
				}
				fv := fieldOfAddr(fa)
				if !p.constructionOnlyField(fv) {
					continue
				}
				c.NextField, c.NextSrc = fv, par
			}
			if c.NextField == nil {
				return // not a wrapper of a Bind argument (a pacer, a mock …): other rules cover those
			}
			seenM[method] = true
			objMethods[method] = true
			c.Obj = mi
			out = append(out, c)
		})
	}
	sort.Slice(out, func(i, j int) bool { return funcKey(out[i].Fn) < funcKey(out[j].Fn) })
	return out, odd
}

// findNext finds the captured parameter of the matching interface type.
func (p *Prog) findNext(fn *ssa.Function, k ClosureKind) *ssa.Parameter {
	iface := p.rootNamed(kindIface[k])
	var found *ssa.Parameter
	for _, fv := range fn.FreeVars {
		t := fv.Type()
		if pt, ok := t.(*types.Pointer); ok {
			t = pt.Elem()
		}
		if !types.Identical(t, iface) {
			continue
		}
		r := resolveFreeVar(fv)
		var par *ssa.Parameter
		switch r := r.(type) {
		case *ssa.Parameter:
			par = r
		case *ssa.Alloc:
			// the cell that holds the spilled parameter
			sts := p.storesToCell(r)
			for _, st := range sts {
				if pp, ok := st.Val.(*ssa.Parameter); ok {
					par = pp
				}
			}
		}
		if par != nil && found == nil {
			found = par
		}
	}
	return found
}

// nextCell returns the alloc cell that holds param (if it was spilled), or nil.
func (p *Prog) paramCell(par *ssa.Parameter) *ssa.Alloc {
	if par.Referrers() == nil {
		return nil
	}
	for _, r := range *par.Referrers() {
		if st, ok := r.(*ssa.Store); ok && st.Val == par {
			if al, ok := st.Addr.(*ssa.Alloc); ok {
				return al
			}
		}
	}
	return nil
}

// isNextValue reports whether v denotes the closure's downstream (the captured parameter, unmodified).
// If the cell is reassigned anywhere (writer = wrap(writer)), the answer is false and callers treat calls through it
// as not-identity.
func (p *Prog) isNextValue(c *PktClosure, v ssa.Value) bool {
	// the downstream handed on under another (narrower) interface type
	for i := 0; i < 3; i++ {
		switch x := v.(type) {
		case *ssa.ChangeInterface:
			v = x.X
			continue
		case *ssa.MakeInterface:
			v = x.X
			continue
		}
		break
	}
	if c.NextField != nil {
		u, ok := p.origin(v).(*ssa.UnOp)
		if !ok || u.Op != token.MUL {
			return false
		}
		fa, ok := u.X.(*ssa.FieldAddr)
		return ok && fieldOfAddr(fa) == c.NextField && p.origin(fa.X) == ssa.Value(c.NextRecv)
	}
	if c.Next == nil {
		return false
	}
	return p.origin(v) == ssa.Value(c.Next)
}

// methodValueClosure models `XxxFunc(obj.method)`: wrapper is the synthetic bound-method wrapper, mc binds obj.
func (p *Prog) methodValueClosure(mc *ssa.MakeClosure, wrapper *ssa.Function, k ClosureKind, ct *ssa.ChangeType) *PktClosure {
	var method *ssa.Function
	instrsOf(wrapper, func(in ssa.Instruction) {
		if c, ok := in.(ssa.CallInstruction); ok {
			if sc := c.Common().StaticCallee(); sc != nil {
				method = sc
			}
		}
	})
	if method == nil || method.Blocks == nil || !p.InUniverse(method) || method.Signature.Recv() == nil || len(method.Params) == 0 {
		return nil
	}
	c := &PktClosure{Fn: method, Kind: k, Conv: ct, Wrapper: wrapper, NextRecv: method.Params[0], Owner: ct.Parent(), Method: true}
	switch k {
	case RTPWriter:
		if len(method.Params) < 3 {
			return nil
		}
		c.Pkt = method.Params[1:3]
	default:
		if len(method.Params) < 2 {
			return nil
		}
		c.Pkt = method.Params[1:2]
	}
	// the receiver object is built in the function that converts: find the field initialised with the downstream
	iface := p.rootNamed(kindIface[k])
	al, ok := p.origin(mc.Bindings[0]).(*ssa.Alloc)
	if !ok {
		return c // no downstream found: the rules report it
	}
	for _, st := range p.storesInto(al) {
		fa, ok := st.Addr.(*ssa.FieldAddr)
		if !ok || !types.Identical(st.Val.Type(), iface) {
			continue
		}
		par, ok := p.origin(st.Val).(*ssa.Parameter)
		if !ok {
			continue
		}
		fv := fieldOfAddr(fa)
		// the field is only written at construction
		if !p.constructionOnlyField(fv) {
			continue
		}
		c.NextField, c.NextSrc = fv, par
	}
	return c
}

// InterceptorTypes returns every named type of the universe whose pointer method set implements interceptor.Interceptor.
func (p *Prog) InterceptorTypes() []*types.Named {
	iface := p.rootIface("Interceptor")
	var out []*types.Named
	for sp := range p.Universe {
		for _, m := range sp.Members {
			tn, ok := m.(*ssa.Type)
			if !ok {
				continue
			}
			n, ok := tn.Type().(*types.Named)
			if !ok {
				continue
			}
			if _, isIface := n.Underlying().(*types.Interface); isIface {
				continue
			}
			if types.Implements(types.NewPointer(n), iface) {
				out = append(out, n)
			}
		}
	}
	sort.Slice(out, func(i, j int) bool { return typeKey(out[i]) < typeKey(out[j]) })
	return out
}

var bindMethods = []string{"BindRTCPReader", "BindRTCPWriter", "BindLocalStream", "BindRemoteStream"}
var lifecycleMethods = []string{"BindRTCPReader", "BindRTCPWriter", "BindLocalStream", "BindRemoteStream", "UnbindLocalStream", "UnbindRemoteStream", "Close"}

// DeclaredMethod returns the SSA function of a method declared (not promoted) on *T or T, or nil.
func (p *Prog) DeclaredMethod(n *types.Named, name string) *ssa.Function {
	for i := 0; i < n.NumMethods(); i++ {
		m := n.Method(i)
		if m.Name() == name {
			return p.SSA.FuncValue(m)
		}
	}
	return nil
}

// MethodOf returns the function that *T's method set resolves name to (possibly promoted from an embedded type:
// then the declared function of the embedded type is returned).
func (p *Prog) MethodOf(n *types.Named, name string) *ssa.Function {
	ms := p.SSA.MethodSets.MethodSet(types.NewPointer(n))
	for i := 0; i < ms.Len(); i++ {
		sel := ms.At(i)
		if sel.Obj().Name() == name {
			return p.SSA.FuncValue(sel.Obj().(*types.Func))
		}
	}
	return nil
}

// closureKey is the obligation key of a per-packet function: the literal's own key, or for the method/object form
// "<function that builds the object>→<method>", so that selectors and known findings that name the interceptor keep
// matching when a closure is turned into a small type.
func closureKey(c *PktClosure) string {
	if c.Method && c.Owner != nil {
		return funcKey(c.Owner) + "→" + funcKey(c.Fn)
	}
	return funcKey(c.Fn)
}

// constructionOnlyField: every store to the field goes into an object allocated in the storing function (a composite
// literal or a constructor filling a fresh object): the field never changes after the object is built.
func (p *Prog) constructionOnlyField(fv *types.Var) bool {
	sts := p.storesToField(fv)
	if len(sts) == 0 {
		return false
	}
	for _, st := range sts {
		al, ok := p.origin(addrRoot(st.Addr)).(*ssa.Alloc)
		if !ok || al.Parent() != st.Parent() {
			return false
		}
	}
	return true
}
