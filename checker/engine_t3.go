package main

// T3 — a buffer taken from a sync.Pool is given back at most once. Putting the same object twice makes the pool hand
// it to two users at once (two encoders sharing one scratch buffer). For every value obtained from (*sync.Pool).Get in
// a function, the Put calls on that value — direct ones and deferred ones, which run once at exit if their defer
// statement was executed — number at most one on every path to a return.

import (
	"fmt"
	"sort"
	"strings"

	"golang.org/x/tools/go/ssa"
)

func init() {
	registerEngine("T3", []string{"T3"}, runEngineT3)
}

func runEngineT3(p *Prog, o *obls) {
	t3PutOnce(p, o)
	for _, fn := range p.Funcs {
		var gets []*ssa.Call
		instrsOf(fn, func(in ssa.Instruction) {
			if c, ok := in.(*ssa.Call); ok && isCallTo(&c.Call, "(*sync.Pool).Get") {
				gets = append(gets, c)
			}
		})
		for gi, get := range gets {
			fromGet := func(v ssa.Value) bool {
				return p.backwardReaches(v, func(x ssa.Value) bool { return x == ssa.Value(get) })
			}
			isPut := func(in ssa.Instruction) bool {
				ci, ok := in.(ssa.CallInstruction)
				if !ok {
					return false
				}
				if _, isGo := ci.(*ssa.Go); isGo {
					return false
				}
				cc := ci.Common()
				return isCallTo(cc, "(*sync.Pool).Put") && len(cc.Args) == 2 && fromGet(cc.Args[1])
			}
			n := 0
			instrsOf(fn, func(in ssa.Instruction) {
				if isPut(in) {
					n++
				}
			})
			if n == 0 {
				continue // handed on (stored, returned): not this rule's concern
			}
			key := fmt.Sprintf("%s:pool-get", funcKey(fn))
			if gi > 0 {
				key = fmt.Sprintf("%s#%d", key, gi+1)
			}
			before, _ := pathCounts(fn, isPut)
			var bad []string
			for _, b := range fn.Blocks {
				ret, ok := b.Instrs[len(b.Instrs)-1].(*ssa.Return)
				if !ok || b == fn.Recover {
					continue
				}
				if before[ret]&4 != 0 {
					bad = append(bad, fmt.Sprintf("the return at %s can be reached after two Put calls (direct or deferred) on the buffer taken from the pool at %s", p.instrPos(ret), p.instrPos(get)))
				}
			}
			if len(bad) > 0 {
				o.bad("T3", key, p.instrPos(get), strings.Join(dedupe(bad), "; ")+": the pool then hands the same buffer to two users")
			} else {
				o.ok("T3", key, p.instrPos(get), fmt.Sprintf("%d Put site(s), at most one executed on every path", n))
			}
		}
	}
}

// T3 (taken elsewhere) — the buffer of a dequeued item goes back once. Where the Get is in another function (the
// accepting side) the consumer gives the buffer back per item: two Put sites for the same pure expression — direct
// calls, or calls of a repository helper that puts (on some path) the object its parameter denotes — of which one can
// be reached from the other without the expression's root (the dequeued item) being computed anew in between put the
// buffer twice on that path, unless the later one is decided by the earlier call's result.
func t3PutOnce(p *Prog, o *obls) {
	helperPut := map[*ssa.Function][2]interface{}{}
	for _, fn := range p.Funcs {
		if fn.Blocks == nil || !p.InUniverse(fn) {
			continue
		}
		hasGet := false
		type site struct {
			in     ssa.Instruction
			key    string
			helper bool
		}
		var sites []site
		instrsOf(fn, func(in ssa.Instruction) {
			ci, ok := in.(ssa.CallInstruction)
			if !ok {
				return
			}
			if _, isGo := ci.(*ssa.Go); isGo {
				return
			}
			if _, isDefer := ci.(*ssa.Defer); isDefer {
				return
			}
			cc := ci.Common()
			if isCallTo(cc, "(*sync.Pool).Get") {
				hasGet = true
			}
			if isCallTo(cc, "(*sync.Pool).Put") && len(cc.Args) == 2 {
				sites = append(sites, site{in, p.pureKey(stripIface(cc.Args[1])), false})
				return
			}
			sc := cc.StaticCallee()
			if sc == nil || !p.InUniverse(sc) || sc == fn {
				return
			}
			hp, seen := helperPut[sc]
			if !seen {
				i, k := putParamOf(p, sc)
				hp = [2]interface{}{i, k}
				helperPut[sc] = hp
			}
			i, k := hp[0].(int), hp[1].(string)
			if i < 0 || i >= len(cc.Args) {
				return
			}
			sites = append(sites, site{in, strings.ReplaceAll(k, p.pureKey(sc.Params[i]), p.pureKey(cc.Args[i])), true})
		})
		if hasGet || len(sites) < 2 {
			continue // the same-function form is judged per Get above
		}
		// the instruction that computes the root of a key anew: the value whose key the put key starts from
		rootDef := func(key string) ssa.Instruction {
			var best ssa.Instruction
			bestLen := 0
			instrsOf(fn, func(in ssa.Instruction) {
				v, ok := in.(ssa.Value)
				if !ok {
					return
				}
				switch in.(type) {
				case *ssa.Extract, *ssa.TypeAssert, *ssa.Call, *ssa.Phi, *ssa.UnOp, *ssa.Next, *ssa.Lookup:
				default:
					return
				}
				k := p.pureKey(v)
				if k != "" && k != key && strings.Contains(key, k) && len(k) > bestLen {
					best, bestLen = in, len(k)
				}
			})
			return best
		}
		var bad []string
		n := 0
		var pdom map[*ssa.BasicBlock]map[*ssa.BasicBlock]bool
		for i, a := range sites {
			for j, b := range sites {
				if i == j || a.key != b.key {
					continue
				}
				n++
				def := rootDef(a.key)
				if def == nil || !canReachAvoiding(a.in, b.in, def) {
					continue
				}
				// decided by the earlier call's result?
				if av, ok := a.in.(ssa.Value); ok {
					if pdom == nil {
						pdom = postDominators(fn)
					}
					decided := false
					for cb := range transitiveControlDeps(fn, pdom, b.in.Block()) {
						c := ifCond(cb)
						if c == nil {
							continue
						}
						// the test lies between the two on a path that takes no new item
						br := cb.Instrs[len(cb.Instrs)-1]
						if !canReachAvoiding(a.in, br, def) || !canReachAvoiding(br, b.in, def) {
							continue
						}
						if p.backwardReaches(c, func(x ssa.Value) bool { return x == av }) {
							decided = true
						}
					}
					if decided {
						continue
					}
				}
				bad = append(bad, fmt.Sprintf("the buffer given back at %s can be given back again at %s on the same path (no new item is taken in between)", p.instrPos(a.in), p.instrPos(b.in)))
			}
		}
		if n == 0 {
			continue
		}
		key := funcKey(fn) + ":put-once"
		if len(bad) > 0 {
			sort.Strings(bad)
			o.bad("T3", key, strings.Fields(strings.SplitN(bad[0], " given back at ", 2)[1])[0], strings.Join(dedupe(bad), "; ")+": the pool then hands the same buffer to two users, and the second copy overwrites a queued packet's payload")
		} else {
			o.ok("T3", key, p.Pos(fn.Pos()), fmt.Sprintf("%d pair(s) of Put sites for the same buffer, never both on one path", n/2))
		}
	}
}

