package main

// T3 — a buffer taken from a sync.Pool is given back at most once. Putting the same object twice makes the pool hand
// it to two users at once (two encoders sharing one scratch buffer). For every value obtained from (*sync.Pool).Get in
// a function, the Put calls on that value — direct ones and deferred ones, which run once at exit if their defer
// statement was executed — number at most one on every path to a return.

import (
	"fmt"
	"strings"

	"golang.org/x/tools/go/ssa"
)

func init() {
	registerEngine("T3", []string{"T3"}, runEngineT3)
}

func runEngineT3(p *Prog, o *obls) {
	for _, fn := range p.Funcs {
		var gets []*ssa.Call
		instrsOf(fn, func(in ssa.Instruction) {
			if c, ok := in.(*ssa.Call); ok && isCallTo(&c.Call, "(*sync.Pool).Get") {
				gets = append(gets, c)
			}
		})
		for gi, get := range gets {
			fromGet := func(v ssa.Value) bool {
				return p.backwardReaches(v, func(x ssa.Value) bool { return x == ssa.Value(get) })
			}
			isPut := func(in ssa.Instruction) bool {
				ci, ok := in.(ssa.CallInstruction)
				if !ok {
					return false
				}
				if _, isGo := ci.(*ssa.Go); isGo {
					return false
				}
				cc := ci.Common()
				return isCallTo(cc, "(*sync.Pool).Put") && len(cc.Args) == 2 && fromGet(cc.Args[1])
			}
			n := 0
			instrsOf(fn, func(in ssa.Instruction) {
				if isPut(in) {
					n++
				}
			})
			if n == 0 {
				continue // handed on (stored, returned): not this rule's concern
			}
			key := fmt.Sprintf("%s:pool-get", funcKey(fn))
			if gi > 0 {
				key = fmt.Sprintf("%s#%d", key, gi+1)
			}
			before, _ := pathCounts(fn, isPut)
			var bad []string
			for _, b := range fn.Blocks {
				ret, ok := b.Instrs[len(b.Instrs)-1].(*ssa.Return)
				if !ok || b == fn.Recover {
					continue
				}
				if before[ret]&4 != 0 {
					bad = append(bad, fmt.Sprintf("the return at %s can be reached after two Put calls (direct or deferred) on the buffer taken from the pool at %s", p.instrPos(ret), p.instrPos(get)))
				}
			}
			if len(bad) > 0 {
				o.bad("T3", key, p.instrPos(get), strings.Join(dedupe(bad), "; ")+": the pool then hands the same buffer to two users")
			} else {
				o.ok("T3", key, p.instrPos(get), fmt.Sprintf("%d Put site(s), at most one executed on every path", n))
			}
		}
	}
}
