package main

import (
	"fmt"
	"go/token"
	"go/types"
	"sort"
	"strings"

	"golang.org/x/tools/go/ssa"
)

// Engine E — growth/shrink pairing of long-lived containers (DESIGN.md §3 E): E1 every container that grows on a
// traffic path has a shrink on a traffic path (or is of a bounded kind); E2 shrink sites guarded by a field that is
// never set are dead.

func init() {
	registerEngine("E", []string{"E1", "E2", "E3"}, runEngineE)
}

// customContainers: hand-written linked structures (growth / shrink are methods).
type customContainer struct {
	key    string
	grow   []string
	shrink []string
}

var customContainers = []customContainer{
	{"pkg/jitterbuffer.PriorityQueue(list)", []string{"pkg/jitterbuffer.(*PriorityQueue).Push"},
		[]string{"pkg/jitterbuffer.(*PriorityQueue).Pop", "pkg/jitterbuffer.(*PriorityQueue).PopAt", "pkg/jitterbuffer.(*PriorityQueue).PopAtTimestamp", "pkg/jitterbuffer.(*PriorityQueue).Clear"}},
}

type cSite struct {
	fn   *ssa.Function
	at   ssa.Instruction
	kind string
}

type containerInfo struct {
	key     string
	typ     types.Type
	grow    []cSite
	shrink  []cSite
	replace []cSite
}

func isContainerType(t types.Type) bool {
	switch u := t.Underlying().(type) {
	case *types.Map, *types.Slice, *types.Chan:
		return true
	case *types.Pointer:
		return typeKey(u.Elem()) == "container/list.List"
	case *types.Struct:
		k := typeKey(t)
		return k == "sync.Map" || k == "container/list.List"
	}
	return false
}

// sameFieldLoad: v is (a slice of …) a load of the field with key fk.
func loadsField(p *Prog, v ssa.Value, fk string) bool {
	v = p.origin(v)
	for i := 0; i < 4; i++ {
		if sl, ok := v.(*ssa.Slice); ok {
			v = p.origin(sl.X)
			continue
		}
		break
	}
	if u, ok := v.(*ssa.UnOp); ok && u.Op == token.MUL {
		if fa, ok := u.X.(*ssa.FieldAddr); ok {
			return fieldKeyAddr(fa) == fk
		}
	}
	return false
}

func collectContainers(p *Prog) map[string]*containerInfo {
	cs := map[string]*containerInfo{}
	get := func(fk string, t types.Type) *containerInfo {
		c := cs[fk]
		if c == nil {
			c = &containerInfo{key: fk, typ: t}
			cs[fk] = c
		}
		return c
	}
	fieldOfContainer := func(v ssa.Value) (string, types.Type) {
		// v is the container value (map, *list.List) or its address (&x.syncMap)
		v0 := v
		for i := 0; i < 4; i++ {
			switch x := v0.(type) {
			case *ssa.FieldAddr:
				fv := fieldOfAddr(x)
				if fv != nil && isContainerType(fv.Type()) {
					return fieldKeyAddr(x), fv.Type()
				}
				return "", nil
			case *ssa.UnOp:
				if x.Op == token.MUL {
					v0 = x.X
					continue
				}
			}
			break
		}
		return "", nil
	}
	for _, fn := range p.Funcs {
		instrsOf(fn, func(in ssa.Instruction) {
			switch x := in.(type) {
			case *ssa.MapUpdate:
				if fk, t := fieldOfContainer(x.Map); fk != "" {
					if _, isConst := x.Key.(*ssa.Const); !isConst {
						c := get(fk, t)
						c.grow = append(c.grow, cSite{fn, x, "map insert"})
					}
				}
			case *ssa.Store:
				fa, ok := x.Addr.(*ssa.FieldAddr)
				if !ok {
					// whole-struct assignment (group = newGroup(...)): every container field of the struct is replaced
					if st, isStruct := x.Val.Type().Underlying().(*types.Struct); isStruct && namedOf(x.Val.Type()) != nil {
						if _, isZeroInit := x.Val.(*ssa.Const); !isZeroInit || true {
							for i := 0; i < st.NumFields(); i++ {
								if isContainerType(st.Field(i).Type()) {
									c := get(typeKey(x.Val.Type())+"."+cFieldName(st.Field(i)), st.Field(i).Type())
									c.shrink = append(c.shrink, cSite{fn, x, "owner struct replaced as a whole"})
								}
							}
						}
					}
					return
				}
				fv := fieldOfAddr(fa)
				if fv == nil || !isContainerType(fv.Type()) {
					return
				}
				fk := fieldKeyAddr(fa)
				if !sharedBase(p, fn, fa.X) {
					return
				}
				c := get(fk, fv.Type())
				val := p.origin(x.Val)
				switch v := val.(type) {
				case *ssa.Call:
					if builtinName(&v.Call) == "append" {
						if loadsField(p, v.Call.Args[0], fk) {
							// append to itself: growth — unless the base is a shrinking re-slice (x = append(x[:0], …))
							c.grow = append(c.grow, cSite{fn, x, "append"})
							return
						}
					}
					c.replace = append(c.replace, cSite{fn, x, "assigned a computed value"})
				case *ssa.Slice:
					if loadsField(p, v.X, fk) {
						c.shrink = append(c.shrink, cSite{fn, x, "re-slice"})
						return
					}
					c.replace = append(c.replace, cSite{fn, x, "assigned another slice"})
				case *ssa.Const, *ssa.MakeMap, *ssa.MakeSlice, *ssa.Alloc:
					c.shrink = append(c.shrink, cSite{fn, x, "reset to nil / fresh value"})
				default:
					c.replace = append(c.replace, cSite{fn, x, "assigned"})
				}
			case *ssa.Call:
				name := calleeName(&x.Call)
				switch name {
				case "builtin delete", "builtin clear":
					if fk, t := fieldOfContainer(x.Call.Args[0]); fk != "" {
						c := get(fk, t)
						c.shrink = append(c.shrink, cSite{fn, x, strings.TrimPrefix(name, "builtin ")})
					}
				case "(*sync.Map).Store", "(*sync.Map).LoadOrStore", "(*sync.Map).Swap":
					if fk, t := fieldOfContainer(x.Call.Args[0]); fk != "" {
						c := get(fk, t)
						c.grow = append(c.grow, cSite{fn, x, "sync.Map store"})
					}
				case "(*sync.Map).Delete", "(*sync.Map).LoadAndDelete", "(*sync.Map).Clear":
					if fk, t := fieldOfContainer(x.Call.Args[0]); fk != "" {
						c := get(fk, t)
						c.shrink = append(c.shrink, cSite{fn, x, "sync.Map delete"})
					}
				case "(*container/list.List).PushBack", "(*container/list.List).PushFront", "(*container/list.List).InsertBefore", "(*container/list.List).InsertAfter":
					if fk, t := fieldOfContainer(x.Call.Args[0]); fk != "" {
						c := get(fk, t)
						c.grow = append(c.grow, cSite{fn, x, "list insert"})
					}
				case "(*container/list.List).Remove", "(*container/list.List).Init":
					if fk, t := fieldOfContainer(x.Call.Args[0]); fk != "" {
						c := get(fk, t)
						c.shrink = append(c.shrink, cSite{fn, x, "list remove"})
					}
				}
			case *ssa.Send:
				if fk, t := fieldOfContainer(x.Chan); fk != "" {
					c := get(fk, t)
					c.grow = append(c.grow, cSite{fn, x, "channel send"})
				}
			case *ssa.Select:
				for _, st := range x.States {
					if fk, t := fieldOfContainer(st.Chan); fk != "" {
						c := get(fk, t)
						if st.Dir == types.SendOnly {
							c.grow = append(c.grow, cSite{fn, x, "channel send"})
						} else {
							c.shrink = append(c.shrink, cSite{fn, x, "channel receive"})
						}
					}
				}
			case *ssa.UnOp:
				if x.Op == token.ARROW {
					if fk, t := fieldOfContainer(x.X); fk != "" {
						c := get(fk, t)
						c.shrink = append(c.shrink, cSite{fn, x, "channel receive"})
					}
				}
			}
		})
	}
	return cs
}

// trafficFuncs: functions that run per packet, per tick or per feedback: reachable from the per-packet closures and
// from goroutine entries (but not merely from Bind*/Unbind*/Close/constructors).
func trafficFuncs(p *Prog) map[*ssa.Function]bool {
	var roots []*ssa.Function
	cl, _ := p.PktClosures()
	for _, c := range cl {
		roots = append(roots, c.Fn)
	}
	for _, fn := range p.Funcs {
		instrsOf(fn, func(in ssa.Instruction) {
			if g, ok := in.(*ssa.Go); ok {
				roots = append(roots, p.Callees(g)...)
			}
		})
		// pacer / estimator entry points called per packet by users of the library
		if fn.Parent() == nil && fn.Signature.Recv() != nil && isExportedName(fn.Name()) {
			switch fn.Name() {
			case "Write", "WriteRTCP", "Read", "Push", "OnSent", "OnTransportCCFeedback", "OnRFC8888Feedback", "AddPacket", "Record":
				roots = append(roots, fn)
			}
		}
	}
	return reachableFuncs(p, roots, true)
}

// keyDomainBounded: a map whose key type has at most 2^16 values.
func keyDomainBounded(t types.Type) bool {
	m, ok := t.Underlying().(*types.Map)
	if !ok {
		return false
	}
	b, ok := m.Key().Underlying().(*types.Basic)
	if !ok {
		return false
	}
	switch b.Kind() {
	case types.Uint8, types.Int8, types.Uint16, types.Int16, types.Bool:
		return true
	}
	return false
}

// deadGuardField: the shrink site is control dependent on a load of a struct field that is never assigned a non-zero
// value anywhere in the program (no store, no keyed composite literal element).
func deadGuardField(p *Prog, s cSite) string {
	fn := s.fn
	pdom := postDominators(fn)
	for c := range transitiveControlDeps(fn, pdom, s.at.Block()) {
		cond := ifCond(c)
		if cond == nil {
			continue
		}
		// the shrink must be on the true side of a plain boolean field (or the side where field != zero)
		var fa *ssa.FieldAddr
		v := cond
		if u, ok := v.(*ssa.UnOp); ok && u.Op == token.MUL {
			fa, _ = u.X.(*ssa.FieldAddr)
		}
		if fa == nil {
			continue
		}
		fv := fieldOfAddr(fa)
		if fv == nil {
			continue
		}
		// is the shrink on the true side?
		t := c.Succs[0]
		onTrue := t == s.at.Block() || t.Dominates(s.at.Block())
		if !onTrue {
			continue
		}
		if len(p.storesToField(fv)) == 0 {
			return fieldKeyAddr(fa)
		}
		allZero := true
		for _, st := range p.storesToField(fv) {
			if c, ok := st.Val.(*ssa.Const); !ok || (c.Value != nil && c.Value.String() != "false" && c.Value.String() != "0") {
				allZero = false
			}
		}
		if allZero {
			return fieldKeyAddr(fa)
		}
	}
	return ""
}

// longLivedTypes: struct types of the universe that some other universe struct holds in a field (directly, by pointer,
// in a slice/map/channel or behind an interface they implement), starting from the interceptor types. A type that no
// field refers to only lives in local variables: a per-call temporary.
func longLivedTypes(p *Prog) map[string]bool {
	held := map[string]bool{}
	var structs []*types.Named
	for sp := range p.Universe {
		for _, m := range sp.Members {
			if tn, ok := m.(*ssa.Type); ok {
				if n, ok := tn.Type().(*types.Named); ok {
					if _, ok := n.Underlying().(*types.Struct); ok {
						structs = append(structs, n)
					}
				}
			}
		}
	}
	var mark func(t types.Type, d int)
	mark = func(t types.Type, d int) {
		if d > 6 {
			return
		}
		switch u := types.Unalias(t).(type) {
		case *types.Named:
			if _, isStruct := u.Underlying().(*types.Struct); isStruct {
				held[typeKey(u)] = true
			}
			if it, ok := u.Underlying().(*types.Interface); ok && u.Obj().Pkg() != nil && strings.HasPrefix(u.Obj().Pkg().Path(), modPath) || ok && p.Fixture {
				for _, n := range structs {
					if types.Implements(n, it) || types.Implements(types.NewPointer(n), it) {
						held[typeKey(n)] = true
					}
				}
			}
		case *types.Pointer:
			mark(u.Elem(), d+1)
		case *types.Slice:
			mark(u.Elem(), d+1)
		case *types.Array:
			mark(u.Elem(), d+1)
		case *types.Map:
			mark(u.Elem(), d+1)
			mark(u.Key(), d+1)
		case *types.Chan:
			mark(u.Elem(), d+1)
		}
	}
	// fixpoint: a struct held only by per-call temporaries (the chunk builder inside the feedback under construction)
	// is a temporary itself
	temp := map[string]bool{}
	for iter := 0; iter < 8; iter++ {
		held = map[string]bool{}
		for _, n := range structs {
			if temp[typeKey(n)] {
				continue
			}
			st := n.Underlying().(*types.Struct)
			for i := 0; i < st.NumFields(); i++ {
				mark(st.Field(i).Type(), 0)
			}
		}
		for _, t := range p.InterceptorTypes() {
			held[typeKey(t)] = true
		}
		changed := false
		for _, n := range structs {
			// only unexported types propagate: an exported type (Registry) is held by the user for as long as they like
			if k := typeKey(n); !held[k] && !temp[k] && !isExportedName(n.Obj().Name()) {
				temp[k] = true
				changed = true
			}
		}
		if !changed {
			break
		}
	}
	return held
}

// registryKeyed: every grow site is a map update whose key is the range key of one and the same other map field of the
// owner, and that field does not grow on traffic paths. Returns the registry's field key, or "".
func registryKeyed(p *Prog, grows []cSite, cs map[string]*containerInfo, traffic map[*ssa.Function]bool, self string) string {
	reg := ""
	for _, g := range grows {
		mu, ok := g.at.(*ssa.MapUpdate)
		if !ok {
			return ""
		}
		ex, ok := p.origin(mu.Key).(*ssa.Extract)
		if !ok || ex.Index != 1 {
			return ""
		}
		nx, ok := ex.Tuple.(*ssa.Next)
		if !ok {
			return ""
		}
		rg, ok := nx.Iter.(*ssa.Range)
		if !ok {
			return ""
		}
		u, ok := p.origin(rg.X).(*ssa.UnOp)
		if !ok || u.Op != token.MUL {
			return ""
		}
		fa, ok := u.X.(*ssa.FieldAddr)
		if !ok {
			return ""
		}
		rk := fieldKeyAddr(fa)
		if rk == self || ownerOfFieldKey(rk) != ownerOfFieldKey(self) || cs[rk] == nil {
			return ""
		}
		for _, rgw := range cs[rk].grow {
			if traffic[rgw.fn] {
				return ""
			}
		}
		if reg != "" && reg != rk {
			return ""
		}
		reg = rk
	}
	return reg
}

func runEngineE(p *Prog, o *obls) {
	cs := collectContainers(p)
	traffic := trafficFuncs(p)
	longLived := longLivedTypes(p)
	for _, fk := range sortedKeys(cs) {
		c := cs[fk]
		owner := ownerOfFieldKey(fk)
		if !strings.Contains(owner, "/") && !strings.HasPrefix(owner, "interceptor.") || strings.HasPrefix(owner, "github.com/") {
			continue // container inside a third-party value
		}
		if !longLived[owner] && len(c.grow) > 0 {
			o.trivial("E1", fk, p.instrPos(c.grow[0].at), "owner type "+owner+" is never held in a field: a per-call temporary, collected with its owner")
			continue
		}
		var tg []cSite
		for _, g := range c.grow {
			if traffic[g.fn] {
				tg = append(tg, g)
			}
		}
		if len(tg) == 0 {
			if len(c.grow) == 0 {
				continue // fixed / replace-only: never grows
			}
			o.trivial("E1", fk, p.instrPos(c.grow[0].at), "grows only at bind/setup time (pairing with unbind is rule D5)")
			continue
		}
		pos := p.instrPos(tg[0].at)
		// bounded kinds
		if ch, ok := c.typ.Underlying().(*types.Chan); ok {
			_ = ch
			if cap := chanCapacity(p, fk); cap != "" {
				o.ok("E1", fk, pos, "bounded channel ("+cap+")")
			} else {
				o.bad("E1", fk, pos, "channel written on a traffic path whose capacity could not be determined")
			}
			continue
		}
		var live []cSite
		var dead []string
		for _, s := range c.shrink {
			if !traffic[s.fn] {
				continue
			}
			if df := deadGuardField(p, s); df != "" {
				dead = append(dead, fmt.Sprintf("%s at %s is only executed when %s is set, and nothing ever sets it", s.kind, p.instrPos(s.at), df))
				continue
			}
			live = append(live, s)
		}
		for _, d := range dead {
			o.bad("E2", fk, pos, "dead shrink: "+d)
		}
		if len(live) > 0 && len(dead) == 0 {
			o.ok("E2", fk, pos, fmt.Sprintf("%d shrink site(s) on traffic paths, none guarded by a never-set field", len(live)))
		}
		if len(live) > 0 {
			o.ok("E1", fk, pos, fmt.Sprintf("grows on a traffic path (%s in %s) and shrinks on one (%s in %s)", tg[0].kind, funcKey(tg[0].fn), live[0].kind, funcKey(live[0].fn)))
			continue
		}
		if keyDomainBounded(c.typ) {
			o.ok("E1", fk, pos, "grows on a traffic path without a live shrink, but its key type has at most 2^16 values (key-domain bounded)")
			continue
		}
		// capacity-guarded growth: every traffic-path append sits on the true branch of `len(c) < limit` (or `<=`) where the
		// limit is a constant or a field fixed at construction — the container fills up to the limit and is then re-used
		capGuarded := len(tg) > 0
		for _, g := range tg {
			st, isSt := g.at.(*ssa.Store)
			if !isSt || g.kind != "append" {
				capGuarded = false
				break
			}
			okG := false
			for _, f := range dominatingFactsInstr(st) {
				f = normFact(f)
				bo, ok := f.cond.(*ssa.BinOp)
				if !ok || !f.truth || (bo.Op != token.LSS && bo.Op != token.LEQ) {
					continue
				}
				lc, ok := p.origin(bo.X).(*ssa.Call)
				if !ok || builtinName(&lc.Call) != "len" || !loadsField(p, lc.Call.Args[0], fk) {
					continue
				}
				if _, isC := constInt(p.origin(bo.Y)); isC {
					okG = true
				}
				if u, ok := p.origin(bo.Y).(*ssa.UnOp); ok && u.Op == token.MUL {
					if fa, ok := u.X.(*ssa.FieldAddr); ok {
						if fv := fieldOfAddr(fa); fv != nil && p.constructionOnlyField(fv) {
							okG = true
						}
					}
				}
			}
			if !okG {
				capGuarded = false
			}
		}
		if capGuarded {
			o.ok("E1", fk, pos, "grows on a traffic path only while its length is below a limit fixed at construction (then slots are re-used)")
			continue
		}
		// per-stream side table: every traffic-path insert uses the key of an entry of a registry map of the same owner
		// (the loop ranges over it) that itself only grows at bind time, and the unbind that shrinks the registry shrinks
		// this table too — bounded by the number of bound streams
		if reg := registryKeyed(p, tg, cs, traffic, fk); reg != "" {
			sharedUnbind := false
			for _, s := range c.shrink {
				for _, rs := range cs[reg].shrink {
					if rs.fn == s.fn {
						sharedUnbind = true
					}
				}
			}
			if sharedUnbind {
				o.ok("E1", fk, pos, "grows on a traffic path only under keys of the registry "+reg+" (filled at bind time) and is shrunk where that registry is: bounded by the number of bound streams")
				continue
			}
		}
		w := fmt.Sprintf("grows on a traffic path (%s at %s in %s) but nothing removes entries on any traffic path", tg[0].kind, p.instrPos(tg[0].at), funcKey(tg[0].fn))
		if len(c.shrink) > 0 {
			w += fmt.Sprintf(" (only at %s in %s)", p.instrPos(c.shrink[0].at), funcKey(c.shrink[0].fn))
		} else {
			w += " (there is no removal anywhere)"
		}
		o.bad("E1", fk, pos, w+": memory grows with the number of packets")
	}
	// E3: an equality trigger on the length of a growing container must reset it on every path
	for _, fk := range sortedKeys(cs) {
		c := cs[fk]
		for _, g := range c.grow {
			if g.kind != "append" || !traffic[g.fn] {
				continue
			}
			fn := g.fn
			for _, b := range fn.Blocks {
				cond := ifCond(b)
				bo, ok := cond.(*ssa.BinOp)
				if !ok || (bo.Op != token.EQL && bo.Op != token.NEQ) {
					continue
				}
				eqSucc := b.Succs[0]
				if bo.Op == token.NEQ {
					eqSucc = b.Succs[1]
				}
				isLenC := func(v ssa.Value) bool {
					call, ok := p.origin(v).(*ssa.Call)
					return ok && builtinName(&call.Call) == "len" && loadsField(p, call.Call.Args[0], fk)
				}
				if !isLenC(bo.X) && !isLenC(bo.Y) {
					continue
				}
				// the other side is a threshold: a constant, a configured field, a parameter — not something computed
				// from the container itself (`idx == len(entries)` after a search is a position test, not a trigger)
				other := bo.Y
				if isLenC(bo.Y) {
					other = bo.X
				}
				var thresholdLike func(v ssa.Value, d int) bool
				thresholdLike = func(v ssa.Value, d int) bool {
					if d > 4 {
						return false
					}
					switch x := p.origin(v).(type) {
					case *ssa.Const, *ssa.Parameter, *ssa.FreeVar, *ssa.Global:
						return true
					case *ssa.UnOp:
						if x.Op == token.MUL {
							if fa, ok := x.X.(*ssa.FieldAddr); ok {
								return fieldKeyAddr(fa) != fk
							}
							_, isG := x.X.(*ssa.Global)
							return isG
						}
						return thresholdLike(x.X, d+1)
					case *ssa.BinOp:
						return thresholdLike(x.X, d+1) && thresholdLike(x.Y, d+1)
					case *ssa.Convert:
						return thresholdLike(x.X, d+1)
					case *ssa.ChangeType:
						return thresholdLike(x.X, d+1)
					case *ssa.Call:
						if bn := builtinName(&x.Call); bn == "cap" || bn == "len" {
							return !loadsField(p, x.Call.Args[0], fk) || bn == "cap"
						}
					}
					return false
				}
				if !thresholdLike(other, 0) {
					continue
				}
				isShrink := func(in ssa.Instruction) bool {
					for _, s := range c.shrink {
						if s.at == in {
							return true
						}
					}
					return false
				}
				before := seededCounts(fn, eqSucc, isShrink)
				var miss []string
				for _, rb := range fn.Blocks {
					last := rb.Instrs[len(rb.Instrs)-1]
					if _, isRet := last.(*ssa.Return); !isRet || rb == fn.Recover {
						continue
					}
					if m := before[last]; m != 0 && m&1 != 0 {
						miss = append(miss, p.instrPos(last))
					}
				}
				key := fmt.Sprintf("%s@%s", fk, funcKey(fn))
				// E3b: the trigger is tested after every append — no path from the append to a return goes around the
				// test (an early return between them leaves the length at the threshold; the next append passes it)
				testIf := b.Instrs[len(b.Instrs)-1]
				var around []string
				if g.at.Parent() == fn && canReach(g.at, testIf) {
					isTest := func(in ssa.Instruction) bool { return in == testIf }
					for _, rb := range fn.Blocks {
						last := rb.Instrs[len(rb.Instrs)-1]
						if _, isRet := last.(*ssa.Return); !isRet || rb == fn.Recover {
							continue
						}
						if pathAvoiding(g.at, last, isTest) {
							around = append(around, p.instrPos(last))
						}
					}
				}
				if len(around) > 0 {
					o.bad("E3", key, p.instrPosV(bo), fmt.Sprintf("the container is processed when its length equals a threshold (%s), but the return at %s is reached from the append at %s without passing that test: the length stays at the threshold, the next append passes it, the equality never holds again and the container grows with every packet", valueString(bo), around[0], p.instrPos(g.at)))
				} else if len(miss) > 0 {
					o.bad("E3", key, p.instrPosV(bo), fmt.Sprintf("the container is processed when its length equals a threshold (%s), but on some path from that branch (to the return at %s) it is not reset: once the length has passed the threshold the equality never holds again and the container grows with every packet", valueString(bo), miss[0]))
				} else {
					o.ok("E3", key, p.instrPosV(bo), "every path from the length==threshold branch resets the container")
				}
			}
		}
	}
	// goroutine-local / function-local slices that grow in a loop
	for _, fn := range p.Funcs {
		if !traffic[fn] {
			continue
		}
		eLocalSlices(p, o, fn)
	}
	// hand-written linked structures
	for _, cc := range customContainers {
		if p.Fixture {
			continue
		}
		growT, shrinkT := false, false
		for _, g := range cc.grow {
			if f := p.FuncByKey(g); f != nil && traffic[f] {
				growT = true
			}
		}
		for _, s := range cc.shrink {
			if f := p.FuncByKey(s); f != nil && traffic[f] {
				shrinkT = true
			}
		}
		switch {
		case !growT:
			o.undecided("E1", cc.key, "-", "anchor unresolved: growth method not found on a traffic path")
		case shrinkT:
			o.ok("E1", cc.key, "-", "Push is reached per packet and so are Pop/PopAt*")
		default:
			o.bad("E1", cc.key, "-", "Push is reached per packet but no Pop*/Clear is reachable from any traffic path")
		}
	}
}

// chanCapacity finds the make(chan T, k) stored into the field: constant or a configured field.
func chanCapacity(p *Prog, fk string) string {
	res := ""
	for _, fn := range p.Funcs {
		instrsOf(fn, func(in ssa.Instruction) {
			st, ok := in.(*ssa.Store)
			if !ok {
				return
			}
			fa, ok := st.Addr.(*ssa.FieldAddr)
			if !ok || fieldKeyAddr(fa) != fk {
				return
			}
			v := p.origin(st.Val)
			if ct, ok := v.(*ssa.ChangeType); ok {
				v = p.origin(ct.X)
			}
			if mc, ok := v.(*ssa.MakeChan); ok {
				if c, ok := constInt(mc.Size); ok {
					res = fmt.Sprintf("capacity %d", c)
				} else {
					res = "capacity " + shortExpr(p, mc.Size)
				}
			}
		})
	}
	return res
}

// eLocalSlices: a local slice that is appended to inside a loop must also be cut inside that loop.
func eLocalSlices(p *Prog, o *obls, fn *ssa.Function) {
	loops := naturalLoops(fn)
	for h, body := range loops {
		for _, in := range h.Instrs {
			phi, ok := in.(*ssa.Phi)
			if !ok {
				continue
			}
			if _, isSlice := phi.Type().Underlying().(*types.Slice); !isSlice {
				continue
			}
			grows, shrinks := false, false
			var growAt ssa.Instruction
			// values flowing back into the phi from inside the loop
			seen := map[ssa.Value]bool{}
			var walk func(v ssa.Value, d int)
			walk = func(v ssa.Value, d int) {
				if v == nil || seen[v] || d > 20 {
					return
				}
				seen[v] = true
				switch x := v.(type) {
				case *ssa.Phi:
					if x == phi {
						return
					}
					if body[x.Block()] {
						for _, e := range x.Edges {
							walk(e, d+1)
						}
					}
				case *ssa.Call:
					if builtinName(&x.Call) == "append" && body[x.Block()] {
						if reachesPhi(p, x.Call.Args[0], phi, body) {
							grows = true
							growAt = x
						}
						walk(x.Call.Args[0], d+1)
					} else if sc := x.Call.StaticCallee(); sc != nil && p.InUniverse(sc) && body[x.Block()] {
						// queue = helper(queue): the helper hands back a re-sliced (or fresh) queue
						for i, a := range x.Call.Args {
							if reachesPhi(p, a, phi, body) && i < len(sc.Params) && returnsCutOf(p, sc, sc.Params[i]) {
								shrinks = true
							}
						}
					}
				case *ssa.Slice:
					if body[x.Block()] && reachesPhi(p, x.X, phi, body) {
						shrinks = true
					}
				case *ssa.Extract:
					walk(x.Tuple, d+1)
				case *ssa.Const, *ssa.MakeSlice:
					if in, ok := v.(ssa.Instruction); ok && body[in.Block()] {
						shrinks = true
					}
					if _, ok := v.(*ssa.Const); ok {
						shrinks = true
					}
				}
			}
			for i, e := range phi.Edges {
				if body[h.Preds[i]] {
					walk(e, 0)
				}
			}
			if !grows {
				continue
			}
			name := phi.Comment
			if name == "" {
				name = "slice"
			}
			key := fmt.Sprintf("%s:local %s", funcKey(fn), name)
			if shrinks {
				o.ok("E1", key, p.instrPos(growAt), "local slice appended to in a loop and cut (re-sliced / reset) in the same loop")
			} else if loopBounded(p, h, body) {
				o.trivial("E1", key, p.instrPos(growAt), "local slice filled by a bounded loop (range / counted)")
			} else {
				o.bad("E1", key, p.instrPos(growAt), "local slice grows in an unbounded loop and is never cut")
			}
		}
	}
}

func reachesPhi(p *Prog, v ssa.Value, phi *ssa.Phi, body map[*ssa.BasicBlock]bool) bool {
	seen := map[ssa.Value]bool{}
	var walk func(v ssa.Value, d int) bool
	walk = func(v ssa.Value, d int) bool {
		if v == nil || seen[v] || d > 20 {
			return false
		}
		seen[v] = true
		if v == ssa.Value(phi) {
			return true
		}
		switch x := v.(type) {
		case *ssa.Phi:
			for _, e := range x.Edges {
				if walk(e, d+1) {
					return true
				}
			}
		case *ssa.Slice:
			return walk(x.X, d+1)
		case *ssa.Call:
			if builtinName(&x.Call) == "append" {
				return walk(x.Call.Args[0], d+1)
			}
		case *ssa.Extract:
			return walk(x.Tuple, d+1)
		}
		return false
	}
	return walk(v, 0)
}

// loopBounded: the loop is a range loop or has an exit condition comparing a counter (not a blocking receive/select).
func loopBounded(p *Prog, h *ssa.BasicBlock, body map[*ssa.BasicBlock]bool) bool {
	for b := range body {
		for _, in := range b.Instrs {
			switch x := in.(type) {
			case *ssa.Select:
				return false
			case *ssa.UnOp:
				if x.Op == token.ARROW {
					return false
				}
			}
		}
	}
	for b := range body {
		if c := ifCond(b); c != nil && (!body[b.Succs[0]] || !body[b.Succs[1]]) {
			return true
		}
	}
	_ = sort.Strings
	return false
}

// returnsCutOf: some return of fn hands back a re-slice of the given slice parameter (par[k:], possibly through a
// loop-carried variable), nil or a fresh slice.
func returnsCutOf(p *Prog, fn *ssa.Function, par *ssa.Parameter) bool {
	found := false
	seen := map[ssa.Value]bool{}
	var fromPar func(v ssa.Value, d int) bool
	fromPar = func(v ssa.Value, d int) bool {
		v = p.origin(v)
		if v == ssa.Value(par) {
			return true
		}
		if d > 12 {
			return false
		}
		switch x := v.(type) {
		case *ssa.Phi:
			for _, e := range x.Edges {
				if e != ssa.Value(x) && fromPar(e, d+1) {
					return true
				}
			}
		case *ssa.Slice:
			return fromPar(x.X, d+1)
		case *ssa.Extract:
			return fromPar(x.Tuple, d+1)
		case *ssa.Call:
			if sc := x.Call.StaticCallee(); sc != nil && p.InUniverse(sc) {
				for _, a := range x.Call.Args {
					if _, isSlice := a.Type().Underlying().(*types.Slice); isSlice && fromPar(a, d+1) {
						return true
					}
				}
			}
		}
		return false
	}
	var walk func(v ssa.Value, d int)
	walk = func(v ssa.Value, d int) {
		v = p.origin(v)
		if v == nil || seen[v] || d > 20 {
			return
		}
		seen[v] = true
		switch x := v.(type) {
		case *ssa.Phi:
			for _, e := range x.Edges {
				walk(e, d+1)
			}
		case *ssa.Slice:
			if x.Low != nil && !isConstInt(x.Low, 0) && fromPar(x.X, 0) {
				found = true
			}
			walk(x.X, d+1)
		case *ssa.Extract:
			walk(x.Tuple, d+1)
		case *ssa.Const, *ssa.MakeSlice:
			found = true
		case *ssa.Call:
			// the cut is made by a helper of this helper (`next, pending = dequeue(pending)`)
			if sc := x.Call.StaticCallee(); sc != nil && sc != fn && p.InUniverse(sc) && sc.Blocks != nil && d < 6 {
				for i, a := range x.Call.Args {
					if i < len(sc.Params) && fromPar(a, 0) && returnsCutOf(p, sc, sc.Params[i]) {
						found = true
					}
				}
			}
		}
	}
	for _, b := range fn.Blocks {
		if ret, ok := b.Instrs[len(b.Instrs)-1].(*ssa.Return); ok {
			for _, r := range ret.Results {
				if _, isSlice := r.Type().Underlying().(*types.Slice); isSlice {
					walk(r, 0)
				}
			}
		}
	}
	return found
}
